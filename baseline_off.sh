#!/bin/bash
# Runs the repository's pinned suite with the verif guard OFF and compares with /root/.vp/BASELINE.json.
export GOFLAGS=-mod=mod GOPROXY=off GOSUMDB=off GOTOOLCHAIN=local
REPO="${VERIF_REPO:-/repo}"
OUT="$(mktemp)"
for m in . v2; do (cd "$REPO/$m" && go test -json -vet=off -count=1 -timeout 25m ./... 2>/dev/null); done > "$OUT"
python3 - "$OUT" <<'PY'
import json,sys
passed=set(); failed=set()
for l in open(sys.argv[1]):
    try: e=json.loads(l)
    except Exception: continue
    if e.get("Test") and e.get("Action") in("pass","fail"):
        (passed if e["Action"]=="pass" else failed).add(e["Package"]+"::"+e["Test"])
base=set(json.load(open("/root/.vp/BASELINE.json"))["stable_pass"])
missing=sorted(base-passed)
print(f"baseline: {len(base&passed)}/{len(base)} pinned tests pass; failed tests: {sorted(failed)[:5]}; missing: {missing[:5]}")
sys.exit(0 if not missing and not failed else 1)
PY
RC=$?; rm -f "$OUT"; exit $RC
