#!/usr/bin/env python3
"""Regenerates MANIFEST.json from the table below (kept in one place so it is always schema-valid)."""
import json, sys
CHECKS = {}
def chk(pid, technique, text, note, design, thorough=True):
    CHECKS[pid] = dict(technique=technique, text=text, note=note, design=design, thorough=thorough)

exec(open('/verif/manifest_checks.py').read())

props = [json.loads(l)["id"] for l in open('/verif/properties.jsonl')]
m = {
 "version": 1,
 "setup_cmd": "./setup.sh",
 "hooks": {
  "guard": "verif",
  "enable": "go build -tags verif (the ./check script builds the harness module with replace directives pointing at /repo and /repo/v2)",
  "baseline_off_cmd": "/verif/baseline_off.sh",
  "source_commits": HOOK_COMMITS,
  "add_only": True,
 },
 "engines": [{"name": "harness", "path": "harness/", "serves_properties": sorted(CHECKS), "kind_free_text": "Go module built against /repo working tree with -tags verif: seeded workload generators, independent reference models, monitors over recorded events, porcupine, race detector"}],
 "checks": [],
 "notes": "All checks: ./check <Cnn> quick|thorough; VERIF_SEED selects the PRNG-determined case list; known_findings.jsonl lists triaged genuine defects (open / fixed).",
 "not_applicable": [],
}
for pid in props:
    if pid in CHECKS:
        c = CHECKS[pid]
        e = {"property_id": pid, "quick_cmd": f"./check {pid} quick", "evidence_file": f"/verif/evidence/{pid}.json",
             "replay_cmd_template": f"./check {pid} quick --replay {{path}}", "engine": "harness",
             "level_claimed": {"category": "exploration", "text": c["text"], "design_ref": c["design"]},
             "level_note": c["note"], "technique": c["technique"]}
        if c["thorough"]:
            e["thorough_cmd"] = f"./check {pid} thorough"
        m["checks"].append(e)
    else:
        m["not_applicable"].append({"property_id": pid, "reason": NOT_YET.get(pid, "monitor not built yet in this session (see DESIGN.md section 3 for the planned monitor); not claimed until its check exists and is silent on the unchanged tree")})
json.dump(m, open('/verif/MANIFEST.json', 'w'), indent=1)
print("checks:", [c["property_id"] for c in m["checks"]], "n/a:", len(m["not_applicable"]))
