// Package bridge maps abstract values (package model) to and from the Go values of generated bindings by
// reflection, following the regular shapes the generator emits: required field = value, optional / defaulted
// = pointer, include = embedded struct, enum = named int32 (symbol index + 1), fixed = [N]byte, typeref =
// named primitive, union = struct of pointer members, complex key = embedded key record + Params pointer.
//
// The bridge is part of the trusted base; SelfCheck verifies Read(Build(v)) == v before a run trusts it.
package bridge

import (
	"encoding/json"
	"fmt"
	"reflect"

	"verifh/corpus"
	"verifh/model"
)

type ResourceEntry struct {
	NewClient         func(c any) any // c is *restli.Client
	NewMock           func() any
	Register          func(server any, mock any)
	ReadOnly          any
	CreateAndReadOnly any
}

// Set is one generated schema set: schema + Go types.
type Set struct {
	Name            string
	Schema          *corpus.Schema
	Types           map[string]reflect.Type
	NewWithDefaults map[string]func() any
	Resources       map[string]ResourceEntry
	// EmptyAsNil makes Build leave empty arrays / maps / bytes as nil slices and maps (the other half of the
	// "nil and empty are the same value" clause).  Not safe to toggle while other goroutines build.
	EmptyAsNil bool
}

func NewSet(name, schemaJSON string, types map[string]reflect.Type, nwd map[string]func() any) *Set {
	s := &corpus.Schema{}
	if err := json.Unmarshal([]byte(schemaJSON), s); err != nil {
		panic(err)
	}
	return &Set{Name: name, Schema: s, Types: types, NewWithDefaults: nwd, Resources: map[string]ResourceEntry{}}
}

// GoType returns the Go type holding a value of t *in a required field position*.
func (s *Set) NamedType(full string) reflect.Type {
	t, ok := s.Types[full]
	if !ok {
		panic("no Go type registered for " + full)
	}
	return t
}

// New allocates a fresh Go value (pointer) for the named type.
func (s *Set) New(full string) reflect.Value { return reflect.New(s.NamedType(full)) }

// Build stores abstract value v (of schema type t) into dst, which must be settable and of the Go type the
// generator uses at that position (possibly a pointer).  A nil v leaves dst at its zero value.
func (s *Set) Build(dst reflect.Value, t corpus.TypeExpr, v *model.Value) (err error) {
	defer func() {
		if r := recover(); r != nil {
			err = fmt.Errorf("bridge.Build(%s into %s): %v", t, dst.Type(), r)
		}
	}()
	s.build(dst, t, v)
	return nil
}

func (s *Set) build(dst reflect.Value, t corpus.TypeExpr, v *model.Value) {
	if v == nil {
		return
	}
	if dst.Kind() == reflect.Ptr {
		p := reflect.New(dst.Type().Elem())
		s.build(p.Elem(), t, v)
		dst.Set(p)
		return
	}
	et, td := model.Resolve(s.Schema, t)
	if td == nil {
		switch {
		case et.Prim != "":
			switch et.Prim {
			case "int32", "int64":
				dst.SetInt(v.I)
			case "float32", "float64":
				dst.SetFloat(v.F)
			case "bool":
				dst.SetBool(v.B)
			case "string":
				dst.SetString(v.S)
			case "bytes":
				if v.S == "" {
					if !s.EmptyAsNil {
						dst.SetBytes([]byte{})
					}
				} else {
					dst.SetBytes([]byte(v.S))
				}
			}
		case et.Array != nil:
			if len(v.Elems) == 0 && s.EmptyAsNil {
				return
			}
			sl := reflect.MakeSlice(dst.Type(), len(v.Elems), len(v.Elems))
			for i, e := range v.Elems {
				s.build(sl.Index(i), *et.Array, e)
			}
			dst.Set(sl)
		case et.Map != nil:
			if len(v.Entries) == 0 && s.EmptyAsNil {
				return
			}
			m := reflect.MakeMapWithSize(dst.Type(), len(v.Entries))
			for k, e := range v.Entries {
				ev := reflect.New(dst.Type().Elem()).Elem()
				s.build(ev, *et.Map, e)
				m.SetMapIndex(reflect.ValueOf(k).Convert(dst.Type().Key()), ev)
			}
			dst.Set(m)
		}
		return
	}
	switch td.Kind {
	case "enum":
		ord := v.EnumOrd
		if v.S != "" {
			ord = 0
			for i, sym := range td.Symbols {
				if sym == v.S {
					ord = i + 1
				}
			}
		}
		dst.SetInt(int64(ord))
	case "fixed":
		if dst.Kind() != reflect.Array || dst.Len() != len(v.S) {
			panic(fmt.Sprintf("fixed %s: Go type %s does not hold %d bytes", td.Name, dst.Type(), len(v.S)))
		}
		for i := 0; i < len(v.S); i++ {
			dst.Index(i).SetUint(uint64(v.S[i]))
		}
	case "union":
		if v.Alias == "" {
			return
		}
		for _, m := range td.Members {
			if m.Alias == v.Alias {
				f := dst.FieldByName(corpus.MemberGoName(m.Alias))
				if !f.IsValid() {
					panic("union " + td.Name + " has no Go member for alias " + m.Alias)
				}
				s.build(f, m.Type, v.Member)
				return
			}
		}
		panic("unknown union alias " + v.Alias)
	case "record":
		s.buildRecord(dst, td, v)
	case "complexkey":
		key := s.Schema.Lookup(td.Key)
		emb := dst.FieldByName(key.Name)
		if !emb.IsValid() {
			panic("complex key " + td.Name + " does not embed " + key.Name)
		}
		kv := model.Clone(v)
		p := kv.Fields["$params"]
		delete(kv.Fields, "$params")
		s.buildRecord(emb, key, kv)
		if p != nil {
			s.build(dst.FieldByName("Params"), corpus.R(td.Params), p)
		}
	}
}

func (s *Set) buildRecord(dst reflect.Value, td *corpus.TypeDef, v *model.Value) {
	// Inherited fields are reached as promoted fields: the v2 generator embeds the included record (which embeds its own
	// includes), the root generator embeds the declaring record of every inherited field directly; FieldByName resolves
	// both layouts (the shallowest match wins, which is the one the generated marshalers use).
	for _, f := range s.Schema.AllFields(td) {
		fv := v.Fields[f.Name]
		if fv == nil {
			continue
		}
		gf := dst.FieldByName(corpus.GoFieldName(f.Name))
		if !gf.IsValid() {
			panic("record " + td.Name + " has no Go field for " + f.Name)
		}
		s.build(gf, f.Type, fv)
	}
}

// Read converts a Go value of the generated bindings back into an abstract value.
func (s *Set) Read(src reflect.Value, t corpus.TypeExpr) (v *model.Value, err error) {
	defer func() {
		if r := recover(); r != nil {
			err = fmt.Errorf("bridge.Read(%s from %s): %v", t, src.Type(), r)
		}
	}()
	return s.read(src, t), nil
}

func (s *Set) read(src reflect.Value, t corpus.TypeExpr) *model.Value {
	if src.Kind() == reflect.Ptr {
		if src.IsNil() {
			return nil
		}
		return s.read(src.Elem(), t)
	}
	et, td := model.Resolve(s.Schema, t)
	if td == nil {
		switch {
		case et.Prim != "":
			switch et.Prim {
			case "int32":
				return model.Int32(int32(src.Int()))
			case "int64":
				return model.Int64(src.Int())
			case "float32":
				return model.Float32(float32(src.Float()))
			case "float64":
				return model.Float64(src.Float())
			case "bool":
				return model.Bool(src.Bool())
			case "string":
				return model.String(src.String())
			case "bytes":
				return &model.Value{Kind: model.KBytes, S: string(src.Bytes())}
			}
		case et.Array != nil:
			v := &model.Value{Kind: model.KArray}
			for i := 0; i < src.Len(); i++ {
				v.Elems = append(v.Elems, s.read(src.Index(i), *et.Array))
			}
			return v
		case et.Map != nil:
			v := &model.Value{Kind: model.KMap, Entries: map[string]*model.Value{}}
			it := src.MapRange()
			for it.Next() {
				v.Entries[it.Key().String()] = s.read(it.Value(), *et.Map)
			}
			return v
		}
		panic("bad type")
	}
	switch td.Kind {
	case "enum":
		ord := int(src.Int())
		if ord >= 1 && ord <= len(td.Symbols) {
			return &model.Value{Kind: model.KEnum, S: td.Symbols[ord-1]}
		}
		return &model.Value{Kind: model.KEnum, EnumOrd: ord}
	case "fixed":
		b := make([]byte, src.Len())
		for i := range b {
			b[i] = byte(src.Index(i).Uint())
		}
		return &model.Value{Kind: model.KFixed, S: string(b)}
	case "union":
		out := &model.Value{Kind: model.KUnion}
		n := 0
		for _, m := range td.Members {
			f := src.FieldByName(corpus.MemberGoName(m.Alias))
			if !f.IsNil() {
				n++
				out.Alias = m.Alias
				out.Member = s.read(f, m.Type)
			}
		}
		if n > 1 {
			out.Alias = "<several members set>"
		}
		return out
	case "record":
		v := &model.Value{Kind: model.KRecord, Fields: map[string]*model.Value{}}
		s.readRecord(src, td, v)
		return v
	case "complexkey":
		key := s.Schema.Lookup(td.Key)
		v := &model.Value{Kind: model.KRecord, Fields: map[string]*model.Value{}}
		s.readRecord(src.FieldByName(key.Name), key, v)
		if p := src.FieldByName("Params"); !p.IsNil() {
			v.Fields["$params"] = s.read(p, corpus.R(td.Params))
		}
		return v
	}
	panic("bad kind")
}

func (s *Set) readRecord(src reflect.Value, td *corpus.TypeDef, v *model.Value) {
	for _, f := range s.Schema.AllFields(td) {
		gf := src.FieldByName(corpus.GoFieldName(f.Name))
		if !gf.IsValid() {
			panic("record " + td.Name + " has no Go field for " + f.Name)
		}
		if fv := s.read(gf, f.Type); fv != nil {
			v.Fields[f.Name] = fv
		}
	}
}

// SelfCheck builds and reads back n values of every type.
func (s *Set) SelfCheck(g *model.Gen, perType int) error {
	for _, td := range s.Schema.Types {
		if td.Kind == "typeref" {
			continue
		}
		t := corpus.R(td.FullName())
		for i := 0; i < perType; i++ {
			v := g.Value(t, 0)
			p := s.New(td.FullName())
			if err := s.Build(p.Elem(), t, v); err != nil {
				return err
			}
			w, err := s.Read(p.Elem(), t)
			if err != nil {
				return err
			}
			if d := model.Diff(v, w, td.FullName()); d != "" {
				return fmt.Errorf("bridge self-check failed: %s", d)
			}
		}
	}
	return nil
}
