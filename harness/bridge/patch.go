package bridge

import (
	"fmt"
	"reflect"

	"verifh/corpus"
	"verifh/model"
)

// Patch is the abstract form of a partial update of a record.
type Patch struct {
	Set    map[string]*model.Value
	Delete map[string]bool
	Nested map[string]*Patch
}

func NewPatch() *Patch {
	return &Patch{Set: map[string]*model.Value{}, Delete: map[string]bool{}, Nested: map[string]*Patch{}}
}

func (p *Patch) Empty() bool { return len(p.Set) == 0 && len(p.Delete) == 0 && len(p.Nested) == 0 }

// patchLevel finds, for field name f of record td, the generated struct level (an X_PartialUpdate value) that owns it.
func (s *Set) patchLevel(pu reflect.Value, td *corpus.TypeDef, f string) (reflect.Value, *corpus.TypeDef, bool) {
	for _, own := range td.Fields {
		if own.Name == f {
			return pu, td, true
		}
	}
	for _, inc := range td.Includes {
		itd := s.Schema.Lookup(inc)
		emb := pu.FieldByName(itd.Name + "_PartialUpdate")
		if !emb.IsValid() {
			// the root-module generator flattens inherited fields into the including record's own patch struct
			emb = pu
		}
		if lv, ltd, ok := s.patchLevel(emb, itd, f); ok {
			return lv, ltd, true
		}
	}
	return reflect.Value{}, nil, false
}

func fieldOf(td *corpus.TypeDef, name string) *corpus.Field {
	for i := range td.Fields {
		if td.Fields[i].Name == name {
			return &td.Fields[i]
		}
	}
	return nil
}

// BuildPatch fills a fresh X_PartialUpdate (pointer) from p.  Combinations the Go type cannot express (deleting a
// required field, nested patch of a non-record field) return an error.
func (s *Set) BuildPatch(full string, p *Patch) (ptr reflect.Value, err error) {
	defer func() {
		if r := recover(); r != nil {
			err = fmt.Errorf("bridge.BuildPatch(%s): %v", full, r)
		}
	}()
	ptr = s.New(full + "#patch")
	return ptr, s.buildPatch(ptr.Elem(), s.Schema.Lookup(full), p)
}

func (s *Set) buildPatch(pu reflect.Value, td *corpus.TypeDef, p *Patch) error {
	for name, v := range p.Set {
		lv, ltd, ok := s.patchLevel(pu, td, name)
		if !ok {
			return fmt.Errorf("no patch level for field %s", name)
		}
		f := fieldOf(ltd, name)
		dst := lv.FieldByName("Set_Fields").FieldByName(corpus.GoFieldName(name))
		if !dst.IsValid() {
			return fmt.Errorf("no Set_Fields member for %s", name)
		}
		s.build(dst, f.Type, v)
	}
	for name := range p.Delete {
		lv, _, ok := s.patchLevel(pu, td, name)
		if !ok {
			return fmt.Errorf("no patch level for field %s", name)
		}
		df := lv.FieldByName("Delete_Fields")
		if !df.IsValid() {
			return fmt.Errorf("inexpressible: no Delete_Fields at the level of %s", name)
		}
		dst := df.FieldByName(corpus.GoFieldName(name))
		if !dst.IsValid() {
			return fmt.Errorf("inexpressible: Delete_Fields has no member for %s", name)
		}
		dst.SetBool(true)
	}
	for name, np := range p.Nested {
		lv, ltd, ok := s.patchLevel(pu, td, name)
		if !ok {
			return fmt.Errorf("no patch level for field %s", name)
		}
		f := fieldOf(ltd, name)
		dst := lv.FieldByName(corpus.GoFieldName(name))
		if !dst.IsValid() || dst.Kind() != reflect.Ptr {
			return fmt.Errorf("inexpressible: no nested patch member for %s", name)
		}
		_, ftd := model.Resolve(s.Schema, f.Type)
		n := reflect.New(dst.Type().Elem())
		if err := s.buildPatch(n.Elem(), ftd, np); err != nil {
			return err
		}
		dst.Set(n)
	}
	return nil
}

// ReadPatch converts a generated X_PartialUpdate value back into the abstract form.
func (s *Set) ReadPatch(pu reflect.Value, td *corpus.TypeDef) (p *Patch, err error) {
	defer func() {
		if r := recover(); r != nil {
			err = fmt.Errorf("bridge.ReadPatch(%s): %v", td.Name, r)
		}
	}()
	p = NewPatch()
	s.readPatch(pu, td, p)
	return p, nil
}

func (s *Set) readPatch(pu reflect.Value, td *corpus.TypeDef, p *Patch) {
	for _, inc := range td.Includes {
		itd := s.Schema.Lookup(inc)
		emb := pu.FieldByName(itd.Name + "_PartialUpdate")
		if !emb.IsValid() {
			emb = pu // flattened (root-module generator)
		}
		s.readPatch(emb, itd, p)
	}
	setF, delF := pu.FieldByName("Set_Fields"), pu.FieldByName("Delete_Fields")
	for _, f := range td.Fields {
		g := corpus.GoFieldName(f.Name)
		if m := setF.FieldByName(g); m.IsValid() && !m.IsNil() {
			p.Set[f.Name] = s.read(m, f.Type)
		}
		// (the root-module generator omits Delete_Fields for records without deletable fields)
		if !delF.IsValid() {
		} else if m := delF.FieldByName(g); m.IsValid() && m.Bool() {
			p.Delete[f.Name] = true
		}
		if _, ftd := model.Resolve(s.Schema, f.Type); ftd != nil && ftd.Kind == "record" && f.Type.Ref != "" {
			if m := pu.FieldByName(g); m.IsValid() && m.Kind() == reflect.Ptr && !m.IsNil() {
				np := NewPatch()
				s.readPatch(m.Elem(), ftd, np)
				p.Nested[f.Name] = np
			}
		}
	}
}

// EqualPatch compares two abstract patches.
func EqualPatch(a, b *Patch) string {
	if len(a.Set) != len(b.Set) || len(a.Delete) != len(b.Delete) || len(a.Nested) != len(b.Nested) {
		return fmt.Sprintf("shape: set %d/%d delete %d/%d nested %d/%d", len(a.Set), len(b.Set), len(a.Delete), len(b.Delete), len(a.Nested), len(b.Nested))
	}
	for k, v := range a.Set {
		if d := model.Diff(v, b.Set[k], "$set."+k); d != "" {
			return d
		}
	}
	for k := range a.Delete {
		if !b.Delete[k] {
			return "$delete " + k
		}
	}
	for k, n := range a.Nested {
		m, ok := b.Nested[k]
		if !ok {
			return "nested " + k + " missing"
		}
		if d := EqualPatch(n, m); d != "" {
			return k + "/" + d
		}
	}
	return ""
}
