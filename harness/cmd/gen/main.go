// Command gen runs the real go-restli v2 generator on JSON manifests written by the corpus emitter.
// usage: gen <outDir> <manifest.json> [dependency manifests...]
package main

import (
	"log"
	"os"

	"github.com/PapaCharlie/go-restli/v2/cmd"
)

func main() {
	if len(os.Args) < 3 {
		log.Fatalf("usage: gen outDir manifest [deps...]")
	}
	var manifests []*cmd.GoRestliManifest
	for _, f := range os.Args[3:] {
		data, err := os.ReadFile(f)
		if err != nil {
			log.Fatal(err)
		}
		m, err := cmd.ReadManifest(data)
		if err != nil {
			log.Fatalf("%s: %v", f, err)
		}
		manifests = append(manifests, m)
	}
	data, err := os.ReadFile(os.Args[2])
	if err != nil {
		log.Fatal(err)
	}
	m, err := cmd.ReadManifest(data)
	if err != nil {
		log.Fatalf("%s: %v", os.Args[2], err)
	}
	manifests = append(manifests, m)
	// VERIF_GEN_WITH_PACKAGE_ROOT=1 stands for the generator's --generate-with-package-root flag
	if err := cmd.GenerateCode(os.Args[1], manifests, os.Getenv("VERIF_GEN_WITH_PACKAGE_ROOT") == "1"); err != nil {
		log.Fatalf("%+v", err)
	}
}
