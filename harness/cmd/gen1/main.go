// Command gen1 runs the root-module (v1 generation) go-restli generator on a corpus manifest: the v2 manifest written
// by the corpus emitter is rewrapped into the root generator's spec dialect ({"dataTypes": [...], "resources": [...]}).
// usage: gen1 <outDir> <packagePrefix> <manifest.json>
package main

import (
	"encoding/json"
	"log"
	"os"

	"github.com/PapaCharlie/go-restli/cmd"
	"github.com/PapaCharlie/go-restli/codegen/utils"
)

func main() {
	if len(os.Args) < 4 {
		log.Fatalf("usage: gen1 outDir packagePrefix manifest")
	}
	data, err := os.ReadFile(os.Args[3])
	if err != nil {
		log.Fatal(err)
	}
	var m struct {
		InputDataTypes []json.RawMessage `json:"inputDataTypes"`
		Resources      []json.RawMessage `json:"resources"`
	}
	if err := json.Unmarshal(data, &m); err != nil {
		log.Fatal(err)
	}
	spec, err := json.Marshal(map[string]any{"dataTypes": m.InputDataTypes, "resources": m.Resources})
	if err != nil {
		log.Fatal(err)
	}
	utils.PackagePrefix = os.Args[2]
	if err := cmd.GenerateCode(spec, os.Args[1]); err != nil {
		log.Fatalf("%+v", err)
	}
}
