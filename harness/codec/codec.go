// Package codec wraps the library's (v2) encoder / decoder entry points behind one table so that drivers can
// run "encode with format f" / "decode with format f" on reflected values of generated types, catching panics.
package codec

import (
	"fmt"
	"reflect"
	"runtime/debug"
	"strings"

	"github.com/PapaCharlie/go-restli/v2/restlicodec"

	"verifh/bridge"
	"verifh/corpus"
	"verifh/model"
)

type Format struct {
	Name      string
	JSON      bool
	NewWriter func() restlicodec.Writer
	NewReader func(doc string) (restlicodec.Reader, error)
}

var Formats = []Format{
	{"json-compact", true, restlicodec.NewCompactJsonWriter, func(d string) (restlicodec.Reader, error) { return restlicodec.NewJsonReader([]byte(d)) }},
	{"json-pretty", true, restlicodec.NewPrettyJsonWriter, func(d string) (restlicodec.Reader, error) { return restlicodec.NewJsonReader([]byte(d)) }},
	{"ror2-header", false, restlicodec.NewRor2HeaderWriter, restlicodec.NewRor2Reader},
	{"ror2-path", false, func() restlicodec.Writer { return restlicodec.NewRor2PathWriter() }, restlicodec.NewRor2Reader},
	{"ror2-query", false, func() restlicodec.Writer { return restlicodec.NewRestLiQueryParamsWriter() }, func(d string) (restlicodec.Reader, error) {
		m, err := restlicodec.ParseQueryParams("v=" + d)
		if err != nil {
			return nil, err
		}
		r, ok := m["v"]
		if !ok {
			return nil, fmt.Errorf("query parameter v not found after parsing %q", "v="+d)
		}
		return r, nil
	}},
}

func FormatByName(n string) Format {
	for _, f := range Formats {
		if f.Name == n {
			return f
		}
	}
	panic("no format " + n)
}

// PanicError is returned when library code panicked.
type PanicError struct {
	Value string
	Frame string // top go-restli / generated-code frame
	Stack string
}

func (p *PanicError) Error() string { return "PANIC: " + p.Value + " at " + p.Frame }

func catch(err *error) {
	if r := recover(); r != nil {
		st := string(debug.Stack())
		*err = &PanicError{Value: fmt.Sprint(r), Frame: TopLibraryFrame(st), Stack: st}
	}
}

// TopLibraryFrame extracts the first frame of the stack that belongs to go-restli or generated code.
func TopLibraryFrame(stack string) string {
	lines := strings.Split(stack, "\n")
	for _, l := range lines {
		l = strings.TrimSpace(l)
		if (strings.Contains(l, "go-restli/") || strings.Contains(l, "verifh/gen/")) && strings.Contains(l, "(") && !strings.HasPrefix(l, "/") {
			if i := strings.LastIndex(l, "("); i > 0 {
				l = l[:i]
			}
			return l
		}
	}
	return "?"
}

// Encode marshals the Go value held by ptr (a pointer to a generated type) with format f.
func Encode(f Format, ptr reflect.Value) (out string, err error) {
	defer catch(&err)
	m, ok := ptr.Interface().(restlicodec.Marshaler)
	if !ok {
		return "", fmt.Errorf("%s is not a Marshaler", ptr.Type())
	}
	w := f.NewWriter()
	if err := m.MarshalRestLi(w); err != nil {
		return "", err
	}
	return w.Finalize(), nil
}

// EncodeWith marshals with an explicitly constructed writer (exclusion specs).
func EncodeWith(w restlicodec.Writer, ptr reflect.Value) (out string, err error) {
	defer catch(&err)
	m, ok := ptr.Interface().(restlicodec.Marshaler)
	if !ok {
		return "", fmt.Errorf("%s is not a Marshaler", ptr.Type())
	}
	if err := m.MarshalRestLi(w); err != nil {
		return "", err
	}
	return w.Finalize(), nil
}

// Decode unmarshals doc into a fresh value of the named type; returns the pointer even when err != nil
// (partially filled values are part of some properties).
func Decode(f Format, set *bridge.Set, full string, doc string) (ptr reflect.Value, err error) {
	defer catch(&err)
	ptr = set.New(full)
	r, err := f.NewReader(doc)
	if err != nil {
		return ptr, err
	}
	return DecodeWith(r, ptr)
}

func DecodeWith(r restlicodec.Reader, ptr reflect.Value) (_ reflect.Value, err error) {
	defer catch(&err)
	u, ok := ptr.Interface().(restlicodec.Unmarshaler)
	if !ok {
		return ptr, fmt.Errorf("%s is not an Unmarshaler", ptr.Type())
	}
	return ptr, u.UnmarshalRestLi(r)
}

// BuildGo builds the Go value of abstract value v of named type full.
func BuildGo(set *bridge.Set, full string, v *model.Value) (reflect.Value, error) {
	p := set.New(full)
	err := set.Build(p.Elem(), corpus.R(full), v)
	return p, err
}

// Equals calls the type's own Equals(a, b).
func Equals(a, b reflect.Value) (eq bool, err error) {
	defer catch(&err)
	m := a.MethodByName("Equals")
	if !m.IsValid() {
		return false, fmt.Errorf("%s has no Equals", a.Type())
	}
	arg := b
	if m.Type().In(0).Kind() != reflect.Ptr {
		arg = b.Elem()
	}
	return m.Call([]reflect.Value{arg})[0].Bool(), nil
}

// Hash calls ComputeHash() and returns its string form.
func Hash(a reflect.Value) (h string, err error) {
	defer catch(&err)
	m := a.MethodByName("ComputeHash")
	if !m.IsValid() {
		return "", fmt.Errorf("%s has no ComputeHash", a.Type())
	}
	out := m.Call(nil)[0]
	return fmt.Sprint(out.Interface()), nil
}

func IsMissingFields(err error) ([]string, bool) {
	if m, ok := err.(*restlicodec.MissingRequiredFieldsError); ok {
		return m.Fields, true
	}
	return nil, false
}
