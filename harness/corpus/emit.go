package corpus

import (
	"encoding/json"
	"fmt"
	"os"
	"path/filepath"
	"sort"
	"strings"
)

// ---------------------------------------------------------------------------------------------
// v2 manifest dialect (GoRestliManifest)

func splitFull(full string) (ns, name string) {
	i := strings.LastIndex(full, ".")
	return full[:i], full[i+1:]
}

func ident(full string) map[string]any {
	ns, name := splitFull(full)
	return map[string]any{"name": name, "namespace": ns}
}

func typeJSON(t TypeExpr) map[string]any {
	switch {
	case t.Prim != "":
		return map[string]any{"primitive": t.Prim}
	case t.Ref == RawRecordRef:
		return map[string]any{"rawRecord": true}
	case t.Ref != "":
		return map[string]any{"reference": ident(t.Ref)}
	case t.Array != nil:
		return map[string]any{"array": typeJSON(*t.Array)}
	case t.Map != nil:
		return map[string]any{"map": typeJSON(*t.Map)}
	}
	panic("empty type expression")
}

// RawRecordRef is the pseudo reference used for rawRecord-typed fields.
const RawRecordRef = "restlidata.RawRecord"

func fieldJSON(f Field) map[string]any {
	m := map[string]any{"name": f.Name, "doc": "", "type": typeJSON(f.Type), "isOptional": f.Optional}
	if f.Default != nil {
		m["defaultValue"] = *f.Default
	}
	return m
}

func named(t *TypeDef) map[string]any {
	return map[string]any{"name": t.Name, "namespace": t.Namespace, "sourceFile": "verif-corpus", "doc": ""}
}

// ManifestRoot is the manifest in the shape the root-module (v1) generator expects: the Java front end of that generation
// flattens included records, listing every inherited field in the including record with includedFrom = the record that
// declares it.
func (s *Schema) ManifestRoot() ([]byte, error) { return s.manifest(true) }

func (s *Schema) ManifestV2() ([]byte, error) { return s.manifest(false) }

func (s *Schema) manifest(flatten bool) ([]byte, error) {
	var types []any
	for _, t := range s.Types {
		n := named(t)
		switch t.Kind {
		case "record":
			incs := []any{}
			for _, i := range t.Includes {
				incs = append(incs, ident(i))
			}
			fields := []any{}
			if flatten {
				var inherited func(td *TypeDef)
				inherited = func(td *TypeDef) {
					for _, i := range td.Includes {
						itd := s.Lookup(i)
						inherited(itd)
						for _, f := range itd.Fields {
							fj := fieldJSON(f)
							fj["includedFrom"] = ident(i)
							fields = append(fields, fj)
						}
					}
				}
				inherited(t)
			}
			for _, f := range t.Fields {
				fields = append(fields, fieldJSON(f))
			}
			n["includes"], n["fields"] = incs, fields
			types = append(types, map[string]any{"record": n})
		case "enum":
			n["Symbols"], n["SymbolToDoc"] = t.Symbols, map[string]string{}
			types = append(types, map[string]any{"enum": n})
		case "fixed":
			n["Size"] = t.Size
			types = append(types, map[string]any{"fixed": n})
		case "typeref":
			n["type"], n["isCustom"] = t.Prim, false
			types = append(types, map[string]any{"typeref": n})
		case "union":
			members := []any{}
			for _, m := range t.Members {
				members = append(members, map[string]any{"Type": typeJSON(m.Type), "Alias": m.Alias})
			}
			n["Union"] = map[string]any{"HasNull": t.HasNull, "Members": members}
			types = append(types, map[string]any{"standaloneUnion": n})
		case "complexkey":
			n["Key"], n["Params"] = ident(t.Key), ident(t.Params)
			types = append(types, map[string]any{"complexKey": n})
		default:
			return nil, fmt.Errorf("unknown kind %q", t.Kind)
		}
	}
	resources := []any{}
	for _, r := range s.Resources {
		var segs []any
		for _, sg := range r.Segments {
			m := map[string]any{"resourceName": sg.Name, "pathKey": nil}
			if sg.Key != nil {
				m["pathKey"] = map[string]any{"name": sg.KeyName, "type": typeJSON(*sg.Key)}
			}
			segs = append(segs, m)
		}
		var methods []any
		for _, m := range r.Methods {
			params := []any{}
			for _, p := range m.Params {
				params = append(params, fieldJSON(p))
			}
			if flatten && m.Paging {
				// the root generator has no isPagingSupported flag: its front end lists the paging parameters as fields
				// included from restlidata.PagingContext
				for _, pn := range []string{"start", "count"} {
					pj := fieldJSON(Field{Name: pn, Type: P("int32"), Optional: true})
					pj["includedFrom"] = map[string]any{"name": "PagingContext", "namespace": "github.com/PapaCharlie/go-restli/restlidata"}
					params = append(params, pj)
				}
			}
			mm := map[string]any{"methodType": m.Kind, "name": m.Name, "doc": "", "onEntity": m.OnEntity, "params": params,
				"isPagingSupported": m.Paging, "return": nil, "metadata": nil, "returnEntity": m.ReturnEntity}
			if m.Return != nil {
				mm["return"] = typeJSON(*m.Return)
			}
			if m.Kind == "FINDER" && r.Schema != nil {
				mm["return"] = typeJSON(*r.Schema)
			}
			if m.Metadata != nil {
				mm["metadata"] = typeJSON(*m.Metadata)
			}
			methods = append(methods, mm)
		}
		rm := map[string]any{"namespace": r.Namespace, "doc": "", "sourceFile": "verif-corpus", "resourcePathSegments": segs,
			"resourceSchema": nil, "methods": methods, "readOnlyFields": orEmpty(r.ReadOnly), "createOnlyFields": orEmpty(r.CreateOnly)}
		if r.Schema != nil {
			rm["resourceSchema"] = typeJSON(*r.Schema)
		}
		resources = append(resources, rm)
	}
	return json.MarshalIndent(map[string]any{"packageRoot": s.PackageRoot, "inputDataTypes": types, "dependencyDataTypes": []any{}, "resources": resources}, "", " ")
}

func orEmpty(s []string) []string {
	if s == nil {
		return []string{}
	}
	return s
}

// ---------------------------------------------------------------------------------------------
// registry: lets everything else be generic and reflection-driven

func (s *Schema) RegistrySource(pkgName string) string { return s.registrySource(pkgName, false) }

// RegistrySourceRootFull is RegistrySource for bindings written by the root-module generator (resources included).
func (s *Schema) RegistrySourceRootFull(pkgName string) string { return s.registrySource(pkgName, true) }

func (s *Schema) registrySource(pkgName string, rootGen bool) string {
	mod := "github.com/PapaCharlie/go-restli/v2"
	if rootGen {
		mod = "github.com/PapaCharlie/go-restli"
	}
	var b strings.Builder
	imports := map[string]string{} // path -> alias
	alias := func(path string) string {
		if a, ok := imports[path]; ok {
			return a
		}
		a := fmt.Sprintf("p%d", len(imports))
		imports[path] = a
		return a
	}
	var body strings.Builder
	body.WriteString("var Types = map[string]reflect.Type{\n")
	for _, t := range s.Types {
		a := alias(s.GoPackagePath(t.Namespace))
		fmt.Fprintf(&body, "\t%q: reflect.TypeOf((*%s.%s)(nil)).Elem(),\n", t.FullName(), a, t.Name)
		if t.Kind == "record" {
			fmt.Fprintf(&body, "\t%q: reflect.TypeOf((*%s.%s_PartialUpdate)(nil)).Elem(),\n", t.FullName()+"#patch", a, t.Name)
		}
	}
	body.WriteString("}\n\n")
	body.WriteString("var NewWithDefaults = map[string]func() any{\n")
	for _, t := range s.Types {
		if t.Kind == "record" && s.HasDefault(t) {
			a := alias(s.GoPackagePath(t.Namespace))
			fmt.Fprintf(&body, "\t%q: func() any { return %s.New%sWithDefaultValues() },\n", t.FullName(), a, t.Name)
		}
	}
	body.WriteString("}\n\n")
	// resources
	body.WriteString("type ResourceEntry struct {\n\tNewClient func(*restli.Client) any\n\tNewMock func() any\n\tRegister func(restli.Server, any)\n\tReadOnly, CreateAndReadOnly restlicodec.PathSpec\n}\n\n")
	body.WriteString("var Resources = map[string]ResourceEntry{\n")
	for _, r := range s.Resources {
		if len(r.Methods) == 0 {
			continue
		}
		pa := alias(s.GoPackagePath(r.Namespace))
		ta := alias(s.GoPackagePath(r.Namespace) + "_test")
		ro, cro := "nil", "nil"
		if len(r.ReadOnly) > 0 {
			ro = pa + ".ReadOnlyFields"
		}
		if len(r.ReadOnly)+len(r.CreateOnly) > 0 {
			cro = pa + ".CreateAndReadOnlyFields"
		}
		fmt.Fprintf(&body, "\t%q: {\n\t\tNewClient: func(c *restli.Client) any { return %s.NewClient(c) },\n\t\tNewMock: func() any { return new(%s.MockResource) },\n\t\tRegister: func(s restli.Server, m any) { %s.RegisterResource(s, m.(*%s.MockResource)) },\n\t\tReadOnly: %s, CreateAndReadOnly: %s,\n\t},\n",
			r.Namespace, pa, ta, pa, ta, ro, cro)
	}
	body.WriteString("}\n")
	fmt.Fprintf(&b, "// Code generated by the verif corpus emitter; DO NOT EDIT.\n\npackage %s\n\nimport (\n\t\"reflect\"\n\n\t\"%s/restli\"\n\t\"%s/restlicodec\"\n", pkgName, mod, mod)
	var paths []string
	for p := range imports {
		paths = append(paths, p)
	}
	sort.Strings(paths)
	for _, p := range paths {
		fmt.Fprintf(&b, "\t%s %q\n", imports[p], p)
	}
	b.WriteString(")\n\nvar _ = restli.NewServer\nvar _ restlicodec.PathSpec\n\n")
	b.WriteString(body.String())
	return b.String()
}

// RegistrySourceRoot is the registry for bindings written by the root-module (v1) generator: types and default-value
// constructors only (the resource API of that generation is not driven through the registry).
func (s *Schema) RegistrySourceRoot(pkgName string) string {
	var b strings.Builder
	imports := map[string]string{}
	alias := func(path string) string {
		if a, ok := imports[path]; ok {
			return a
		}
		a := fmt.Sprintf("p%d", len(imports))
		imports[path] = a
		return a
	}
	var body strings.Builder
	body.WriteString("var Types = map[string]reflect.Type{\n")
	for _, t := range s.Types {
		a := alias(s.GoPackagePath(t.Namespace))
		fmt.Fprintf(&body, "\t%q: reflect.TypeOf((*%s.%s)(nil)).Elem(),\n", t.FullName(), a, t.Name)
		if t.Kind == "record" {
			fmt.Fprintf(&body, "\t%q: reflect.TypeOf((*%s.%s_PartialUpdate)(nil)).Elem(),\n", t.FullName()+"#patch", a, t.Name)
		}
	}
	body.WriteString("}\n\n")
	body.WriteString("var NewWithDefaults = map[string]func() any{\n")
	for _, t := range s.Types {
		if t.Kind == "record" && s.HasDefault(t) {
			a := alias(s.GoPackagePath(t.Namespace))
			fmt.Fprintf(&body, "\t%q: func() any { return %s.New%sWithDefaultValues() },\n", t.FullName(), a, t.Name)
		}
	}
	body.WriteString("}\n")
	fmt.Fprintf(&b, "// Code generated by the verif corpus emitter; DO NOT EDIT.\n\npackage %s\n\nimport (\n\t\"reflect\"\n\n", pkgName)
	var paths []string
	for p := range imports {
		paths = append(paths, p)
	}
	sort.Strings(paths)
	for _, p := range paths {
		fmt.Fprintf(&b, "\t%s %q\n", imports[p], p)
	}
	b.WriteString(")\n\n")
	b.WriteString(body.String())
	return b.String()
}

// WriteSetRoot writes the types-only manifest, schema and registry for the root-module generator below dir.
func (s *Schema) WriteSetRoot(dir string) error {
	if err := os.MkdirAll(filepath.Join(dir, "reg"), 0o755); err != nil {
		return err
	}
	typesOnly := *s // (historical name: resources are kept since the rig has a root-module variant)
	m, err := typesOnly.ManifestRoot()
	if err != nil {
		return err
	}
	if err := os.WriteFile(filepath.Join(dir, "manifest.in.json"), m, 0o644); err != nil {
		return err
	}
	sj, _ := json.MarshalIndent(&typesOnly, "", " ")
	src := typesOnly.RegistrySourceRootFull("reg") + "\nconst SchemaJSON = " + fmt.Sprintf("%q", string(sj)) + "\n"
	return os.WriteFile(filepath.Join(dir, "reg", "registry.go"), []byte(src), 0o644)
}

// WriteSet writes manifest, schema and registry for one schema set below dir (dir = <work>/gen/<set name>).
func (s *Schema) WriteSet(dir string) error {
	if err := os.MkdirAll(filepath.Join(dir, "reg"), 0o755); err != nil {
		return err
	}
	m, err := s.ManifestV2()
	if err != nil {
		return err
	}
	if err := os.WriteFile(filepath.Join(dir, "manifest.in.json"), m, 0o644); err != nil {
		return err
	}
	sj, _ := json.MarshalIndent(s, "", " ")
	if err := os.WriteFile(filepath.Join(dir, "schema.in.json"), sj, 0o644); err != nil {
		return err
	}
	src := s.RegistrySource("reg") + "\nconst SchemaJSON = " + fmt.Sprintf("%q", string(sj)) + "\n"
	return os.WriteFile(filepath.Join(dir, "reg", "registry.go"), []byte(src), 0o644)
}
