package corpus

import (
	"fmt"
	"math/rand"
	"strings"
)

// This file manufactures schema sets for the code-generation monitor (C12): unlike Random they use the whole
// grammar - namespaces that refer to each other in both directions, the same simple type name in several
// namespaces, mutually recursive records, complex keys, and resources of every kind with random method subsets.

var hardNames = []string{"Foo", "Bar", "Item", "Data", "Key", "Value", "Type", "Node", "Entry", "Result", "Info", "Spec"}

// Hard draws one schema set.
func Hard(rng *rand.Rand, name, packageRoot string, maxTypes int) *Schema {
	s := &Schema{Name: name, PackageRoot: packageRoot}
	nss := []string{name + ".alpha", name + ".beta", name + ".beta.core", name + ".delta.edge"}
	n := 6 + rng.Intn(maxTypes-5)
	prims := []string{"int32", "int64", "float32", "float64", "bool", "string", "bytes"}
	type planned struct {
		full, ns, name, kind string
	}
	// plan names first so that references can point forwards and across namespaces (cycles)
	var plan []planned
	usedName := map[string]bool{}
	kinds := []string{"enum", "fixed", "typeref", "record", "record", "union"}
	for i := 0; i < n; i++ {
		ns := nss[rng.Intn(len(nss))]
		tn := hardNames[rng.Intn(len(hardNames))]
		if usedName[ns+"."+tn] {
			tn = fmt.Sprintf("%s%d", tn, i)
		}
		usedName[ns+"."+tn] = true
		kind := "record"
		if i < len(kinds) {
			kind = kinds[i]
		} else {
			kind = []string{"record", "record", "record", "union", "enum", "fixed", "typeref"}[rng.Intn(7)]
		}
		plan = append(plan, planned{ns + "." + tn, ns, tn, kind})
	}
	var records, leaves, unions []string
	kindOf := map[string]string{}
	for _, p := range plan {
		kindOf[p.full] = p.kind
		switch p.kind {
		case "record":
			records = append(records, p.full)
		case "union":
			unions = append(unions, p.full)
		default:
			leaves = append(leaves, p.full)
		}
	}
	refs := append(append(append([]string{}, leaves...), records...), unions...)
	var anyType func(depth int, allowRecordValue bool) TypeExpr
	anyType = func(depth int, allowRecordValue bool) TypeExpr {
		r := rng.Intn(10)
		switch {
		case r < 3 || depth >= 3:
			return P(prims[rng.Intn(len(prims))])
		case r < 6:
			ref := refs[rng.Intn(len(refs))]
			if !allowRecordValue {
				// a required by-value reference to a record could make a type of infinite size: only leaves here
				ref = leaves[rng.Intn(len(leaves))]
			}
			return R(ref)
		case r < 8:
			return A(anyType(depth+1, true))
		default:
			return M(anyType(depth+1, true))
		}
	}
	for i, p := range plan {
		switch p.kind {
		case "enum":
			k := 1 + rng.Intn(4)
			var syms []string
			for j := 0; j < k; j++ {
				syms = append(syms, fmt.Sprintf("S%d_%d", i, j))
			}
			s.Add(&TypeDef{Kind: "enum", Name: p.name, Namespace: p.ns, Symbols: syms})
		case "fixed":
			s.Add(&TypeDef{Kind: "fixed", Name: p.name, Namespace: p.ns, Size: 1 + rng.Intn(6)})
		case "typeref":
			s.Add(&TypeDef{Kind: "typeref", Name: p.name, Namespace: p.ns, Prim: prims[rng.Intn(len(prims))]})
		case "union":
			t := &TypeDef{Kind: "union", Name: p.name, Namespace: p.ns, HasNull: rng.Intn(3) == 0}
			seen := map[string]bool{}
			for j := 0; j < 1+rng.Intn(4); j++ {
				mt := anyType(2, true)
				if mt.Ref != "" && kindOf[mt.Ref] == "union" {
					mt = P("string") // unions of unions are not legal members
				}
				alias := memberAlias(mt, j)
				if seen[MemberGoName(alias)] {
					continue
				}
				seen[MemberGoName(alias)] = true
				t.Members = append(t.Members, Member{alias, mt})
			}
			s.Add(t)
		case "record":
			t := &TypeDef{Kind: "record", Name: p.name, Namespace: p.ns}
			used := map[string]bool{}
			nf := rng.Intn(7)
			for j := 0; j < nf; j++ {
				fname := fmt.Sprintf("f%d", j)
				used[GoFieldName(fname)] = true
				f := Field{Name: fname}
				switch rng.Intn(4) {
				case 0:
					f.Optional = true
					f.Type = anyType(0, true)
				default:
					f.Type = anyType(0, false)
				}
				t.Fields = append(t.Fields, f)
			}
			s.Add(t)
		}
	}
	// includes: only of records that are defined earlier in the plan and that do not (transitively) include us
	for i, p := range plan {
		if p.kind != "record" || rng.Intn(3) != 0 {
			continue
		}
		var earlier []string
		for _, q := range plan[:i] {
			if q.kind == "record" {
				earlier = append(earlier, q.full)
			}
		}
		if len(earlier) == 0 {
			continue
		}
		inc := earlier[rng.Intn(len(earlier))]
		t := s.Lookup(p.full)
		clash := false
		names := map[string]bool{}
		for _, f := range t.Fields {
			names[f.Name] = true
		}
		for _, f := range s.AllFields(s.Lookup(inc)) {
			if names[f.Name] {
				clash = true
			}
		}
		if !clash && GoFieldName(splitName(inc)) != "" {
			// rename our fields so that the two field sets are disjoint
			for j := range t.Fields {
				t.Fields[j].Name = fmt.Sprintf("g%d_%d", i, j)
			}
			t.Includes = append(t.Includes, inc)
		}
	}
	// defaults (after all types exist)
	for _, t := range s.Types {
		if t.Kind != "record" {
			continue
		}
		for j := range t.Fields {
			f := &t.Fields[j]
			if !f.Optional && rng.Intn(4) == 0 {
				if lit, ok := simpleDefault(rng, s, f.Type, 0); ok {
					f.Default = &lit
				}
			}
		}
	}
	// complex key + resources
	if len(records) >= 2 {
		s.Add(&TypeDef{Kind: "complexkey", Name: "CKey", Namespace: nss[0], Key: records[0], Params: records[1]})
	}
	addRandomResources(rng, s, name, records, leaves)
	annotate(s)
	return s
}

// annotate marks fields of resource entities read-only / create-only in every combination (none, create-only alone,
// read-only alone, both), chosen by the resource's position so that no PRNG draw is spent on it.
func annotate(s *Schema) {
	for i, r := range s.Resources {
		if r.Schema == nil || r.Schema.Ref == "" {
			continue
		}
		td := s.Lookup(r.Schema.Ref)
		if td == nil || td.Kind != "record" || len(td.Fields) == 0 {
			continue
		}
		first, last := td.Fields[0].Name, td.Fields[len(td.Fields)-1].Name
		switch i % 4 {
		case 1:
			r.CreateOnly = []string{first}
		case 2:
			r.ReadOnly = []string{first}
		case 3:
			r.ReadOnly = []string{first}
			if last != first {
				r.CreateOnly = []string{last}
			}
		}
	}
}

func addRandomResources(rng *rand.Rand, s *Schema, name string, records, leaves []string) {
	if len(records) == 0 {
		return
	}
	str, i32, i64 := P("string"), P("int32"), P("int64")
	keyTypes := []TypeExpr{str, i64, i32}
	for _, l := range leaves {
		td := s.Lookup(l)
		if td.Kind == "enum" || (td.Kind == "typeref" && (td.Prim == "string" || td.Prim == "int64" || td.Prim == "int32")) {
			keyTypes = append(keyTypes, R(l))
		}
	}
	if ck := s.Lookup(name + ".alpha.CKey"); ck != nil {
		keyTypes = append(keyTypes, R(ck.FullName()))
	}
	restNames := []string{"get", "create", "update", "partial_update", "delete", "batch_get", "batch_create", "batch_update", "batch_partial_update", "batch_delete", "get_all"}
	entityLevel := map[string]bool{"get": true, "update": true, "partial_update": true, "delete": true}
	paramType := func() TypeExpr {
		switch rng.Intn(5) {
		case 0:
			return A(P("string"))
		case 1:
			return R(records[rng.Intn(len(records))])
		case 2:
			if len(leaves) > 0 {
				return R(leaves[rng.Intn(len(leaves))])
			}
		case 3:
			return M(P("int64"))
		}
		return P([]string{"int32", "int64", "float32", "float64", "bool", "string", "bytes"}[rng.Intn(7)])
	}
	params := func() []Param {
		var out []Param
		for j := 0; j < rng.Intn(4); j++ {
			p := Param{Name: fmt.Sprintf("p%d", j), Type: paramType()}
			if rng.Intn(3) == 0 {
				p.Optional = true
			}
			out = append(out, p)
		}
		return out
	}
	nres := 1 + rng.Intn(3)
	for i := 0; i < nres; i++ {
		schema := R(records[rng.Intn(len(records))])
		rn := fmt.Sprintf("res%d", i)
		ns := name + "." + []string{"api", "beta", "ext.sub"}[rng.Intn(3)]
		switch rng.Intn(4) {
		case 0: // action set
			var ms []MethodSpec
			for j := 0; j <= rng.Intn(3); j++ {
				m := MethodSpec{Kind: "ACTION", Name: fmt.Sprintf("act%d", j), Params: params()}
				if rng.Intn(2) == 0 {
					t := paramType()
					m.Return = &t
				}
				ms = append(ms, m)
			}
			s.Resources = append(s.Resources, &Resource{Namespace: ns + "." + rn, Segments: []PathSeg{{Name: rn}}, Methods: ms})
		case 1: // simple
			var ms []MethodSpec
			for _, mn := range []string{"get", "update", "partial_update", "delete"} {
				if rng.Intn(2) == 0 {
					ms = append(ms, MethodSpec{Kind: "REST_METHOD", Name: mn})
				}
			}
			if len(ms) == 0 {
				ms = append(ms, MethodSpec{Kind: "REST_METHOD", Name: "get"})
			}
			if rng.Intn(2) == 0 {
				ms = append(ms, MethodSpec{Kind: "ACTION", Name: "poke", Params: params()})
			}
			s.Resources = append(s.Resources, &Resource{Namespace: ns + "." + rn, Segments: []PathSeg{{Name: rn}}, Schema: &schema, Methods: ms})
		default: // collection, sometimes with a sub-resource
			kt := keyTypes[rng.Intn(len(keyTypes))]
			var ms []MethodSpec
			for _, mn := range restNames {
				if rng.Intn(2) == 0 {
					m := MethodSpec{Kind: "REST_METHOD", Name: mn, OnEntity: entityLevel[mn]}
					if mn == "get_all" {
						m.Paging = rng.Intn(2) == 0
					}
					if (mn == "create" || mn == "batch_create" || mn == "partial_update") && rng.Intn(4) == 0 {
						m.ReturnEntity = true
					}
					ms = append(ms, m)
				}
			}
			if len(ms) == 0 {
				ms = append(ms, MethodSpec{Kind: "REST_METHOD", Name: "get", OnEntity: true})
			}
			for j := 0; j < rng.Intn(3); j++ {
				f := MethodSpec{Kind: "FINDER", Name: fmt.Sprintf("find%d", j), Params: params(), Paging: rng.Intn(2) == 0}
				if rng.Intn(3) == 0 {
					md := R(records[rng.Intn(len(records))])
					f.Metadata = &md
				}
				ms = append(ms, f)
			}
			for j := 0; j < rng.Intn(3); j++ {
				m := MethodSpec{Kind: "ACTION", Name: fmt.Sprintf("do%d", j), OnEntity: rng.Intn(2) == 0, Params: params()}
				if rng.Intn(2) == 0 {
					t := paramType()
					m.Return = &t
				}
				ms = append(ms, m)
			}
			segs := []PathSeg{{Name: rn, KeyName: rn + "Id", Key: &kt}}
			s.Resources = append(s.Resources, &Resource{Namespace: ns + "." + rn, Segments: segs, Schema: &schema, Methods: ms})
			if rng.Intn(3) == 0 {
				sk := keyTypes[rng.Intn(3)]
				sub := R(records[rng.Intn(len(records))])
				s.Resources = append(s.Resources, &Resource{Namespace: ns + "." + rn + ".sub", Segments: append(append([]PathSeg{}, segs...), PathSeg{Name: "sub", KeyName: "subId", Key: &sk}), Schema: &sub,
					Methods: []MethodSpec{{Kind: "REST_METHOD", Name: "get", OnEntity: true}, {Kind: "REST_METHOD", Name: "batch_get"}, {Kind: "ACTION", Name: "ping"}}})
			}
		}
	}
}

// ---------------------------------------------------------------------------------------------
// systematic probes: one type constructor in every position

type Constructor struct {
	Name    string
	Type    TypeExpr
	Default string // a JSON default literal for the type
	KeyOK   bool   // may be used as a collection key / complex key part
}

func probeBase(name, root string) (*Schema, []Constructor) {
	ns := name + ".m"
	s := &Schema{Name: name, PackageRoot: root}
	q := func(n string) string { return ns + "." + n }
	s.Add(&TypeDef{Kind: "enum", Name: "En", Namespace: ns, Symbols: []string{"A", "B"}})
	s.Add(&TypeDef{Kind: "fixed", Name: "Fx", Namespace: ns, Size: 3})
	s.Add(&TypeDef{Kind: "typeref", Name: "TrS", Namespace: ns, Prim: "string"})
	s.Add(&TypeDef{Kind: "typeref", Name: "TrL", Namespace: ns, Prim: "int64"})
	s.Add(&TypeDef{Kind: "typeref", Name: "TrB", Namespace: ns, Prim: "bytes"})
	s.Add(&TypeDef{Kind: "record", Name: "Rc", Namespace: ns, Fields: []Field{F("s", P("string")), Opt("n", P("int32"))}})
	s.Add(&TypeDef{Kind: "record", Name: "Em", Namespace: ns})
	s.Add(&TypeDef{Kind: "union", Name: "Un", Namespace: ns, Members: []Member{{"int", P("int32")}, {q("Rc"), R(q("Rc"))}, {"arr", A(P("string"))}}})
	s.Add(&TypeDef{Kind: "union", Name: "UnNull", Namespace: ns, HasNull: true, Members: []Member{{"string", P("string")}}})
	cs := []Constructor{
		{"int", P("int32"), "7", true}, {"long", P("int64"), "8", true}, {"float", P("float32"), "0.5", false}, {"double", P("float64"), "2.5", false}, {"boolean", P("bool"), "true", false},
		{"string", P("string"), `"x"`, true}, {"bytes", P("bytes"), `"ab"`, false},
		{"enum", R(q("En")), `"B"`, true}, {"fixed", R(q("Fx")), `"abc"`, false}, {"typeref-string", R(q("TrS")), `"t"`, true}, {"typeref-long", R(q("TrL")), "5", true}, {"typeref-bytes", R(q("TrB")), `"b"`, false},
		{"record", R(q("Rc")), `{"s":"d"}`, false}, {"empty-record", R(q("Em")), `{}`, false}, {"union", R(q("Un")), `{"int":1}`, false}, {"nullable-union", R(q("UnNull")), `{"string":"u"}`, false},
		{"array-string", A(P("string")), `["a"]`, false}, {"array-record", A(R(q("Rc"))), `[]`, false}, {"array-array-int", A(A(P("int32"))), `[[1]]`, false}, {"array-union", A(R(q("Un"))), `[]`, false},
		{"array-fixed", A(R(q("Fx"))), `["abc"]`, false}, {"array-enum", A(R(q("En"))), `["A"]`, false}, {"array-bytes", A(P("bytes")), `[]`, false},
		{"map-long", M(P("int64")), `{"k":1}`, false}, {"map-record", M(R(q("Rc"))), `{}`, false}, {"map-array-string", M(A(P("string"))), `{"k":[]}`, false}, {"map-enum", M(R(q("En"))), `{}`, false},
		{"map-typeref", M(R(q("TrS"))), `{}`, false}, {"map-map-bool", M(M(P("bool"))), `{}`, false}, {"array-map-union", A(M(R(q("Un")))), `[]`, false}, {"map-typeref-bytes", M(R(q("TrB"))), `{}`, false},
	}
	return s, cs
}

var ProbePositions = []string{"required-field", "optional-field", "default-field", "included-field", "union-member", "array-item-of-field", "map-value-of-field",
	"action-param", "optional-action-param", "action-return", "finder-param", "entity-field", "collection-key", "sub-resource-key", "complex-key-part", "complex-key-param", "finder-metadata-field", "simple-resource-field"}

// Probe builds the schema set that puts constructor number ci into the named positions (all when positions is empty).
func Probe(name, root string, ci int, positions []string) (*Schema, Constructor, []string) {
	s, cs := probeBase(name, root)
	c := cs[ci%len(cs)]
	ns := name + ".m"
	q := func(n string) string { return ns + "." + n }
	if len(positions) == 0 {
		positions = ProbePositions
	}
	str := P("string")
	var used []string
	for _, pos := range positions {
		ok := true
		switch pos {
		case "required-field":
			s.Add(&TypeDef{Kind: "record", Name: "PReq", Namespace: ns, Fields: []Field{F("v", c.Type), F("z", str)}})
		case "optional-field":
			s.Add(&TypeDef{Kind: "record", Name: "POpt", Namespace: ns, Fields: []Field{Opt("v", c.Type)}})
		case "default-field":
			d := c.Default
			s.Add(&TypeDef{Kind: "record", Name: "PDef", Namespace: ns, Fields: []Field{{Name: "v", Type: c.Type, Default: &d}}})
		case "included-field":
			s.Add(&TypeDef{Kind: "record", Name: "PIncBase", Namespace: ns, Fields: []Field{F("v", c.Type), Opt("w", c.Type)}})
			s.Add(&TypeDef{Kind: "record", Name: "PInc", Namespace: ns, Includes: []string{q("PIncBase")}, Fields: []Field{F("own", str)}})
		case "union-member":
			if c.Type.Ref != "" && s.Lookup(c.Type.Ref).Kind == "union" {
				ok = false
				break
			}
			other := Member{"boolean", P("bool")}
			if c.Type.Prim == "bool" {
				other = Member{"long", P("int64")}
			}
			s.Add(&TypeDef{Kind: "union", Name: "PUn", Namespace: ns, Members: []Member{{memberAlias(c.Type, 0), c.Type}, other}})
			s.Add(&TypeDef{Kind: "record", Name: "PUnHolder", Namespace: ns, Fields: []Field{F("u", R(q("PUn"))), Opt("ou", R(q("PUn")))}})
		case "array-item-of-field":
			s.Add(&TypeDef{Kind: "record", Name: "PArr", Namespace: ns, Fields: []Field{F("v", A(c.Type)), Opt("o", A(c.Type))}})
		case "map-value-of-field":
			s.Add(&TypeDef{Kind: "record", Name: "PMap", Namespace: ns, Fields: []Field{F("v", M(c.Type)), Opt("o", M(c.Type))}})
		case "action-param", "optional-action-param", "action-return", "finder-param":
			// added to the resource below
		case "entity-field":
			s.Add(&TypeDef{Kind: "record", Name: "PEntity", Namespace: ns, Fields: []Field{F("id", P("int64")), F("v", c.Type), Opt("o", c.Type)}})
		case "collection-key", "sub-resource-key":
			ok = c.KeyOK
		case "complex-key-part", "complex-key-param":
			if pos == "complex-key-part" && !c.KeyOK {
				ok = false
				break
			}
			if s.Lookup(q("PCK")) == nil {
				kp := []Field{F("a", str)}
				pp := []Field{F("p", str)}
				s.Add(&TypeDef{Kind: "record", Name: "PKeyPart", Namespace: ns, Fields: kp})
				s.Add(&TypeDef{Kind: "record", Name: "PParamPart", Namespace: ns, Fields: pp})
				s.Add(&TypeDef{Kind: "complexkey", Name: "PCK", Namespace: ns, Key: q("PKeyPart"), Params: q("PParamPart")})
			}
			if pos == "complex-key-part" {
				t := s.Lookup(q("PKeyPart"))
				t.Fields = append(t.Fields, F("v", c.Type))
			} else {
				t := s.Lookup(q("PParamPart"))
				t.Fields = append(t.Fields, Opt("v", c.Type))
			}
		case "finder-metadata-field":
			s.Add(&TypeDef{Kind: "record", Name: "PMeta", Namespace: ns, Fields: []Field{F("v", c.Type)}})
		case "simple-resource-field":
			s.Add(&TypeDef{Kind: "record", Name: "PSimple", Namespace: ns, Fields: []Field{F("v", c.Type)}})
		default:
			ok = false
		}
		if ok {
			used = append(used, pos)
		}
	}
	has := func(p string) bool {
		for _, u := range used {
			if u == p {
				return true
			}
		}
		return false
	}
	// resources
	entity := R(q("Rc"))
	if has("entity-field") {
		entity = R(q("PEntity"))
	}
	var ms []MethodSpec
	for _, mn := range []string{"get", "create", "update", "partial_update", "delete", "batch_get", "batch_create", "batch_update", "batch_partial_update", "batch_delete", "get_all"} {
		ms = append(ms, MethodSpec{Kind: "REST_METHOD", Name: mn, OnEntity: mn == "get" || mn == "update" || mn == "partial_update" || mn == "delete"})
	}
	if has("action-param") || has("optional-action-param") {
		var ps []Param
		if has("action-param") {
			ps = append(ps, F("v", c.Type))
		}
		if has("optional-action-param") {
			ps = append(ps, Opt("o", c.Type))
		}
		ms = append(ms, MethodSpec{Kind: "ACTION", Name: "take", Params: ps})
		ms = append(ms, MethodSpec{Kind: "ACTION", Name: "takeOnEntity", OnEntity: true, Params: ps})
	}
	if has("action-return") {
		t := c.Type
		ms = append(ms, MethodSpec{Kind: "ACTION", Name: "give", Return: &t})
	}
	if has("finder-param") {
		f := MethodSpec{Kind: "FINDER", Name: "by", Params: []Param{F("v", c.Type), Opt("o", c.Type)}, Paging: true}
		ms = append(ms, f)
	}
	if has("finder-metadata-field") {
		md := R(q("PMeta"))
		ms = append(ms, MethodSpec{Kind: "FINDER", Name: "withMeta", Metadata: &md})
	}
	i64 := P("int64")
	key := i64
	if has("collection-key") {
		key = c.Type
	}
	if has("complex-key-part") || has("complex-key-param") {
		ck := R(q("PCK"))
		s.Resources = append(s.Resources, &Resource{Namespace: name + ".cks", Segments: []PathSeg{{Name: "cks", KeyName: "ckId", Key: &ck}}, Schema: &entity,
			Methods: []MethodSpec{{Kind: "REST_METHOD", Name: "get", OnEntity: true}, {Kind: "REST_METHOD", Name: "batch_get"}, {Kind: "REST_METHOD", Name: "batch_update"}, {Kind: "REST_METHOD", Name: "create"}}})
	}
	segs := []PathSeg{{Name: "coll", KeyName: "collId", Key: &key}}
	s.Resources = append(s.Resources, &Resource{Namespace: name + ".coll", Segments: segs, Schema: &entity, Methods: ms})
	if has("sub-resource-key") {
		sk := c.Type
		s.Resources = append(s.Resources, &Resource{Namespace: name + ".coll.sub", Segments: append(append([]PathSeg{}, segs...), PathSeg{Name: "sub", KeyName: "subId", Key: &sk}), Schema: &entity,
			Methods: []MethodSpec{{Kind: "REST_METHOD", Name: "get", OnEntity: true}, {Kind: "REST_METHOD", Name: "batch_delete"}, {Kind: "REST_METHOD", Name: "create"}}})
	}
	if has("simple-resource-field") {
		sr := R(q("PSimple"))
		s.Resources = append(s.Resources, &Resource{Namespace: name + ".simple", Segments: []PathSeg{{Name: "simple"}}, Schema: &sr,
			Methods: []MethodSpec{{Kind: "REST_METHOD", Name: "get"}, {Kind: "REST_METHOD", Name: "update"}, {Kind: "REST_METHOD", Name: "partial_update"}, {Kind: "REST_METHOD", Name: "delete"}}})
	}
	return s, c, used
}

func NumConstructors() int {
	_, cs := probeBase("x", "x")
	return len(cs)
}

// ---------------------------------------------------------------------------------------------
// identifier probes: legal schema names that are awkward in Go

type IdentProbe struct {
	Name string
	Kind string // field | type | namespace | enum-symbol | resource | param | union-alias
	Text string
}

var IdentProbes = func() []IdentProbe {
	var out []IdentProbe
	add := func(kind string, texts ...string) {
		for _, t := range texts {
			out = append(out, IdentProbe{kind + ":" + t, kind, t})
		}
	}
	add("field", "type", "func", "range", "map", "default", "string", "error", "nil", "len", "new", "equals", "computeHash", "newInstance", "marshalRestLi", "unmarshalRestLi", "marshalFields", "string_", "x_y", "_x", "x1", "URL", "id", "iD", "init", "main", "t", "r", "reader", "writer", "err", "fnv1a", "restlicodec")
	add("type", "String", "Error", "T", "R", "Type", "Func", "Client", "Resource", "Reader", "Writer", "Equals", "lower", "Foo_PartialUpdate", "ResourcePath", "Int32", "Map", "Record_", "X1")
	add("namespace", "go", "type", "func", "internal", "vendor", "testdata", "main", "t", "r", "x_test", "com.Upper", "a.b.c.d.e.f", "restli", "restlicodec", "fmt", "strings", "init")
	add("enum-symbol", "type", "nil", "lower", "Mixed_Case", "A1", "_X", "String", "IsValid")
	add("resource", "type", "go", "internal", "client", "T", "my-resource", "r")
	add("param", "type", "ctx", "c", "rp", "err", "params", "keys", "entity", "range", "query")
	add("union-alias", "type", "nil", "a.b.Dotted", "String")
	add("key", "bytes", "float32", "float64", "bool", "fixed", "typeref-bytes", "typeref-double")
	return out
}()

// IdentSchema builds a small schema set around one awkward identifier.
func IdentSchema(name, root string, p IdentProbe) *Schema {
	s := &Schema{Name: name, PackageRoot: root}
	ns := name + ".m"
	str := P("string")
	rec := &TypeDef{Kind: "record", Name: "Rec", Namespace: ns, Fields: []Field{F("a", str), Opt("b", P("int32"))}}
	resName, resNS := "things", name+".things"
	var params []Param
	keyType := str
	switch p.Kind {
	case "field":
		rec.Fields = append(rec.Fields, F(p.Text, str), Opt(p.Text+"Opt", P("int64")))
	case "type":
		s.Add(&TypeDef{Kind: "record", Name: p.Text, Namespace: ns, Fields: []Field{F("v", str)}})
		rec.Fields = append(rec.Fields, F("held", R(ns+"."+p.Text)), Opt("list", A(R(ns+"."+p.Text))))
	case "namespace":
		ns2 := name + "." + p.Text
		s.Add(&TypeDef{Kind: "record", Name: "Far", Namespace: ns2, Fields: []Field{F("v", str)}})
		s.Add(&TypeDef{Kind: "enum", Name: "FarEnum", Namespace: ns2, Symbols: []string{"X"}})
		rec.Fields = append(rec.Fields, F("far", R(ns2+".Far")), Opt("farEnum", R(ns2+".FarEnum")))
		resNS = ns2 + ".things"
	case "enum-symbol":
		s.Add(&TypeDef{Kind: "enum", Name: "Sym", Namespace: ns, Symbols: []string{"OK", p.Text}})
		rec.Fields = append(rec.Fields, F("sym", R(ns+".Sym")))
	case "resource":
		resName = p.Text
		resNS = name + "." + strings.ReplaceAll(p.Text, "-", "_")
	case "param":
		params = []Param{F(p.Text, str), Opt(p.Text+"2", P("int32"))}
	case "key":
		switch p.Text {
		case "fixed":
			s.Add(&TypeDef{Kind: "fixed", Name: "KFixed", Namespace: ns, Size: 2})
			keyType = R(ns + ".KFixed")
		case "typeref-bytes":
			s.Add(&TypeDef{Kind: "typeref", Name: "KBytes", Namespace: ns, Prim: "bytes"})
			keyType = R(ns + ".KBytes")
		case "typeref-double":
			s.Add(&TypeDef{Kind: "typeref", Name: "KDouble", Namespace: ns, Prim: "float64"})
			keyType = R(ns + ".KDouble")
		default:
			keyType = P(p.Text)
		}
	case "union-alias":
		s.Add(&TypeDef{Kind: "union", Name: "AliasUn", Namespace: ns, Members: []Member{{p.Text, str}, {"int", P("int32")}}})
		rec.Fields = append(rec.Fields, F("un", R(ns+".AliasUn")))
	}
	s.Add(rec)
	entity := R(ns + ".Rec")
	ms := []MethodSpec{{Kind: "REST_METHOD", Name: "get", OnEntity: true}, {Kind: "REST_METHOD", Name: "create"}, {Kind: "REST_METHOD", Name: "partial_update", OnEntity: true}, {Kind: "REST_METHOD", Name: "batch_get"},
		{Kind: "REST_METHOD", Name: "batch_update"}, {Kind: "REST_METHOD", Name: "batch_delete"},
		{Kind: "FINDER", Name: "find", Params: params, Paging: true}, {Kind: "ACTION", Name: "act", Params: params, Return: &str}}
	s.Resources = append(s.Resources, &Resource{Namespace: resNS, Segments: []PathSeg{{Name: resName, KeyName: "key", Key: &keyType}}, Schema: &entity, Methods: ms})
	return s
}

// ClashProbe builds a set in which records with the same simple name live in namespaces that share their last segments
// and refer to each other in a cycle, so that the generator has to move them to one package and rename them apart.
// variant 0: a.x.Foo <-> b.x.Foo; 1: x.Foo <-> a.x.Foo; 2: a.x.Foo -> b.x.Foo -> c.x.Foo -> a.x.Foo; 3: two clashing pairs
// (Foo and Bar) over the same namespaces plus an innocent bystander with the same name.
func ClashProbe(name, root string, variant int) *Schema {
	s := &Schema{Name: name, PackageRoot: root}
	str := P("string")
	rec := func(ns, n string, peers ...string) {
		fs := []Field{F("v", str)}
		for i, p := range peers {
			fs = append(fs, Opt(fmt.Sprintf("peer%d", i), R(p)))
		}
		s.Add(&TypeDef{Kind: "record", Name: n, Namespace: ns, Fields: fs})
	}
	a, b, c, x := name+".a.x", name+".b.x", name+".c.x", name+".x"
	switch variant % 4 {
	case 0:
		rec(a, "Foo", b+".Foo")
		rec(b, "Foo", a+".Foo")
	case 1:
		rec(x, "Foo", a+".Foo")
		rec(a, "Foo", x+".Foo")
	case 2:
		rec(a, "Foo", b+".Foo")
		rec(b, "Foo", c+".Foo")
		rec(c, "Foo", a+".Foo")
	case 3:
		rec(a, "Foo", b+".Foo", b+".Bar")
		rec(b, "Foo", a+".Foo")
		rec(a, "Bar", b+".Bar")
		rec(b, "Bar", a+".Bar", a+".Foo")
		rec(c, "Foo")
	}
	holder := &TypeDef{Kind: "record", Name: "Holder", Namespace: name + ".h"}
	for i, t := range s.Types {
		holder.Fields = append(holder.Fields, Opt(fmt.Sprintf("f%d", i), R(t.FullName())))
	}
	s.Add(holder)
	return s
}
