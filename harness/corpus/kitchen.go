package corpus

import "fmt"

// KitchenSink is the hand-written schema set that puts every constructor in every position the
// properties name.  Package root is filled in by the caller.
func KitchenSink(packageRoot string) *Schema {
	const ns = "ks.kt"
	q := func(n string) string { return ns + "." + n }
	s := &Schema{Name: "ks", PackageRoot: packageRoot}
	rec := func(name string, includes []string, fields ...Field) *TypeDef {
		var inc []string
		for _, i := range includes {
			inc = append(inc, q(i))
		}
		return s.Add(&TypeDef{Kind: "record", Name: name, Namespace: ns, Includes: inc, Fields: fields})
	}
	s.Add(&TypeDef{Kind: "enum", Name: "Color", Namespace: ns, Symbols: []string{"RED", "GREEN", "BLUE"}})
	s.Add(&TypeDef{Kind: "enum", Name: "Single", Namespace: ns, Symbols: []string{"ONLY"}})
	s.Add(&TypeDef{Kind: "fixed", Name: "F4", Namespace: ns, Size: 4})
	s.Add(&TypeDef{Kind: "fixed", Name: "F1", Namespace: ns, Size: 1})
	for _, p := range []string{"int32", "int64", "float32", "float64", "bool", "string", "bytes"} {
		s.Add(&TypeDef{Kind: "typeref", Name: "T" + GoFieldName(p), Namespace: ns, Prim: p})
	}
	rec("Empty", nil)
	rec("Prims", nil, F("i32", P("int32")), F("i64", P("int64")), F("f32", P("float32")), F("f64", P("float64")), F("b", P("bool")), F("s", P("string")), F("by", P("bytes")))
	rec("OptPrims", nil, Opt("i32", P("int32")), Opt("i64", P("int64")), Opt("f32", P("float32")), Opt("f64", P("float64")), Opt("b", P("bool")), Opt("s", P("string")), Opt("by", P("bytes")))
	rec("DefPrims", nil,
		Def("i32", P("int32"), "-2147483648"), Def("i64", P("int64"), "9223372036854775807"), Def("f32", P("float32"), "1.5"), Def("f64", P("float64"), "1e21"),
		Def("b", P("bool"), "true"), Def("s", P("string"), `"a\"b\\c\né"`), Def("by", P("bytes"), `"\u0001\u007fÿ"`), Def("es", P("string"), `""`))
	rec("Leaf", nil, F("s", P("string")), Def("n", P("int32"), "7"))
	// nothing required at the top, required fields only below: who raises the missing-fields error?
	// more required fields than fit a machine word (bookkeeping by bit mask), with optional ones in between
	{
		var fs []Field
		for i := 0; i < 70; i++ {
			switch {
			case i%23 == 11:
				fs = append(fs, Opt(fmt.Sprintf("o%02d", i), P("string")))
			case i%2 == 0:
				fs = append(fs, F(fmt.Sprintf("w%02d", i), P("int32")))
			default:
				fs = append(fs, F(fmt.Sprintf("w%02d", i), P("string")))
			}
		}
		fs = append(fs, F("wlast", R(q("Leaf"))))
		rec("Wide", nil, fs...)
	}
	rec("AllOpt", nil, Opt("leaf", R(q("Leaf"))), Opt("leaves", A(R(q("Leaf")))), Opt("byName", M(R(q("Leaf")))), Opt("note", P("string")))
	s.Add(&TypeDef{Kind: "union", Name: "U", Namespace: ns, Members: []Member{
		{"int", P("int32")}, {"long", P("int64")}, {"float", P("float32")}, {"double", P("float64")}, {"boolean", P("bool")}, {"string", P("string")}, {"bytes", P("bytes")},
		{q("Leaf"), R(q("Leaf"))}, {q("Color"), R(q("Color"))}, {q("F4"), R(q("F4"))}, {"arr", A(P("string"))}, {"map", M(P("int32"))}, {q("TString"), R(q("TString"))},
	}})
	s.Add(&TypeDef{Kind: "union", Name: "NU", Namespace: ns, HasNull: true, Members: []Member{{"int", P("int32")}, {q("Leaf"), R(q("Leaf"))}}})
	rec("Base", nil, F("bs", P("string")), Def("bd", P("string"), `"x"`), Opt("bo", P("int64")))
	rec("Mid", []string{"Base"}, F("ms", P("int32")), Def("md", M(P("int32")), `{"a":1}`))
	rec("Top", []string{"Mid"}, F("ts", P("string")), Opt("to", R(q("Leaf"))))
	rec("IncOnlyDefaults", []string{"Base"}, F("own", P("int32"))) // declares no default itself, inherits one
	rec("IncEmpty", []string{"Empty"}, F("x", P("int32")))
	// include chains through a record that declares nothing itself
	rec("MidBare", []string{"Base"})
	rec("OverMidBare", []string{"MidBare"}, F("own2", P("int32")))
	rec("OnlyOverMidBare", []string{"MidBare"})
	// a default-less record holding a required record that has defaults, reached through includes
	rec("HoldsLeaf", nil, F("held", R(q("Leaf"))))
	rec("OverHoldsLeaf", []string{"HoldsLeaf"}, Def("port", P("int32"), "443"))
	rec("MidHolds", []string{"HoldsLeaf"})
	rec("OverMidHolds", []string{"MidHolds"}, Def("port", P("int32"), "8443"))
	rec("TwoIncludes", []string{"Leaf", "Base"}, Opt("z", P("bool")))
	rec("Refs", nil,
		F("col", R(q("Color"))), F("fx", R(q("F4"))), F("tr", R(q("TString"))), F("trb", R(q("TBytes"))), F("tri", R(q("TInt64"))), F("trf", R(q("TFloat32"))),
		F("u", R(q("U"))), F("nu", R(q("NU"))), F("leaf", R(q("Leaf"))),
		Opt("ocol", R(q("Color"))), Opt("ofx", R(q("F4"))), Opt("otr", R(q("TInt64"))), Opt("ou", R(q("U"))), Opt("onu", R(q("NU"))), Opt("oleaf", R(q("Leaf"))))
	rec("Containers", nil,
		F("as", A(P("string"))), F("ai", A(P("int64"))), F("af", A(P("float64"))), F("ab", A(P("bytes"))), F("al", A(R(q("Leaf")))), F("au", A(R(q("U")))), F("ac", A(R(q("Color")))), F("afx", A(R(q("F4")))), F("atr", A(R(q("TString")))),
		F("ms", M(P("string"))), F("mby", M(P("bytes"))), F("ml", M(R(q("Leaf")))), F("mu", M(R(q("U")))), F("mc", M(R(q("Color")))),
		F("maa", M(A(A(P("int32"))))), F("amm", A(M(M(P("string"))))), F("mal", M(A(R(q("Leaf"))))), F("amu", A(M(R(q("U"))))),
		Opt("oas", A(P("string"))), Opt("oml", M(R(q("Leaf")))), Opt("oaa", A(A(P("float32")))))
	rec("Defaults", nil,
		Def("dcol", R(q("Color")), `"GREEN"`), Def("dfx", R(q("F4")), `"abÿd"`), Def("dtr", R(q("TString")), `"t"`), Def("dti", R(q("TInt64")), `-5`),
		Def("dleaf", R(q("Leaf")), `{"s":"x"}`), Def("du", R(q("U")), `{"int":5}`), Def("dul", R(q("U")), `{"ks.kt.Leaf":{"s":"in union"}}`),
		Def("dal", A(R(q("Leaf"))), `[{"s":"a"},{"s":"b","n":1}]`), Def("dea", A(P("int32")), `[]`), Def("dem", M(P("string")), `{}`), Def("dm", M(A(P("int32"))), `{"k":[1,2],"":[]}`),
		Def("das", A(P("string")), `["","a,b","(c)"]`), Def("df", P("float64"), `-0.0000001`), Def("dbl", P("bool"), `false`), F("req", P("string")),
		Def("dbz", P("bytes"), `"ab\u0000"`), Def("dbzz", P("bytes"), `"\u0000\u0000"`), Def("dtbz", R(q("TBytes")), `"k\u0000\u0000"`), Def("dfz", R(q("F4")), `"a\u0000\u0000\u0000"`),
		OptDef("ods", P("string"), `"optional with default"`), OptDef("odl", A(P("int32")), `[3,1,2]`), OptDef("odr", R(q("Leaf")), `{"s":"od"}`))
	rec("NestedDefaults", nil, F("d", R(q("Defaults"))), Opt("od", R(q("Defaults"))), F("ad", A(R(q("Defaults")))), F("leaf", R(q("Leaf"))))
	rec("Keywords", nil, F("type", P("string")), Opt("func", P("int32")), F("_under", P("bool")), F("a$b", P("string")), F("Go", P("int32")), F("x_1", P("string")), Opt("map", M(P("string"))), Opt("range", A(P("int32"))))
	rec("Recursive", nil, F("v", P("int32")), Opt("next", R(q("Recursive"))), F("kids", A(R(q("Recursive")))), Opt("byName", M(R(q("Recursive")))))
	rec("KeyPart", nil, F("a", P("string")), F("b", P("int64")))
	rec("ParamPart", nil, F("p", P("string")), Opt("q", P("int32")))
	s.Add(&TypeDef{Kind: "complexkey", Name: "CK", Namespace: ns, Key: q("KeyPart"), Params: q("ParamPart")})
	// a complex key whose key record has defaults: a decoded key carries them like any decoded record
	rec("KeyPartD", nil, F("id", P("int64")), Def("region", P("string"), `"us"`), Def("tags", A(P("string")), `["a","b"]`), Def("tier", R(q("Color")), `"GREEN"`))
	s.Add(&TypeDef{Kind: "complexkey", Name: "CKD", Namespace: ns, Key: q("KeyPartD"), Params: q("ParamPart")})
	// record-typed defaults written as {} must still receive the nested record's own defaults
	rec("Settings", nil, Def("theme", P("string"), `"dark"`), Def("size", P("int32"), "3"), Opt("note", P("string")))
	rec("Job", nil, F("name", P("string")), Def("settings", R(q("Settings")), `{}`), Def("byEnv", M(R(q("Settings"))), `{"prod":{},"dev":{"size":1}}`), Def("history", A(R(q("Settings"))), `[{}]`))
	// a diamond-free include fan: two records include the same record, which itself includes another one
	rec("Audited", nil, F("created", P("int64")), F("modified", P("int64")))
	rec("Entity", []string{"Audited"}, F("urn", P("string")))
	rec("Person", []string{"Entity"}, F("name", P("string")), Opt("nick", P("string")))
	rec("Company", []string{"Entity"}, F("ticker", P("string")), Opt("employees", A(R(q("Person")))))
	rec("Deep", nil, F("refs", R(q("Refs"))), F("cont", R(q("Containers"))), Opt("top", R(q("Top"))), F("mm", M(R(q("Top")))), F("ua", A(R(q("U")))))
	return s
}

// AddKitchenResources adds the resource specifications of the kitchen sink (filled in by resources.go).
func AddKitchenResources(s *Schema) { addKitchenResources(s) }
