package corpus

import (
	"fmt"
	"math/rand"
	"strings"
)

// Random draws a schema set from the grammar: <= maxTypes named types over two namespaces (the second may
// refer to the first, never the other way round, so namespaces stay acyclic), records with <= 8 fields,
// nesting <= 3, includes, unions, enums, fixed, typerefs, defaults of simple shape.
func Random(rng *rand.Rand, name, packageRoot string, maxTypes int) *Schema {
	s := &Schema{Name: name, PackageRoot: packageRoot}
	nsA, nsB := name+".a", name+".b"
	n := 5 + rng.Intn(maxTypes-4)
	var records, leaves, unions []string // full names usable as references
	prims := []string{"int32", "int64", "float32", "float64", "bool", "string", "bytes"}
	// always start with one enum, one fixed, one typeref so that references exist
	kinds := []string{"enum", "fixed", "typeref", "record"}
	for i := 0; i < n; i++ {
		ns := nsA
		if i >= n/2 {
			ns = nsB
		}
		var kind string
		if i < len(kinds) {
			kind = kinds[i]
		} else {
			kind = []string{"record", "record", "record", "record", "union", "enum", "fixed", "typeref"}[rng.Intn(8)]
		}
		tname := fmt.Sprintf("T%d", i)
		full := ns + "." + tname
		var anyType func(depth int) TypeExpr
		anyType = func(depth int) TypeExpr {
			r := rng.Intn(10)
			switch {
			case r < 4 || depth >= 3:
				if rng.Intn(3) == 0 && len(leaves)+len(records)+len(unions) > 0 {
					all := append(append(append([]string{}, leaves...), records...), unions...)
					return R(all[rng.Intn(len(all))])
				}
				return P(prims[rng.Intn(len(prims))])
			case r < 6 && len(leaves)+len(records)+len(unions) > 0:
				all := append(append(append([]string{}, leaves...), records...), unions...)
				return R(all[rng.Intn(len(all))])
			case r < 8:
				return A(anyType(depth + 1))
			default:
				return M(anyType(depth + 1))
			}
		}
		switch kind {
		case "enum":
			k := 1 + rng.Intn(4)
			var syms []string
			for j := 0; j < k; j++ {
				syms = append(syms, fmt.Sprintf("S%d_%d", i, j))
			}
			s.Add(&TypeDef{Kind: "enum", Name: tname, Namespace: ns, Symbols: syms})
			leaves = append(leaves, full)
		case "fixed":
			s.Add(&TypeDef{Kind: "fixed", Name: tname, Namespace: ns, Size: 1 + rng.Intn(6)})
			leaves = append(leaves, full)
		case "typeref":
			s.Add(&TypeDef{Kind: "typeref", Name: tname, Namespace: ns, Prim: prims[rng.Intn(len(prims))]})
			leaves = append(leaves, full)
		case "union":
			k := 1 + rng.Intn(4)
			t := &TypeDef{Kind: "union", Name: tname, Namespace: ns, HasNull: rng.Intn(3) == 0}
			seen := map[string]bool{}
			for j := 0; j < k; j++ {
				mt := anyType(2)
				alias := memberAlias(mt, j)
				if seen[MemberGoName(alias)] {
					continue
				}
				seen[MemberGoName(alias)] = true
				t.Members = append(t.Members, Member{alias, mt})
			}
			s.Add(t)
			unions = append(unions, full)
		case "record":
			t := &TypeDef{Kind: "record", Name: tname, Namespace: ns}
			used := map[string]bool{}
			if len(records) > 0 && rng.Intn(3) == 0 {
				inc := records[rng.Intn(len(records))]
				t.Includes = append(t.Includes, inc)
				for _, f := range s.AllFields(s.Lookup(inc)) {
					used[GoFieldName(f.Name)] = true
				}
				used[splitName(inc)] = true
			}
			nf := rng.Intn(8)
			for j := 0; j < nf; j++ {
				fname := fmt.Sprintf("f%d", j)
				if used[GoFieldName(fname)] {
					fname = fmt.Sprintf("g%d_%d", i, j)
				}
				used[GoFieldName(fname)] = true
				f := Field{Name: fname, Type: anyType(0)}
				switch rng.Intn(4) {
				case 0:
					f.Optional = true
				case 1:
					if lit, ok := simpleDefault(rng, s, f.Type, 0); ok {
						f.Default = &lit
						f.Optional = j%3 == 0 // a field may be optional and have a default (no extra PRNG draw: set lists stay as they were)
					}
				}
				t.Fields = append(t.Fields, f)
			}
			if rng.Intn(5) == 0 && !used["Self"] {
				t.Fields = append(t.Fields, Field{Name: "self", Type: R(full), Optional: true})
			}
			s.Add(t)
			records = append(records, full)
		}
	}
	return s
}

func splitName(full string) string { return full[strings.LastIndex(full, ".")+1:] }

func memberAlias(t TypeExpr, j int) string {
	switch {
	case t.Prim != "":
		return map[string]string{"int32": "int", "int64": "long", "float32": "float", "float64": "double", "bool": "boolean", "string": "string", "bytes": "bytes"}[t.Prim]
	case t.Ref != "":
		return t.Ref
	case t.Array != nil:
		return fmt.Sprintf("arr%d", j)
	default:
		return fmt.Sprintf("map%d", j)
	}
}

// simpleDefault produces a JSON default literal for t (plain values only; hostile literals live in the kitchen sink).
func simpleDefault(rng *rand.Rand, s *Schema, t TypeExpr, depth int) (string, bool) {
	switch {
	case t.Prim != "":
		switch t.Prim {
		case "int32":
			return fmt.Sprint(rng.Intn(2000) - 1000), true
		case "int64":
			return fmt.Sprint(rng.Int63n(1<<40) - 1<<39), true
		case "float32", "float64":
			return []string{"0.5", "-2.25", "1e3", "0", "3"}[rng.Intn(5)], true
		case "bool":
			return []string{"true", "false"}[rng.Intn(2)], true
		case "string":
			return []string{`"d"`, `""`, `"a b"`, `"x,y"`}[rng.Intn(4)], true
		case "bytes":
			return []string{`"ab"`, `""`, `"\u0001"`}[rng.Intn(3)], true
		}
	case t.Ref != "":
		td := s.Lookup(t.Ref)
		if td == nil {
			return "", false
		}
		switch td.Kind {
		case "enum":
			return fmt.Sprintf("%q", td.Symbols[rng.Intn(len(td.Symbols))]), true
		case "fixed":
			return `"` + strings.Repeat("z", td.Size) + `"`, true
		case "typeref":
			return simpleDefault(rng, s, P(td.Prim), depth)
		case "record":
			if depth > 1 {
				return "", false
			}
			var parts []string
			for _, f := range s.AllFields(td) {
				if f.Optional || f.Default != nil {
					continue
				}
				lit, ok := simpleDefault(rng, s, f.Type, depth+1)
				if !ok {
					return "", false
				}
				parts = append(parts, fmt.Sprintf("%q:%s", f.Name, lit))
			}
			return "{" + strings.Join(parts, ",") + "}", true
		case "union":
			if len(td.Members) == 0 || depth > 1 {
				return "", false
			}
			m := td.Members[rng.Intn(len(td.Members))]
			lit, ok := simpleDefault(rng, s, m.Type, depth+1)
			if !ok {
				return "", false
			}
			return fmt.Sprintf("{%q:%s}", m.Alias, lit), true
		}
	case t.Array != nil:
		if rng.Intn(2) == 0 || depth > 1 {
			return "[]", true
		}
		lit, ok := simpleDefault(rng, s, *t.Array, depth+1)
		if !ok {
			return "[]", true
		}
		return "[" + lit + "]", true
	case t.Map != nil:
		if rng.Intn(2) == 0 || depth > 1 {
			return "{}", true
		}
		lit, ok := simpleDefault(rng, s, *t.Map, depth+1)
		if !ok {
			return "{}", true
		}
		return `{"k":` + lit + "}", true
	}
	return "", false
}
