package corpus

func addKitchenResources(s *Schema) {}
