package corpus

// addKitchenResources adds the resource specifications of the kitchen sink: every resource kind x key type x
// method kind the properties name.
func addKitchenResources(s *Schema) {
	const ns = "ks.kt"
	q := func(n string) string { return ns + "." + n }
	add := func(t *TypeDef) { s.Add(t) }
	add(&TypeDef{Kind: "record", Name: "Audit", Namespace: ns, Fields: []Field{F("by", P("string")), F("at", P("int64"))}})
	add(&TypeDef{Kind: "record", Name: "Thing", Namespace: ns, Fields: []Field{
		F("id", P("int64")), F("name", P("string")), F("tags", A(P("string"))), F("createdBy", P("string")), F("leaf", R(q("Leaf"))),
		Opt("opt", P("string")), F("attrs", M(P("string"))), Opt("audit", R(q("Audit"))), Opt("color", R(q("Color"))), Def("rank", P("int32"), "3"),
		// read-only on ks.things and the field the generated marshalers visit last (they go by name)
		Opt("zstamp", P("int64")),
	}})
	thing, leaf := R(q("Thing")), R(q("Leaf"))
	str, i32, i64 := P("string"), P("int32"), P("int64")
	rest := func(name string, onEntity bool) MethodSpec {
		return MethodSpec{Kind: "REST_METHOD", Name: name, OnEntity: onEntity}
	}
	allRest := func(returnEntity bool) []MethodSpec {
		ms := []MethodSpec{rest("get", true), rest("create", false), rest("update", true), rest("partial_update", true), rest("delete", true),
			rest("batch_get", false), rest("batch_create", false), rest("batch_update", false), rest("batch_partial_update", false), rest("batch_delete", false)}
		ga := rest("get_all", false)
		ga.Paging = true
		ms = append(ms, ga)
		if returnEntity {
			for i := range ms {
				if ms[i].Name == "create" || ms[i].Name == "partial_update" || ms[i].Name == "batch_create" {
					ms[i].ReturnEntity = true
				}
			}
		}
		return ms
	}
	finder := func(name string, paging bool, metadata *TypeExpr, params ...Param) MethodSpec {
		return MethodSpec{Kind: "FINDER", Name: name, Params: params, Paging: paging, Metadata: metadata}
	}
	action := func(name string, onEntity bool, ret *TypeExpr, params ...Param) MethodSpec {
		return MethodSpec{Kind: "ACTION", Name: name, OnEntity: onEntity, Return: ret, Params: params}
	}
	arrStr, mapLeaf := A(P("string")), M(R(q("Leaf")))
	res := func(namespace string, segs []PathSeg, schema *TypeExpr, methods []MethodSpec, ro, co []string) {
		s.Resources = append(s.Resources, &Resource{Namespace: namespace, Segments: segs, Schema: schema, Methods: methods, ReadOnly: ro, CreateOnly: co})
	}
	// 1. collection keyed by string, every method, finders, actions, annotations
	things := append(allRest(false),
		finder("byName", true, &leaf, F("name", str)),
		finder("byTags", false, nil, F("tags", arrStr), Opt("limit", i32), F("filter", R(q("Leaf")))),
		action("ping", false, &str),
		action("sum", false, &i64, F("a", i32), F("b", i64), Opt("note", str)),
		action("scale", false, &i64, F("v", i64), Def("factor", i32, "2"), OptDef("unit", str, `"x"`)),
		action("touch", true, nil, Opt("note", str)),
		action("describe", true, &thing, F("verbose", P("bool"))),
		action("names", false, &arrStr),
		action("index", false, &mapLeaf, F("keys", arrStr)),
	)
	res("ks.things", []PathSeg{{Name: "things", KeyName: "thingId", Key: &str}}, &thing, things, []string{"id", "audit/at", "zstamp"}, []string{"createdBy"})
	// 2. collection keyed by int64, return-entity variants
	longs := append(allRest(true), finder("recent", true, nil))
	for i := range longs {
		// REST methods whose parameters are all optional or defaulted: a call may carry no query at all
		if longs[i].Name == "get" || longs[i].Name == "delete" {
			longs[i].Params = []Param{Def("view", str, `"full"`), Def("depth", i32, "3"), Opt("note", str)}
		}
	}
	longs = append(longs, finder("page", false, nil, Def("size", i32, "25"), OptDef("order", str, `"asc"`)))
	res("ks.longs", []PathSeg{{Name: "longs", KeyName: "longId", Key: &i64}}, &leaf, longs, nil, nil)
	// 3. typeref key
	tstr := R(q("TString"))
	res("ks.typed", []PathSeg{{Name: "typed", KeyName: "typedId", Key: &tstr}}, &leaf,
		[]MethodSpec{rest("get", true), rest("delete", true), rest("batch_get", false), rest("batch_delete", false), rest("create", false)}, nil, nil)
	// 4. enum key
	col := R(q("Color"))
	res("ks.colors", []PathSeg{{Name: "colors", KeyName: "colorId", Key: &col}}, &leaf, []MethodSpec{rest("get", true), rest("batch_get", false), rest("update", true)}, nil, nil)
	// 6. complex key
	ck := R(q("CK"))
	res("ks.cks", []PathSeg{{Name: "cks", KeyName: "ckId", Key: &ck}}, &thing,
		[]MethodSpec{rest("get", true), rest("create", false), rest("update", true), rest("partial_update", true), rest("delete", true),
			rest("batch_get", false), rest("batch_update", false), rest("batch_partial_update", false), rest("batch_delete", false), rest("batch_create", false),
			action("poke", true, &str)}, []string{"id"}, nil)
	// 7. simple resource
	res("ks.single", []PathSeg{{Name: "single"}}, &thing,
		[]MethodSpec{rest("get", false), rest("update", false), rest("partial_update", false), rest("delete", false), action("reset", false, nil, Opt("hard", P("bool")))}, []string{"id"}, []string{"createdBy", "leaf"})
	// 8. action set
	res("ks.acts", []PathSeg{{Name: "acts"}}, nil,
		[]MethodSpec{action("echo", false, &str, F("text", str)), action("noop", false, nil), action("mk", false, &leaf, F("s", str), Opt("n", i32))}, nil, nil)
	// 9. sub-resources under parent keys
	res("ks.things.parts", []PathSeg{{Name: "things", KeyName: "thingId", Key: &str}, {Name: "parts", KeyName: "partId", Key: &i32}}, &leaf,
		append(allRest(false), finder("byS", false, nil, F("s", str)), action("count", false, &i32), action("flip", true, &P_bool)), nil, nil)
	res("ks.things.parts.detail", []PathSeg{{Name: "things", KeyName: "thingId", Key: &str}, {Name: "parts", KeyName: "partId", Key: &i32}, {Name: "detail"}}, &leaf,
		[]MethodSpec{rest("get", false), rest("update", false), rest("delete", false)}, nil, nil)
	res("ks.single.subs", []PathSeg{{Name: "single"}, {Name: "subs", KeyName: "subId", Key: &i64}}, &leaf,
		[]MethodSpec{rest("get", true), rest("batch_get", false), rest("get_all", false)}, nil, nil)
}

var P_bool = P("bool")
