// Package corpus holds the abstract schema / resource grammar used to manufacture subject matter for the
// monitors: schema sets are written here (kitchen sink by hand, the rest PRNG-drawn), emitted as go-restli
// JSON manifests for the real generator, and loaded again by the drivers to steer the reflection bridge.
// It imports nothing from go-restli.
package corpus

import (
	"fmt"
	"strings"
	"unicode"
)

type TypeExpr struct {
	Prim  string    `json:"prim,omitempty"` // int32 int64 float32 float64 bool string bytes
	Ref   string    `json:"ref,omitempty"`  // full name "ns.Name"
	Array *TypeExpr `json:"array,omitempty"`
	Map   *TypeExpr `json:"map,omitempty"`
}

func (t TypeExpr) String() string {
	switch {
	case t.Prim != "":
		return t.Prim
	case t.Ref != "":
		return t.Ref
	case t.Array != nil:
		return "array<" + t.Array.String() + ">"
	case t.Map != nil:
		return "map<" + t.Map.String() + ">"
	}
	return "?"
}

type Field struct {
	Name     string   `json:"name"`
	Type     TypeExpr `json:"type"`
	Optional bool     `json:"optional,omitempty"`
	Default  *string  `json:"default,omitempty"` // JSON literal
}

type Member struct {
	Alias string   `json:"alias"`
	Type  TypeExpr `json:"type"`
}

type TypeDef struct {
	Kind      string   `json:"kind"` // record enum fixed typeref union complexkey
	Name      string   `json:"name"`
	Namespace string   `json:"namespace"`
	Includes  []string `json:"includes,omitempty"`
	Fields    []Field  `json:"fields,omitempty"`
	Symbols   []string `json:"symbols,omitempty"`
	Size      int      `json:"size,omitempty"`
	Prim      string   `json:"primType,omitempty"`
	HasNull   bool     `json:"hasNull,omitempty"`
	Members   []Member `json:"members,omitempty"`
	Key       string   `json:"key,omitempty"`
	Params    string   `json:"params,omitempty"`
}

func (t *TypeDef) FullName() string { return t.Namespace + "." + t.Name }

type Param = Field

type MethodSpec struct {
	Kind         string    `json:"kind"` // REST_METHOD FINDER ACTION
	Name         string    `json:"name"`
	OnEntity     bool      `json:"onEntity,omitempty"`
	Params       []Param   `json:"params,omitempty"`
	Paging       bool      `json:"paging,omitempty"`
	Return       *TypeExpr `json:"return,omitempty"`
	Metadata     *TypeExpr `json:"metadata,omitempty"`
	ReturnEntity bool      `json:"returnEntity,omitempty"`
}

type PathSeg struct {
	Name    string    `json:"name"`
	KeyName string    `json:"keyName,omitempty"`
	Key     *TypeExpr `json:"key,omitempty"` // nil = simple resource / action set
}

type Resource struct {
	Namespace  string       `json:"namespace"`
	Segments   []PathSeg    `json:"segments"`
	Schema     *TypeExpr    `json:"schema,omitempty"`
	Methods    []MethodSpec `json:"methods"`
	ReadOnly   []string     `json:"readOnly,omitempty"`
	CreateOnly []string     `json:"createOnly,omitempty"`
}

func (r *Resource) Name() string { return r.Segments[len(r.Segments)-1].Name }

type Schema struct {
	Name        string      `json:"name"`
	PackageRoot string      `json:"packageRoot"`
	Types       []*TypeDef  `json:"types"`
	Resources   []*Resource `json:"resources,omitempty"`
	byName      map[string]*TypeDef
}

func (s *Schema) Lookup(full string) *TypeDef {
	if s.byName == nil {
		s.byName = map[string]*TypeDef{}
		for _, t := range s.Types {
			s.byName[t.FullName()] = t
		}
	}
	return s.byName[full]
}

func (s *Schema) Add(t *TypeDef) *TypeDef {
	s.Types = append(s.Types, t)
	s.byName = nil
	return t
}

// AllFields returns the fields of a record including the ones inherited through includes (includes first).
func (s *Schema) AllFields(t *TypeDef) []Field {
	var out []Field
	for _, inc := range t.Includes {
		out = append(out, s.AllFields(s.Lookup(inc))...)
	}
	return append(out, t.Fields...)
}

// HasDefault tells whether the record has a defaulted field, own or inherited through includes (this decides
// whether the generator emits NewXWithDefaultValues).
func (s *Schema) HasDefault(t *TypeDef) bool {
	for _, f := range s.AllFields(t) {
		if f.Default != nil {
			return true
		}
	}
	return false
}

// GoFieldName is the exported Go identifier of a schema field / union alias tail (the generator's documented rule).
func GoFieldName(name string) string {
	var b strings.Builder
	for i, c := range name {
		switch {
		case unicode.IsLetter(c):
			if i == 0 {
				b.WriteRune(unicode.ToUpper(c))
			} else {
				b.WriteRune(c)
			}
		case unicode.IsNumber(c):
			if i == 0 {
				b.WriteString("Exported_")
			}
			b.WriteRune(c)
		case c == '_':
			if i == 0 {
				b.WriteString("Exported")
			}
			b.WriteRune(c)
		case c == '$':
			if i != 0 {
				b.WriteRune('_')
			}
			b.WriteString("DOLLAR_")
		default:
			panic(fmt.Sprintf("illegal identifier character %q in %q", c, name))
		}
	}
	return b.String()
}

func MemberGoName(alias string) string {
	return GoFieldName(alias[strings.LastIndex(alias, ".")+1:])
}

// GoPackagePath of a namespace below the package root.
func (s *Schema) GoPackagePath(namespace string) string {
	return s.PackageRoot + "/" + strings.ReplaceAll(namespace, ".", "/")
}

// helpers for writing schemas by hand
func P(p string) TypeExpr               { return TypeExpr{Prim: p} }
func R(full string) TypeExpr            { return TypeExpr{Ref: full} }
func A(t TypeExpr) TypeExpr             { return TypeExpr{Array: &t} }
func M(t TypeExpr) TypeExpr             { return TypeExpr{Map: &t} }
func F(name string, t TypeExpr) Field   { return Field{Name: name, Type: t} }
func Opt(name string, t TypeExpr) Field { return Field{Name: name, Type: t, Optional: true} }
func Def(name string, t TypeExpr, lit string) Field {
	return Field{Name: name, Type: t, Default: &lit}
}

// OptDef is a field that is declared optional and has a default.
func OptDef(name string, t TypeExpr, lit string) Field {
	return Field{Name: name, Type: t, Optional: true, Default: &lit}
}
