#!/bin/bash
# Derives the root-generation (v1) variant of every package directory named gen2 under props/:
# props/<x>/gen2  ->  props/<x>/gen1 with import paths rewritten to the root module.
# Run inside a harness directory (the template in /verif/harness or a work copy).
set -eu
cd "$(dirname "$0")"
find props -type d -name gen2 | while read -r d; do
  o="$(dirname "$d")/gen1"
  rm -rf "$o"; mkdir -p "$o"
  # files named *_v2.go exist only for the v2 generation; *_root.go.in are their root-generation counterparts
  for f in "$d"/*_root.go.in; do
    [ -e "$f" ] || continue
    sed -e 's#^package gen2#package gen1#' "$f" > "$o/$(basename "${f%.in}")"
  done
  for f in "$d"/*.go; do
    case "$f" in *_v2.go) continue;; esac
    sed -e 's#github.com/PapaCharlie/go-restli/v2/restlidata/generated/com/linkedin/restli/common#github.com/PapaCharlie/go-restli/restlidata#g' \
        -e 's#github.com/PapaCharlie/go-restli/v2/#github.com/PapaCharlie/go-restli/#g' \
        -e 's#^package gen2#package gen1#' \
        -e 's#"verifh/props/\([a-z0-9]*\)/gen2"#"verifh/props/\1/gen1"#' \
        -e 's#"verifh/codec"#"verifh/codec1"#' -e 's#"verifh/rig"#"verifh/rig1"#' -e 's#"verifh/gen/all"#"verifh/genr/allr"#' -e 's#"verifh/gen/ks/#"verifh/genr/ks/#' \
        -e 's#[A-Za-z0-9_.]* /\*root:\([^*]*\)\*/#\1#g' \
        -e 's#GENERATION = "v2"#GENERATION = "root"#' "$f" > "$o/$(basename "$f")"
  done
done

# codec1: the codec table for the root module, derived from codec/
rm -rf codec1; mkdir -p codec1
for f in codec/*.go; do
  case "$f" in *_test.go) continue;; esac
  sed -e 's#github.com/PapaCharlie/go-restli/v2/#github.com/PapaCharlie/go-restli/#g' \
      -e 's#^package codec$#package codec1#' \
      -e 's#verifh/gen/#verifh/genr/#g' "$f" > "codec1/$(basename "$f")"
done

# rig1: the generic rig for bindings of the root module, derived from rig/ (shim_v2.go is replaced by shim_root.go.in)
rm -rf rig1; mkdir -p rig1
for f in rig/*.go; do
  case "$f" in *_v2.go|*_test.go) continue;; esac
  sed -e 's#github.com/PapaCharlie/go-restli/v2/restlidata/generated/com/linkedin/restli/common#github.com/PapaCharlie/go-restli/restlidata#g' \
      -e 's#github.com/PapaCharlie/go-restli/v2/#github.com/PapaCharlie/go-restli/#g' \
      -e 's#^package rig$#package rig1#' "$f" > "rig1/$(basename "$f")"
done
for f in rig/*_root.go.in; do
  [ -e "$f" ] || continue
  sed -e 's#^package rig$#package rig1#' "$f" > "rig1/$(basename "${f%.in}")"
done
