// Package ev is the verdict / evidence plumbing shared by every property driver.
//
// A driver calls Start, reports what its monitors observed (Eval, Distinct, Sample, Count), reports
// violations with a *signature* computed from the minimised counter-example (Violation), and ends with
// Finish, which writes /verif/evidence/<id>.json and exits 0 / 1 following the interface contract:
//
//	exit 0  the property held on everything observed (listed known findings are printed as KNOWN-FINDING lines)
//	exit 1  + "VIOLATION property=<id> replay=<path>" for a violation not listed in known_findings.jsonl,
//	        or "INCONCLUSIVE ..." when the monitors observed too little to say anything.
//
// The package must not import go-restli: it is part of the independent base.
package ev

import (
	"bufio"
	"encoding/json"
	"fmt"
	"os"
	"path/filepath"
	"runtime/debug"
	"sort"
	"strconv"
	"strings"
	"sync"
	"time"
)

type Finding struct {
	Status    string `json:"status"` // "open" or "fixed"
	Property  string `json:"property"`
	Signature string `json:"signature"`
	What      string `json:"what"`
	Commit    string `json:"commit,omitempty"`
}

type violation struct {
	Signature string `json:"signature"`
	Detail    any    `json:"detail"`
	Count     int    `json:"count"`
	Replay    string `json:"replay,omitempty"`
	Known     bool   `json:"known"`
}

type Run struct {
	ID    string
	Tier  string
	Seed  int64
	Level string

	mu           sync.Mutex
	start        time.Time
	evals        int64
	distinct     map[string]struct{}
	samples      []any
	maxSamples   int
	counters     map[string]int64
	extra        map[string]any
	viol         map[string]*violation
	violOrder    []string
	inconclusive []string
	assumptions  []string
	rule         string
	exhaustive   *bool
	known        map[string]Finding
	minEvents    map[string]int64
}

// Start reads VERIF_ID / VERIF_TIER / VERIF_SEED and the known-findings file.
func Start(id string) *Run {
	r := &Run{
		ID: id, Tier: os.Getenv("VERIF_TIER"), Level: "exploration",
		start: time.Now(), distinct: map[string]struct{}{}, counters: map[string]int64{},
		extra: map[string]any{}, viol: map[string]*violation{}, known: map[string]Finding{},
		maxSamples: 8, minEvents: map[string]int64{},
	}
	if r.Tier != "thorough" {
		r.Tier = "quick"
	}
	r.Seed = 1
	if s := os.Getenv("VERIF_SEED"); s != "" {
		if v, err := strconv.ParseInt(s, 10, 64); err == nil {
			r.Seed = v
		}
	}
	f, err := os.Open(filepath.Join(Dir(), "known_findings.jsonl"))
	if err == nil {
		defer f.Close()
		sc := bufio.NewScanner(f)
		sc.Buffer(make([]byte, 1<<20), 1<<20)
		for sc.Scan() {
			line := strings.TrimSpace(sc.Text())
			if line == "" || strings.HasPrefix(line, "#") {
				continue
			}
			var fd Finding
			if json.Unmarshal([]byte(line), &fd) == nil && fd.Property == id && fd.Status == "open" {
				r.known[fd.Signature] = fd
			}
		}
	}
	return r
}

func Dir() string {
	if d := os.Getenv("VERIF_DIR"); d != "" {
		return d
	}
	return "/verif"
}

func (r *Run) Thorough() bool { return r.Tier == "thorough" }

// Pick returns q in the quick tier and t in the thorough tier.
func (r *Run) Pick(q, t int) int {
	if r.Thorough() {
		return t
	}
	return q
}

func (r *Run) Eval(n int) {
	r.mu.Lock()
	r.evals += int64(n)
	r.mu.Unlock()
}

// Distinct records the signature of a non-trivial case (by the driver's stated rule).
func (r *Run) Distinct(sig string) {
	r.mu.Lock()
	r.distinct[sig] = struct{}{}
	r.mu.Unlock()
}

func (r *Run) Sample(v any) {
	r.mu.Lock()
	if len(r.samples) < r.maxSamples {
		r.samples = append(r.samples, v)
	}
	r.mu.Unlock()
}

func (r *Run) Count(name string, n int) {
	r.mu.Lock()
	r.counters[name] += int64(n)
	r.mu.Unlock()
}

func (r *Run) Counter(name string) int64 {
	r.mu.Lock()
	defer r.mu.Unlock()
	return r.counters[name]
}

// Require declares that counter `name` must reach at least n by the end of the run; otherwise the
// run is INCONCLUSIVE (a monitor that observed nothing must not pass).
func (r *Run) Require(name string, n int64) {
	r.mu.Lock()
	r.minEvents[name] = n
	r.mu.Unlock()
}

func (r *Run) Set(key string, v any) {
	r.mu.Lock()
	r.extra[key] = v
	r.mu.Unlock()
}

func (r *Run) Rule(s string)      { r.rule = s }
func (r *Run) Exhaustive(b bool)  { r.exhaustive = &b }
func (r *Run) Assume(s ...string) { r.assumptions = append(r.assumptions, s...) }
func (r *Run) Inconclusive(msg string) {
	r.mu.Lock()
	r.inconclusive = append(r.inconclusive, msg)
	r.mu.Unlock()
}

// Violation records one violating case.  sig identifies the fault (see DESIGN.md §4.2); detail is the
// minimised witness and is written to the replay file the first time the signature is seen.
func (r *Run) Violation(sig string, detail any) {
	r.mu.Lock()
	defer r.mu.Unlock()
	v := r.viol[sig]
	if v == nil {
		known := r.matchKnown(sig) != ""
		v = &violation{Signature: sig, Detail: detail, Known: known}
		r.viol[sig] = v
		r.violOrder = append(r.violOrder, sig)
	}
	v.Count++
}

// KnownOpen tells whether sig is listed as an open finding (drivers use it only for reporting).
func (r *Run) KnownOpen(sig string) bool { return r.matchKnown(sig) != "" }

// matchKnown returns the pattern of the open finding that lists sig ("" if none).  A pattern is the exact
// signature or contains '*' wildcards (each matches any run of characters).
func (r *Run) matchKnown(sig string) string {
	if _, ok := r.known[sig]; ok {
		return sig
	}
	for pat := range r.known {
		if strings.Contains(pat, "*") && globMatch(pat, sig) {
			return pat
		}
	}
	return ""
}

func globMatch(pat, s string) bool {
	parts := strings.Split(pat, "*")
	if !strings.HasPrefix(s, parts[0]) {
		return false
	}
	s = s[len(parts[0]):]
	for i := 1; i < len(parts); i++ {
		p := parts[i]
		if i == len(parts)-1 {
			return strings.HasSuffix(s, p)
		}
		j := strings.Index(s, p)
		if j < 0 {
			return false
		}
		s = s[j+len(p):]
	}
	return true
}

func (r *Run) NumViolations() int {
	r.mu.Lock()
	defer r.mu.Unlock()
	return len(r.viol)
}

// Finish writes the evidence file and exits.
func (r *Run) Finish() {
	r.mu.Lock()
	defer r.mu.Unlock()
	for name, min := range r.minEvents {
		if r.counters[name] < min {
			r.inconclusive = append(r.inconclusive, fmt.Sprintf("monitor observed %d %q events, needs >= %d", r.counters[name], name, min))
		}
	}
	exit := 0
	newViol := 0
	var knownHit []string
	replayDir := filepath.Join(Dir(), "replays")
	if d := os.Getenv("VERIF_REPLAY_DIR"); d != "" {
		replayDir = d // runs against scratch copies (mutants) keep their witnesses apart from those of /repo
	}
	_ = os.MkdirAll(replayDir, 0o755)
	for i, sig := range r.violOrder {
		v := r.viol[sig]
		if v.Known {
			fmt.Printf("KNOWN-FINDING: property=%s %s (signature %q, seen %d times)\n", r.ID, r.known[r.matchKnown(sig)].What, sig, v.Count)
			knownHit = append(knownHit, sig)
			continue
		}
		newViol++
		path := filepath.Join(replayDir, fmt.Sprintf("%s-%s-seed%d-%d.json", r.ID, r.Tier, r.Seed, i))
		data, _ := json.MarshalIndent(map[string]any{
			"property": r.ID, "tier": r.Tier, "seed": r.Seed, "signature": sig, "occurrences": v.Count, "witness": v.Detail,
		}, "", " ")
		_ = os.WriteFile(path, data, 0o644)
		v.Replay = path
		fmt.Printf("VIOLATION property=%s replay=%s\n", r.ID, path)
		fmt.Printf("  signature: %s\n", sig)
		exit = 1
	}
	for _, m := range r.inconclusive {
		fmt.Printf("INCONCLUSIVE property=%s %s\n", r.ID, m)
		exit = 1
	}
	cov := map[string]any{}
	for k, v := range r.extra {
		cov[k] = v
	}
	cov["evaluations"] = r.evals
	cov["distinct_nontrivial"] = len(r.distinct)
	cov["rule"] = r.rule
	if len(r.samples) == 0 {
		r.samples = []any{}
	}
	cov["samples"] = r.samples
	cov["counters"] = r.counters
	if r.exhaustive != nil {
		cov["exhaustive"] = *r.exhaustive
	}
	sort.Strings(knownHit)
	cov["known_findings_hit"] = knownHit
	cov["inconclusive"] = r.inconclusive
	var vs []any
	for _, sig := range r.violOrder {
		if v := r.viol[sig]; !v.Known {
			vs = append(vs, map[string]any{"signature": sig, "count": v.Count, "replay": v.Replay})
		}
	}
	cov["new_violations"] = vs
	evd := map[string]any{
		"property_id": r.ID, "tier": r.Tier, "seed": r.Seed, "level": r.Level,
		"coverage": cov, "assumptions": r.assumptions,
		"wall_s": time.Since(r.start).Seconds(), "violations": newViol,
	}
	if evd["assumptions"] == nil {
		evd["assumptions"] = []string{}
	}
	dir := os.Getenv("VERIF_EVIDENCE_DIR")
	if dir == "" {
		dir = filepath.Join(Dir(), "evidence")
	}
	_ = os.MkdirAll(dir, 0o755)
	data, err := json.MarshalIndent(evd, "", " ")
	if err != nil {
		fmt.Printf("INCONCLUSIVE property=%s cannot marshal evidence: %v\n", r.ID, err)
		os.Exit(1)
	}
	if err := os.WriteFile(filepath.Join(dir, r.ID+".json"), data, 0o644); err != nil {
		fmt.Printf("INCONCLUSIVE property=%s cannot write evidence: %v\n", r.ID, err)
		os.Exit(1)
	}
	fmt.Printf("%s %s seed=%d: evaluations=%d distinct_nontrivial=%d new_violations=%d known_hit=%d wall=%.1fs\n",
		r.ID, r.Tier, r.Seed, r.evals, len(r.distinct), newViol, len(knownHit), time.Since(r.start).Seconds())
	os.Exit(exit)
}

// Guard is deferred by drivers around code that calls the library directly: a panic that passes through go-restli
// frames is a violation (with the stack as witness), any other panic is a fault of the harness (inconclusive).
// Either way the evidence is written and the process exits through Finish.
func (r *Run) Guard() {
	p := recover()
	if p == nil {
		return
	}
	st := string(debug.Stack())
	frame := "?"
	for _, l := range strings.Split(st, "\n") {
		l = strings.TrimSpace(l)
		if strings.Contains(l, "PapaCharlie/go-restli") && strings.Contains(l, "(") && !strings.HasPrefix(l, "/") && !strings.HasPrefix(l, "github.com/PapaCharlie/go-restli@") {
			if i := strings.LastIndex(l, "("); i > 0 {
				l = l[:i]
			}
			if j := strings.LastIndex(l, "/"); j >= 0 {
				l = l[j+1:]
			}
			frame = l
			break
		}
	}
	if len(st) > 4000 {
		st = st[:4000]
	}
	if frame != "?" {
		r.Violation("panic-in-library/"+frame, map[string]any{"panic": fmt.Sprint(p), "stack": st})
	} else {
		r.Inconclusive(fmt.Sprintf("driver panicked outside library code: %v\n%s", p, st))
	}
	r.Finish()
}
