package ev

import (
	"os"
	"path/filepath"
	"regexp"
	"sort"
	"strings"
)

// RaceReport is one "WARNING: DATA RACE" block of the Go race detector.
type RaceReport struct {
	Text      string
	Functions []string // functions on the two access stacks, outermost last, library frames only
	Pair      string   // deduplication key: the pair of innermost library functions of the two accesses
}

var frameRe = regexp.MustCompile(`^\s+([A-Za-z0-9_./\-]+(?:\.\(\*?[A-Za-z0-9_\[\],. ]+\))?(?:\.[A-Za-z0-9_]+)+)\(`)

// ParseRaceLogs reads every file matching glob and returns the reports whose stacks pass through a function
// whose name contains one of the given substrings (e.g. "go-restli").
func ParseRaceLogs(glob string, mustContain ...string) []RaceReport {
	files, _ := filepath.Glob(glob)
	var out []RaceReport
	for _, f := range files {
		data, err := os.ReadFile(f)
		if err != nil {
			continue
		}
		blocks := strings.Split(string(data), "WARNING: DATA RACE")
		for _, b := range blocks[1:] {
			if i := strings.Index(b, "=================="); i >= 0 {
				b = b[:i]
			}
			// the two access stacks are the first two paragraphs
			paras := strings.Split(strings.TrimSpace(b), "\n\n")
			var inner []string
			var funcs []string
			relevant := false
			for pi, p := range paras {
				if pi > 1 {
					break
				}
				first := ""
				for _, line := range strings.Split(p, "\n") {
					m := frameRe.FindStringSubmatch(line)
					if m == nil {
						continue
					}
					fn := m[1]
					for _, sub := range mustContain {
						if strings.Contains(fn, sub) {
							relevant = true
							if first == "" {
								first = fn
							}
							funcs = append(funcs, fn)
						}
					}
				}
				inner = append(inner, first)
			}
			if !relevant {
				continue
			}
			sort.Strings(inner)
			out = append(out, RaceReport{Text: "WARNING: DATA RACE" + b, Functions: funcs, Pair: strings.Join(inner, " <-> ")})
		}
	}
	return out
}
