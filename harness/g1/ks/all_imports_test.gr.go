package main

import (
	"testing"
	_ "verifh/g1/ks/ks/acts"
	_ "verifh/g1/ks/ks/acts_test"
	_ "verifh/g1/ks/ks/cks"
	_ "verifh/g1/ks/ks/cks_test"
	_ "verifh/g1/ks/ks/colors"
	_ "verifh/g1/ks/ks/colors_test"
	_ "verifh/g1/ks/ks/kt"
	_ "verifh/g1/ks/ks/longs"
	_ "verifh/g1/ks/ks/longs_test"
	_ "verifh/g1/ks/ks/single"
	_ "verifh/g1/ks/ks/single/subs"
	_ "verifh/g1/ks/ks/single/subs_test"
	_ "verifh/g1/ks/ks/single_test"
	_ "verifh/g1/ks/ks/things"
	_ "verifh/g1/ks/ks/things/parts"
	_ "verifh/g1/ks/ks/things/parts/detail"
	_ "verifh/g1/ks/ks/things/parts/detail_test"
	_ "verifh/g1/ks/ks/things/parts_test"
	_ "verifh/g1/ks/ks/things_test"
	_ "verifh/g1/ks/ks/typed"
	_ "verifh/g1/ks/ks/typed_test"
)

func TestAllImports(*testing.T) {}
