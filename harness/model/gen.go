package model

import (
	"fmt"
	"math"
	"math/rand"
	"strings"
	"unicode/utf8"

	"verifh/corpus"
)

// Hostile pools (DESIGN.md 2.3).  Strings that are not valid UTF-8 are kept out of string-typed positions
// (a Rest.li string is text) and used for bytes / fixed only.
var HostileStrings = func() []string {
	out := []string{"", " ", "''", "'", "List(", "List()", "()", "(", ")", ",", ":", "(a:b)", "a,b", "a:b", "k:v,k2:v2",
		`"`, `\`, `/`, `\"`, `"}`, "\\u0000", "\n", "\r\n", "\t", "\x00", "\x1f", "\x7f",
		"%", "%25", "%2F", "%zz", "%", "100%", "+", "a+b", "&", "=", "a&b=c", "?", "#", ";", ".", "..", "//", "a/b", "~", "!", "*", "$", "@",
		"é", "ÿ", "\u0080", "日本語", "😀", " ", "\ufeff", "a b", "  leading", "trailing  ", "NaN", "Infinity", "-Infinity", "null", "true", "0", "-1", "1e21",
		strings.Repeat("x", 300), strings.Repeat("é(,)", 50)}
	for c := 0; c < 0x80; c++ {
		out = append(out, string(rune(c)))
	}
	for c := 0x80; c <= 0xff; c++ {
		out = append(out, string(rune(c))) // the code point U+0080..U+00FF, valid UTF-8
	}
	return out
}()

var HostileInt32 = []int32{0, 1, -1, math.MaxInt32, math.MinInt32, math.MaxInt32 - 1, math.MinInt32 + 1, 255, 256, 65535, 65536, 1000000}
var HostileInt64 = []int64{0, 1, -1, math.MaxInt64, math.MinInt64, math.MaxInt64 - 1, math.MinInt64 + 1, math.MaxInt32, math.MaxInt32 + 1, math.MinInt32 - 1,
	1 << 53, 1<<53 + 1, -(1 << 53) - 1, 9007199254740993, 1e15, 1e18}
var HostileFloat64 = []float64{0, math.Copysign(0, -1), 1, -1, 0.5, math.NaN(), math.Inf(1), math.Inf(-1), math.MaxFloat64, -math.MaxFloat64, math.SmallestNonzeroFloat64,
	math.MaxFloat32, 1e21, 1e21 - 1e5, 9.99999999999999e20, 1.0000000000000001e21, 1e-7, 9.9e-8, 1.1e-7, 1e-6, 1e6, 1e20, 123456789.125, 0.1, 1.0 / 3, 2.2250738585072014e-308, 4.9e-324, 1e100, -1e-100, 1 << 63, 1e19}
var HostileFloat32 = []float32{0, float32(math.Copysign(0, -1)), 1, -1, 0.5, float32(math.NaN()), float32(math.Inf(1)), float32(math.Inf(-1)), math.MaxFloat32, -math.MaxFloat32, math.SmallestNonzeroFloat32,
	0.1, 1.0 / 3, 16777216, 16777217, 1e21, 1e-7, 9.9e-8, 3.4e38, 1.17549435e-38, 1e10, 123456.79}

type Gen struct {
	S        *corpus.Schema
	Rng      *rand.Rand
	Hostile  float64 // probability that a leaf comes from a hostile pool
	MaxDepth int
	MaxElems int
	// Sweep, when >= 0, forces the next string-bearing leaf to HostileStrings[Sweep] (used to make the byte
	// sweep part of the fixed case list instead of leaving it to chance); it is reset to -1 once used.
	Sweep int
}

func NewGen(s *corpus.Schema, rng *rand.Rand) *Gen {
	return &Gen{S: s, Rng: rng, Hostile: 0.35, MaxDepth: 4, MaxElems: 4, Sweep: -1}
}

func (g *Gen) str() string {
	if g.Sweep >= 0 {
		s := HostileStrings[g.Sweep%len(HostileStrings)]
		g.Sweep = -1
		return s
	}
	if g.Rng.Float64() < g.Hostile {
		s := HostileStrings[g.Rng.Intn(len(HostileStrings))]
		if g.Rng.Intn(4) == 0 { // embedded
			s = "a" + s + "z"
		}
		return s
	}
	const letters = "abcdefghijklmnopqrstuvwxyzABCDEFGHIJKLMNOPQRSTUVWXYZ0123456789_-"
	n := 1 + g.Rng.Intn(8)
	b := make([]byte, n)
	for i := range b {
		b[i] = letters[g.Rng.Intn(len(letters))]
	}
	return string(b)
}

func (g *Gen) bytes() string {
	if g.Sweep >= 0 {
		b := byte(g.Sweep % 256)
		g.Sweep = -1
		return string([]byte{b})
	}
	if g.Rng.Float64() < g.Hostile {
		switch g.Rng.Intn(5) {
		case 0:
			return ""
		case 1:
			return string([]byte{byte(g.Rng.Intn(256))})
		case 2:
			b := byte(g.Rng.Intn(256))
			return string([]byte{b, b, b})
		case 3:
			return string([]byte{0x80, 0xff, 0x00, 0xc3, 0x28})
		default:
			return HostileStrings[g.Rng.Intn(len(HostileStrings))]
		}
	}
	n := g.Rng.Intn(6)
	b := make([]byte, n)
	for i := range b {
		b[i] = byte('a' + g.Rng.Intn(26))
	}
	return string(b)
}

// Value draws a value of type t.
func (g *Gen) Value(t corpus.TypeExpr, depth int) *Value {
	et, td := Resolve(g.S, t)
	if td == nil {
		switch {
		case et.Prim != "":
			return g.prim(et.Prim)
		case et.Array != nil:
			n := g.count(depth)
			v := &Value{Kind: KArray}
			for i := 0; i < n; i++ {
				v.Elems = append(v.Elems, g.Value(*et.Array, depth+1))
			}
			return v
		case et.Map != nil:
			n := g.count(depth)
			v := &Value{Kind: KMap, Entries: map[string]*Value{}}
			for i := 0; i < n; i++ {
				k := g.str()
				if !utf8.ValidString(k) {
					k = "k"
				}
				v.Entries[k] = g.Value(*et.Map, depth+1)
			}
			return v
		}
		panic("bad type expression")
	}
	switch td.Kind {
	case "enum":
		return &Value{Kind: KEnum, S: td.Symbols[g.Rng.Intn(len(td.Symbols))]}
	case "fixed":
		b := make([]byte, td.Size)
		hostile := g.Rng.Float64() < g.Hostile
		for i := range b {
			if g.Sweep >= 0 {
				b[i] = byte(g.Sweep % 256)
			} else if hostile {
				b[i] = byte(g.Rng.Intn(256))
			} else {
				b[i] = byte('a' + g.Rng.Intn(26))
			}
		}
		g.Sweep = -1
		return &Value{Kind: KFixed, S: string(b)}
	case "record":
		return g.record(td, depth)
	case "complexkey":
		v := g.record(g.S.Lookup(td.Key), depth)
		if g.Rng.Intn(2) == 0 {
			v.Fields["$params"] = g.record(g.S.Lookup(td.Params), depth+1)
		}
		return v
	case "union":
		if len(td.Members) == 0 || (td.HasNull && g.Rng.Intn(4) == 0) {
			return &Value{Kind: KUnion}
		}
		m := td.Members[g.Rng.Intn(len(td.Members))]
		return &Value{Kind: KUnion, Alias: m.Alias, Member: g.Value(m.Type, depth+1)}
	}
	panic("bad kind " + td.Kind)
}

func (g *Gen) count(depth int) int {
	if depth >= g.MaxDepth {
		return 0
	}
	switch g.Rng.Intn(6) {
	case 0:
		return 0
	case 1, 2:
		return 1
	default:
		return 1 + g.Rng.Intn(g.MaxElems)
	}
}

func (g *Gen) record(td *corpus.TypeDef, depth int) *Value {
	v := &Value{Kind: KRecord, Fields: map[string]*Value{}}
	for _, f := range g.S.AllFields(td) {
		if f.Optional || f.Default != nil {
			if depth >= g.MaxDepth || g.Rng.Intn(2) == 0 {
				continue
			}
		}
		// required self-references cannot occur; optional recursion is cut by depth
		v.Fields[f.Name] = g.Value(f.Type, depth+1)
	}
	return v
}

func (g *Gen) prim(p string) *Value {
	h := g.Rng.Float64() < g.Hostile
	switch p {
	case "int32":
		if h {
			return Int32(HostileInt32[g.Rng.Intn(len(HostileInt32))])
		}
		return Int32(int32(g.Rng.Intn(2000) - 1000))
	case "int64":
		if h {
			return Int64(HostileInt64[g.Rng.Intn(len(HostileInt64))])
		}
		return Int64(g.Rng.Int63n(1<<40) - 1<<39)
	case "float32":
		if h {
			return Float32(HostileFloat32[g.Rng.Intn(len(HostileFloat32))])
		}
		return Float32(float32(g.Rng.NormFloat64() * 100))
	case "float64":
		if h {
			if g.Rng.Intn(4) == 0 {
				return Float64(math.Float64frombits(g.Rng.Uint64()))
			}
			return Float64(HostileFloat64[g.Rng.Intn(len(HostileFloat64))])
		}
		return Float64(g.Rng.NormFloat64() * 1000)
	case "bool":
		return Bool(g.Rng.Intn(2) == 0)
	case "string":
		s := g.str()
		if !utf8.ValidString(s) {
			s = "s"
		}
		return String(s)
	case "bytes":
		return &Value{Kind: KBytes, S: g.bytes()}
	}
	panic("bad primitive " + p)
}

// ---------------------------------------------------------------------------------------------
// shrinking and signatures

// Simplest returns the most boring value of a type.
func Simplest(s *corpus.Schema, t corpus.TypeExpr, depth int) *Value {
	et, td := Resolve(s, t)
	if td == nil {
		switch {
		case et.Prim != "":
			switch et.Prim {
			case "int32":
				return Int32(0)
			case "int64":
				return Int64(0)
			case "float32":
				return Float32(1)
			case "float64":
				return Float64(1)
			case "bool":
				return Bool(false)
			case "string":
				return String("a")
			default:
				return &Value{Kind: KBytes, S: "a"}
			}
		case et.Array != nil:
			return &Value{Kind: KArray}
		default:
			return &Value{Kind: KMap, Entries: map[string]*Value{}}
		}
	}
	switch td.Kind {
	case "enum":
		return &Value{Kind: KEnum, S: td.Symbols[0]}
	case "fixed":
		return &Value{Kind: KFixed, S: strings.Repeat("a", td.Size)}
	case "union":
		if len(td.Members) == 0 || depth > 6 {
			return &Value{Kind: KUnion}
		}
		return &Value{Kind: KUnion, Alias: td.Members[0].Alias, Member: Simplest(s, td.Members[0].Type, depth+1)}
	default:
		rt := td
		if td.Kind == "complexkey" {
			rt = s.Lookup(td.Key)
		}
		v := &Value{Kind: KRecord, Fields: map[string]*Value{}}
		for _, f := range s.AllFields(rt) {
			if f.Optional || f.Default != nil {
				continue
			}
			v.Fields[f.Name] = Simplest(s, f.Type, depth+1)
		}
		return v
	}
}

// Shrink greedily simplifies v (of type t) while fails(v) stays true.
func Shrink(s *corpus.Schema, t corpus.TypeExpr, v *Value, fails func(*Value) bool) *Value {
	cur := Clone(v)
	budget := 400
	for changed := true; changed && budget > 0; {
		changed = false
		for _, cand := range candidates(s, t, cur) {
			budget--
			if budget <= 0 {
				break
			}
			if !Equal(cand, cur) && fails(cand) {
				cur = cand
				changed = true
				break
			}
		}
	}
	return cur
}

// candidates lists one-step simplifications of v anywhere in the tree.
func candidates(s *corpus.Schema, t corpus.TypeExpr, v *Value) []*Value {
	var out []*Value
	if v == nil {
		return nil
	}
	simple := Simplest(s, t, 0)
	if !Equal(simple, v) {
		out = append(out, simple)
	}
	et, td := Resolve(s, t)
	switch v.Kind {
	case KString, KBytes:
		if len(v.S) > 1 {
			// halves, then single characters
			out = append(out, &Value{Kind: v.Kind, S: v.S[:len(v.S)/2]}, &Value{Kind: v.Kind, S: v.S[len(v.S)/2:]})
			rs := []rune(v.S)
			if v.Kind == KString && len(rs) > 1 && len(rs) <= 16 {
				for _, r := range rs {
					out = append(out, &Value{Kind: v.Kind, S: string(r)})
				}
			}
			if v.Kind == KBytes && len(v.S) <= 16 {
				for i := 0; i < len(v.S); i++ {
					out = append(out, &Value{Kind: v.Kind, S: v.S[i : i+1]})
				}
			}
		}
	case KFixed:
		for i := 0; i < len(v.S); i++ {
			if v.S[i] != 'a' {
				b := []byte(v.S)
				b[i] = 'a'
				out = append(out, &Value{Kind: KFixed, S: string(b)})
			}
		}
	case KArray:
		for i := range v.Elems {
			c := Clone(v)
			c.Elems = append(c.Elems[:i], c.Elems[i+1:]...)
			out = append(out, c)
		}
		for i := range v.Elems {
			for _, sub := range candidates(s, *et.Array, v.Elems[i]) {
				c := Clone(v)
				c.Elems[i] = sub
				out = append(out, c)
			}
		}
	case KMap:
		for k := range v.Entries {
			c := Clone(v)
			delete(c.Entries, k)
			out = append(out, c)
		}
		for k, e := range v.Entries {
			if k != "a" {
				if _, taken := v.Entries["a"]; !taken {
					c := Clone(v)
					delete(c.Entries, k)
					c.Entries["a"] = Clone(e)
					out = append(out, c)
				}
				if rs := []rune(k); len(rs) > 1 {
					for _, r := range rs {
						if _, taken := v.Entries[string(r)]; !taken {
							c := Clone(v)
							delete(c.Entries, k)
							c.Entries[string(r)] = Clone(e)
							out = append(out, c)
						}
					}
				}
			}
			for _, sub := range candidates(s, *et.Map, e) {
				c := Clone(v)
				c.Entries[k] = sub
				out = append(out, c)
			}
		}
	case KUnion:
		if td != nil && v.Alias != "" {
			for _, m := range td.Members {
				if m.Alias == v.Alias {
					for _, sub := range candidates(s, m.Type, v.Member) {
						c := Clone(v)
						c.Member = sub
						out = append(out, c)
					}
				}
			}
		}
	case KRecord:
		rt := td
		if td != nil && td.Kind == "complexkey" {
			rt = s.Lookup(td.Key)
			if v.Fields["$params"] != nil {
				c := Clone(v)
				delete(c.Fields, "$params")
				out = append(out, c)
			}
		}
		if rt != nil {
			for _, f := range s.AllFields(rt) {
				fv := v.Fields[f.Name]
				if fv == nil {
					continue
				}
				if f.Optional || f.Default != nil {
					c := Clone(v)
					delete(c.Fields, f.Name)
					out = append(out, c)
				}
				for _, sub := range candidates(s, f.Type, fv) {
					c := Clone(v)
					c.Fields[f.Name] = sub
					out = append(out, c)
				}
			}
		}
	}
	return out
}

// Feature describes the first non-boring leaf of a (shrunk) value: position kind + content class.  It is the
// "minimal offending feature" used in violation signatures.
func Feature(s *corpus.Schema, t corpus.TypeExpr, v *Value) string {
	f := feature(s, t, v, "top")
	if f == "" {
		return "plain"
	}
	return f
}

func feature(s *corpus.Schema, t corpus.TypeExpr, v *Value, pos string) string {
	if v == nil {
		return ""
	}
	et, td := Resolve(s, t)
	switch v.Kind {
	case KString:
		if v.S != "a" {
			return pos + ":string:" + CharClass(v.S)
		}
	case KBytes:
		if v.S != "a" {
			return pos + ":bytes:" + CharClass(v.S)
		}
	case KFixed:
		if strings.Trim(v.S, "a") != "" {
			return pos + ":fixed:" + CharClass(strings.Trim(v.S, "a"))
		}
	case KInt32, KInt64:
		if v.I != 0 {
			return pos + ":" + string(v.Kind) + ":" + intClass(v.I)
		}
	case KFloat32, KFloat64:
		if v.F != 1 {
			return pos + ":" + string(v.Kind) + ":" + floatClass(v.F)
		}
	case KEnum:
		if td != nil && v.S != td.Symbols[0] {
			return pos + ":enum"
		}
	case KBool:
		if v.B {
			return pos + ":bool"
		}
	case KArray:
		for _, e := range v.Elems {
			if f := feature(s, *et.Array, e, "array-item"); f != "" {
				return f
			}
		}
		if len(v.Elems) > 0 {
			return fmt.Sprintf("%s:array-of-%d", pos, len(v.Elems))
		}
	case KMap:
		for _, k := range keysOf(v.Entries) {
			if k != "a" {
				return "map-key:string:" + CharClass(k)
			}
			if f := feature(s, *et.Map, v.Entries[k], "map-value"); f != "" {
				return f
			}
		}
		if len(v.Entries) > 0 {
			return fmt.Sprintf("%s:map-of-%d", pos, len(v.Entries))
		}
	case KUnion:
		if v.Alias == "" {
			return pos + ":null-union"
		}
		if td != nil {
			for i, m := range td.Members {
				if m.Alias == v.Alias {
					if f := feature(s, m.Type, v.Member, "union-member"); f != "" {
						return f
					}
					if i != 0 {
						return pos + ":union-member-" + typeShape(s, m.Type)
					}
				}
			}
		}
	case KRecord:
		rt := td
		if td != nil && td.Kind == "complexkey" {
			rt = s.Lookup(td.Key)
			if p := v.Fields["$params"]; p != nil {
				return "complexkey-params"
			}
		}
		if rt != nil {
			for _, f := range s.AllFields(rt) {
				fv := v.Fields[f.Name]
				if fv == nil {
					continue
				}
				p := "field"
				if f.Optional {
					p = "optional-field"
				} else if f.Default != nil {
					p = "defaulted-field"
				}
				if ft := feature(s, f.Type, fv, p); ft != "" {
					return ft
				}
				if f.Optional || f.Default != nil {
					return p + ":present:" + typeShape(s, f.Type)
				}
			}
		}
	}
	return ""
}

func typeShape(s *corpus.Schema, t corpus.TypeExpr) string {
	et, td := Resolve(s, t)
	switch {
	case td != nil:
		return td.Kind
	case et.Prim != "":
		return et.Prim
	case et.Array != nil:
		return "array"
	default:
		return "map"
	}
}

// CharClass names the class of the (minimal) offending text.
func CharClass(sv string) string {
	if sv == "" {
		return "empty"
	}
	if !utf8.ValidString(sv) {
		return "invalid-utf8"
	}
	rs := []rune(sv)
	if len(rs) == 1 {
		r := rs[0]
		switch {
		case r < 0x20:
			return fmt.Sprintf("control-U+%04X", r)
		case r == 0x7f:
			return "DEL"
		case r < 0x80:
			if (r >= 'a' && r <= 'z') || (r >= 'A' && r <= 'Z') || (r >= '0' && r <= '9') {
				return "alnum"
			}
			return "char-" + string(r)
		case r <= 0xff:
			return "latin1-U+0080..00FF"
		case r > 0xffff:
			return "non-BMP"
		default:
			return "non-ASCII"
		}
	}
	switch sv {
	case "''", "()", "List(", "List()", "..", "//", "%25", "%2F", "%zz", "\r\n":
		return "text-" + sv
	}
	if len(sv) > 64 {
		return "long-text"
	}
	return "text"
}

func intClass(i int64) string {
	switch {
	case i == math.MaxInt64 || i == math.MinInt64 || i == math.MaxInt32 || i == math.MinInt32:
		return "extreme"
	case i > 1<<53 || i < -(1<<53):
		return "beyond-2^53"
	case i < 0:
		return "negative"
	}
	return "positive"
}

func floatClass(f float64) string {
	a := math.Abs(f)
	switch {
	case f != f:
		return "NaN"
	case math.IsInf(f, 0):
		return "Inf"
	case f == 0 && math.Signbit(f):
		return "negative-zero"
	case f == 0:
		return "zero"
	case a >= 1e21:
		return ">=1e21"
	case a < 1e-6:
		return "<1e-6"
	case a >= 1<<63:
		return ">=2^63"
	case f == math.Trunc(f):
		return "integral"
	}
	return "fraction"
}
