package model

import (
	"fmt"
	"math"
	"sort"

	"verifh/corpus"
)

// Mutation is a copy of a value that differs from the original at exactly one position.
type Mutation struct {
	Value *Value
	Kind  string // what was changed
	// SameUnderEquals: the statement treats original and mutant as equal (+0 vs -0; nil vs empty is handled by
	// the builder, not here).
	SameUnderEquals bool
}

// Mutations lists every single-position mutation of v (of type t).
func Mutations(s *corpus.Schema, t corpus.TypeExpr, v *Value) []Mutation {
	var out []Mutation
	mutations(s, t, v, func(m *Value, kind string, same bool) {
		out = append(out, Mutation{m, kind, same})
	}, 0)
	return out
}

func mutations(s *corpus.Schema, t corpus.TypeExpr, v *Value, emit func(*Value, string, bool), depth int) {
	if v == nil || depth > 6 {
		return
	}
	et, td := Resolve(s, t)
	with := func(f func(c *Value)) *Value { c := Clone(v); f(c); return c }
	switch v.Kind {
	case KInt32:
		if v.I != math.MaxInt32 {
			emit(with(func(c *Value) { c.I++ }), "int+1", false)
		} else {
			emit(with(func(c *Value) { c.I-- }), "int-1", false)
		}
	case KInt64:
		if v.I != math.MaxInt64 {
			emit(with(func(c *Value) { c.I++ }), "int+1", false)
		} else {
			emit(with(func(c *Value) { c.I-- }), "int-1", false)
		}
	case KFloat32, KFloat64:
		if v.F == 0 {
			emit(with(func(c *Value) { c.F = math.Copysign(0, -1) * math.Copysign(1, v.F) * -1; c.F = negZeroFlip(v.F) }), "zero-sign", true)
			emit(with(func(c *Value) { c.F = 1 }), "float-changed", false)
		} else if v.F == v.F && !math.IsInf(v.F, 0) {
			if v.Kind == KFloat32 {
				emit(with(func(c *Value) { c.F = float64(math.Nextafter32(float32(v.F), float32(math.Inf(1)))) }), "float-ulp", false)
			} else {
				emit(with(func(c *Value) { c.F = math.Nextafter(v.F, math.Inf(1)) }), "float-ulp", false)
			}
		}
	case KBool:
		emit(with(func(c *Value) { c.B = !c.B }), "bool-flip", false)
	case KString:
		emit(with(func(c *Value) { c.S += "x" }), "string-append", false)
		if len(v.S) > 0 && v.S[len(v.S)-1] < 0x80 {
			emit(with(func(c *Value) { c.S = c.S[:len(c.S)-1] + string(rune(c.S[len(c.S)-1]^1)) }), "string-last-byte", false)
		}
	case KBytes:
		emit(with(func(c *Value) { c.S += "\x00" }), "bytes-append-nul", false)
		if len(v.S) > 0 {
			emit(with(func(c *Value) { b := []byte(c.S); b[0] ^= 0x80; c.S = string(b) }), "bytes-flip-bit", false)
		}
	case KFixed:
		if len(v.S) > 0 {
			emit(with(func(c *Value) { b := []byte(c.S); b[len(b)-1] ^= 1; c.S = string(b) }), "fixed-flip-bit", false)
		}
	case KEnum:
		if td != nil && len(td.Symbols) > 1 {
			for _, sym := range td.Symbols {
				if sym != v.S {
					sym := sym
					emit(with(func(c *Value) { c.S = sym }), "enum-symbol", false)
					break
				}
			}
		}
	case KArray:
		elemT := *et.Array
		emit(with(func(c *Value) { c.Elems = append(c.Elems, Simplest(s, elemT, 0)) }), "array-append", false)
		if len(v.Elems) > 0 {
			emit(with(func(c *Value) { c.Elems = c.Elems[:len(c.Elems)-1] }), "array-drop-last", false)
		}
		if len(v.Elems) > 1 && !Equal(plusZero(v.Elems[0]), plusZero(v.Elems[1])) { // -0 and +0 are equal values: swapping them changes nothing
			emit(with(func(c *Value) { c.Elems[0], c.Elems[1] = c.Elems[1], c.Elems[0] }), "array-swap", false)
		}
		for i, e := range v.Elems {
			i := i
			mutations(s, elemT, e, func(m *Value, kind string, same bool) {
				emit(with(func(c *Value) { c.Elems[i] = m }), "array-item/"+kind, same)
			}, depth+1)
		}
	case KMap:
		valT := *et.Map
		if _, taken := v.Entries["~extra"]; !taken {
			emit(with(func(c *Value) { c.Entries["~extra"] = Simplest(s, valT, 0) }), "map-add-key", false)
		}
		for _, k := range keysOf(v.Entries) { // sorted: the case list must not depend on Go's map iteration order
			k, e := k, v.Entries[k]
			emit(with(func(c *Value) { delete(c.Entries, k) }), "map-drop-key", false)
			if _, taken := v.Entries[k+"~"]; !taken {
				emit(with(func(c *Value) { c.Entries[k+"~"] = c.Entries[k]; delete(c.Entries, k) }), "map-rename-key", false)
			}
			mutations(s, valT, e, func(m *Value, kind string, same bool) {
				emit(with(func(c *Value) { c.Entries[k] = m }), "map-value/"+kind, same)
			}, depth+1)
			break // one entry is enough for the nested mutations; add/drop/rename above cover structure
		}
	case KUnion:
		if td == nil {
			return
		}
		for _, m := range td.Members {
			if m.Alias != v.Alias {
				m := m
				emit(with(func(c *Value) { c.Alias = m.Alias; c.Member = Simplest(s, m.Type, 0) }), "union-other-member", false)
				break
			}
		}
		if v.Alias != "" {
			if td.HasNull {
				emit(with(func(c *Value) { c.Alias = ""; c.Member = nil }), "union-to-null", false)
			}
			for _, m := range td.Members {
				if m.Alias == v.Alias {
					mutations(s, m.Type, v.Member, func(mv *Value, kind string, same bool) {
						emit(with(func(c *Value) { c.Member = mv }), "union-member/"+kind, same)
					}, depth+1)
				}
			}
		}
	case KRecord:
		rt := td
		if td != nil && td.Kind == "complexkey" {
			rt = s.Lookup(td.Key)
			if p := v.Fields["$params"]; p != nil {
				emit(with(func(c *Value) { delete(c.Fields, "$params") }), "complexkey-drop-params", false)
				mutations(s, corpus.R(td.Params), p, func(m *Value, kind string, same bool) {
					emit(with(func(c *Value) { c.Fields["$params"] = m }), "complexkey-params/"+kind, same)
				}, depth+1)
			} else {
				emit(with(func(c *Value) { c.Fields["$params"] = Simplest(s, corpus.R(td.Params), 0) }), "complexkey-add-params", false)
			}
		}
		if rt == nil {
			return
		}
		for _, f := range s.AllFields(rt) {
			f := f
			fv := v.Fields[f.Name]
			optional := f.Optional || f.Default != nil
			if fv == nil {
				if optional {
					// unset vs zero optional
					emit(with(func(c *Value) { c.Fields[f.Name] = zeroOf(s, f.Type) }), "optional-set-to-zero", false)
				}
				continue
			}
			if optional {
				emit(with(func(c *Value) { delete(c.Fields, f.Name) }), "optional-unset", false)
			}
			mutations(s, f.Type, fv, func(m *Value, kind string, same bool) {
				emit(with(func(c *Value) { c.Fields[f.Name] = m }), "field/"+kind, same)
			}, depth+1)
		}
	}
}

// plusZero returns a copy of v in which every -0 is +0.
func plusZero(v *Value) *Value {
	c := Clone(v)
	var walk func(x *Value)
	walk = func(x *Value) {
		if x == nil {
			return
		}
		if (x.Kind == KFloat32 || x.Kind == KFloat64) && x.F == 0 {
			x.F = 0
		}
		for _, e := range x.Elems {
			walk(e)
		}
		for _, e := range x.Entries {
			walk(e)
		}
		for _, e := range x.Fields {
			walk(e)
		}
		walk(x.Member)
	}
	walk(c)
	return c
}

func negZeroFlip(f float64) float64 {
	if math.Signbit(f) {
		return 0
	}
	return math.Copysign(0, -1)
}

// zeroOf is the zero-like value of a type (0, "", false, empty containers, first symbol, null/first union member).
func zeroOf(s *corpus.Schema, t corpus.TypeExpr) *Value {
	et, td := Resolve(s, t)
	if td == nil {
		switch {
		case et.Prim != "":
			switch et.Prim {
			case "int32":
				return Int32(0)
			case "int64":
				return Int64(0)
			case "float32":
				return Float32(0)
			case "float64":
				return Float64(0)
			case "bool":
				return Bool(false)
			case "string":
				return String("")
			default:
				return &Value{Kind: KBytes}
			}
		case et.Array != nil:
			return &Value{Kind: KArray}
		default:
			return &Value{Kind: KMap, Entries: map[string]*Value{}}
		}
	}
	return Simplest(s, t, 0)
}

// GrowFirstMap duplicates entries of the first non-empty map found in v (depth first, fields in name order) under fresh
// keys until that map has n entries; it reports whether a map was found.
func GrowFirstMap(v *Value, n int) bool {
	if v == nil {
		return false
	}
	switch v.Kind {
	case KMap:
		keys := make([]string, 0, len(v.Entries))
		for k := range v.Entries {
			keys = append(keys, k)
		}
		sort.Strings(keys)
		if len(keys) > 0 {
			for i := 0; len(v.Entries) < n; i++ {
				// key order and insertion order disagree on purpose
				v.Entries[fmt.Sprintf("g%04d", (i*7919)%100000+i)] = Clone(v.Entries[keys[i%len(keys)]])
			}
			return true
		}
	case KArray:
		for _, e := range v.Elems {
			if GrowFirstMap(e, n) {
				return true
			}
		}
	case KRecord:
		names := make([]string, 0, len(v.Fields))
		for k := range v.Fields {
			names = append(names, k)
		}
		sort.Strings(names)
		for _, k := range names {
			if GrowFirstMap(v.Fields[k], n) {
				return true
			}
		}
	case KUnion:
		return GrowFirstMap(v.Member, n)
	}
	return false
}

// AddKeysToFirstMap adds entries under the given keys (clones of an existing entry) to the first non-empty map found
// in v, in the traversal order of GrowFirstMap.
func AddKeysToFirstMap(v *Value, keys []string) bool {
	if v == nil {
		return false
	}
	switch v.Kind {
	case KMap:
		have := make([]string, 0, len(v.Entries))
		for k := range v.Entries {
			have = append(have, k)
		}
		sort.Strings(have)
		if len(have) > 0 {
			for i, k := range keys {
				if _, taken := v.Entries[k]; !taken {
					v.Entries[k] = Clone(v.Entries[have[i%len(have)]])
				}
			}
			return true
		}
	case KArray:
		for _, e := range v.Elems {
			if AddKeysToFirstMap(e, keys) {
				return true
			}
		}
	case KRecord:
		names := make([]string, 0, len(v.Fields))
		for k := range v.Fields {
			names = append(names, k)
		}
		sort.Strings(names)
		for _, k := range names {
			if AddKeysToFirstMap(v.Fields[k], keys) {
				return true
			}
		}
	case KUnion:
		return AddKeysToFirstMap(v.Member, keys)
	}
	return false
}
