// Package model holds abstract values of schema types — generated from the schema by this code, never by
// the library — and the statement's notion of equality.  It imports nothing from go-restli.
package model

import (
	"fmt"
	"math"
	"sort"
	"strings"

	"verifh/corpus"
)

type Kind string

const (
	KInt32   Kind = "int32"
	KInt64   Kind = "int64"
	KFloat32 Kind = "float32"
	KFloat64 Kind = "float64"
	KBool    Kind = "bool"
	KString  Kind = "string"
	KBytes   Kind = "bytes"
	KEnum    Kind = "enum"
	KFixed   Kind = "fixed"
	KRecord  Kind = "record"
	KUnion   Kind = "union"
	KArray   Kind = "array"
	KMap     Kind = "map"
)

// Value is an abstract value.  A nil *Value means "absent" (unset optional / defaulted field).
type Value struct {
	Kind    Kind              `json:"k"`
	I       int64             `json:"i,omitempty"`
	F       float64           `json:"-"`
	FBits   string            `json:"f,omitempty"` // printable float (for replay files)
	B       bool              `json:"b,omitempty"`
	S       string            `json:"s,omitempty"` // string, enum symbol ("" = unknown enum), raw bytes of bytes/fixed
	Fields  map[string]*Value `json:"fields,omitempty"`
	Alias   string            `json:"alias,omitempty"` // union member alias; "" = no member set (null)
	Member  *Value            `json:"member,omitempty"`
	Elems   []*Value          `json:"elems,omitempty"`
	Entries map[string]*Value `json:"entries,omitempty"`
	EnumOrd int               `json:"ord,omitempty"` // raw constant for enums built with an illegal constant (C11)
}

func Int32(v int32) *Value     { return &Value{Kind: KInt32, I: int64(v)} }
func Int64(v int64) *Value     { return &Value{Kind: KInt64, I: v} }
func Float32(v float32) *Value { return &Value{Kind: KFloat32, F: float64(v), FBits: fmt.Sprint(v)} }
func Float64(v float64) *Value { return &Value{Kind: KFloat64, F: v, FBits: fmt.Sprint(v)} }
func Bool(v bool) *Value       { return &Value{Kind: KBool, B: v} }
func String(v string) *Value   { return &Value{Kind: KString, S: v} }
func Bytes(v []byte) *Value    { return &Value{Kind: KBytes, S: string(v)} }

// Equal is the statement's deep structural equality: floats by bit pattern except NaN matches NaN; nil and
// empty bytes / arrays / maps are the same value; absent fields only equal absent fields.
func Equal(a, b *Value) bool { return Diff(a, b, "") == "" }

// Diff returns "" when equal, otherwise a path-qualified description of the first difference.
func Diff(a, b *Value, path string) string {
	if a == nil || b == nil {
		if a == b {
			return ""
		}
		return fmt.Sprintf("%s: %s vs %s", path, Show(a), Show(b))
	}
	if a.Kind != b.Kind {
		return fmt.Sprintf("%s: kind %s vs %s", path, a.Kind, b.Kind)
	}
	switch a.Kind {
	case KInt32, KInt64:
		if a.I != b.I {
			return fmt.Sprintf("%s: %d vs %d", path, a.I, b.I)
		}
	case KFloat32:
		x, y := float32(a.F), float32(b.F)
		if !(math.Float32bits(x) == math.Float32bits(y) || (x != x && y != y)) {
			return fmt.Sprintf("%s: %v vs %v (bits %x vs %x)", path, x, y, math.Float32bits(x), math.Float32bits(y))
		}
	case KFloat64:
		if !(math.Float64bits(a.F) == math.Float64bits(b.F) || (a.F != a.F && b.F != b.F)) {
			return fmt.Sprintf("%s: %v vs %v (bits %x vs %x)", path, a.F, b.F, math.Float64bits(a.F), math.Float64bits(b.F))
		}
	case KBool:
		if a.B != b.B {
			return fmt.Sprintf("%s: %v vs %v", path, a.B, b.B)
		}
	case KString, KBytes, KFixed, KEnum:
		if a.S != b.S {
			return fmt.Sprintf("%s: %q vs %q", path, a.S, b.S)
		}
	case KRecord:
		keys := map[string]bool{}
		for k := range a.Fields {
			keys[k] = true
		}
		for k := range b.Fields {
			keys[k] = true
		}
		var ks []string
		for k := range keys {
			ks = append(ks, k)
		}
		sort.Strings(ks)
		for _, k := range ks {
			if d := Diff(a.Fields[k], b.Fields[k], path+"."+k); d != "" {
				return d
			}
		}
	case KUnion:
		if a.Alias != b.Alias {
			return fmt.Sprintf("%s: union member %q vs %q", path, a.Alias, b.Alias)
		}
		if a.Alias != "" {
			return Diff(a.Member, b.Member, path+"<"+a.Alias+">")
		}
	case KArray:
		if len(a.Elems) != len(b.Elems) {
			return fmt.Sprintf("%s: array length %d vs %d", path, len(a.Elems), len(b.Elems))
		}
		for i := range a.Elems {
			if d := Diff(a.Elems[i], b.Elems[i], fmt.Sprintf("%s[%d]", path, i)); d != "" {
				return d
			}
		}
	case KMap:
		if len(a.Entries) != len(b.Entries) {
			return fmt.Sprintf("%s: map size %d vs %d (keys %q vs %q)", path, len(a.Entries), len(b.Entries), keysOf(a.Entries), keysOf(b.Entries))
		}
		for k, v := range a.Entries {
			w, ok := b.Entries[k]
			if !ok {
				return fmt.Sprintf("%s: map key %q missing (other side has %q)", path, k, keysOf(b.Entries))
			}
			if d := Diff(v, w, fmt.Sprintf("%s[%q]", path, k)); d != "" {
				return d
			}
		}
	}
	return ""
}

func keysOf(m map[string]*Value) []string {
	var ks []string
	for k := range m {
		ks = append(ks, k)
	}
	sort.Strings(ks)
	return ks
}

// Show renders a value compactly for evidence samples and replay files.
func Show(v *Value) string {
	if v == nil {
		return "<absent>"
	}
	switch v.Kind {
	case KInt32, KInt64:
		return fmt.Sprint(v.I)
	case KFloat32:
		return fmt.Sprintf("%vf", float32(v.F))
	case KFloat64:
		return fmt.Sprint(v.F)
	case KBool:
		return fmt.Sprint(v.B)
	case KString:
		return fmt.Sprintf("%q", v.S)
	case KBytes, KFixed:
		return fmt.Sprintf("b%q", v.S)
	case KEnum:
		if v.S == "" {
			return fmt.Sprintf("enum#%d", v.EnumOrd)
		}
		return v.S
	case KRecord:
		var parts []string
		for _, k := range keysOf(v.Fields) {
			parts = append(parts, k+":"+Show(v.Fields[k]))
		}
		return "{" + strings.Join(parts, " ") + "}"
	case KUnion:
		if v.Alias == "" {
			return "union<null>"
		}
		return "union<" + v.Alias + ">" + Show(v.Member)
	case KArray:
		var parts []string
		for _, e := range v.Elems {
			parts = append(parts, Show(e))
		}
		return "[" + strings.Join(parts, " ") + "]"
	case KMap:
		var parts []string
		for _, k := range keysOf(v.Entries) {
			parts = append(parts, fmt.Sprintf("%q=%s", k, Show(v.Entries[k])))
		}
		return "map[" + strings.Join(parts, " ") + "]"
	}
	return "?"
}

// HasNaN tells whether the value contains a NaN anywhere (the type's own Equals is then not claimed).
func HasNaN(v *Value) bool {
	if v == nil {
		return false
	}
	switch v.Kind {
	case KFloat32, KFloat64:
		return v.F != v.F
	case KRecord:
		for _, f := range v.Fields {
			if HasNaN(f) {
				return true
			}
		}
	case KUnion:
		return HasNaN(v.Member)
	case KArray:
		for _, e := range v.Elems {
			if HasNaN(e) {
				return true
			}
		}
	case KMap:
		for _, e := range v.Entries {
			if HasNaN(e) {
				return true
			}
		}
	}
	return false
}

// Clone deep-copies a value.
func Clone(v *Value) *Value {
	if v == nil {
		return nil
	}
	c := *v
	if v.Fields != nil {
		c.Fields = map[string]*Value{}
		for k, f := range v.Fields {
			c.Fields[k] = Clone(f)
		}
	}
	c.Member = Clone(v.Member)
	if v.Elems != nil {
		c.Elems = make([]*Value, len(v.Elems))
		for i, e := range v.Elems {
			c.Elems[i] = Clone(e)
		}
	}
	if v.Entries != nil {
		c.Entries = map[string]*Value{}
		for k, e := range v.Entries {
			c.Entries[k] = Clone(e)
		}
	}
	return &c
}

// Resolve follows typerefs: returns the effective type expression and the named definition (enum / fixed /
// record / union / complexkey) if the expression is a reference to one.
func Resolve(s *corpus.Schema, t corpus.TypeExpr) (corpus.TypeExpr, *corpus.TypeDef) {
	for t.Ref != "" {
		td := s.Lookup(t.Ref)
		if td == nil {
			panic("unknown type " + t.Ref)
		}
		if td.Kind == "typeref" {
			t = corpus.P(td.Prim)
			continue
		}
		return t, td
	}
	return t, nil
}
