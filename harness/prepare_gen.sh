#!/bin/bash
# usage: prepare_gen.sh <nsets>   (run inside the harness work copy; needs $VERIF_GEN_BIN, $VERIF_SEED, $VERIF_REPO)
# Writes the corpus (manifests, registries) and runs the real generator, one child process per schema set.
set -eu
NSETS="${1:-6}"; MAXTYPES="${2:-12}"
cd "$(dirname "$0")"
rm -rf gen; mkdir -p gen
SETS=$(go run ./cmd/corpusgen -out gen -seed "$VERIF_SEED" -sets "$NSETS" -maxtypes "$MAXTYPES")
DEP="$VERIF_REPO/v2/restlidata/generated/go-restli-manifest.gr.json"
fail=0
for s in $SETS; do
  ( "$VERIF_GEN_BIN" "gen/$s" "gen/$s/manifest.in.json" "$DEP" > "gen/$s/gen.log" 2>&1 || { echo "generator failed on set $s:"; tail -15 "gen/$s/gen.log"; exit 1; } ) &
done
for j in $(jobs -p); do wait "$j" || fail=1; done
# root-module (v1) bindings of the same schema sets (types only), when the driver asked for them (NEEDS_GEN1)
if [ -n "${VERIF_GEN1_BIN:-}" ]; then
  rm -rf genr; mkdir -p genr
  RSETS=$(go run ./cmd/corpusgen -rootgen -out genr -root verifh/genr -seed "$VERIF_SEED" -sets "$NSETS" -maxtypes "$MAXTYPES")
  for s in $RSETS; do
    ( "$VERIF_GEN1_BIN" "genr/$s" "verifh/genr/$s" "genr/$s/manifest.in.json" > "genr/$s/gen.log" 2>&1 || { echo "root generator failed on set $s:"; tail -15 "genr/$s/gen.log"; exit 1; } ) &
  done
  for j in $(jobs -p); do wait "$j" || fail=1; done
fi
exit $fail
