// Generation-specific body of the C01 driver; props/c01/gen1 is derived from this file (derive.sh).
package gen2

import (
	"fmt"
	"math/rand"
	"os"
	"reflect"
	"sort"
	"strings"
	"sync"

	"verifh/bridge"
	codec "verifh/codec"
	"verifh/corpus"
	"verifh/ev"
	all "verifh/gen/all"
	"verifh/model"
	"verifh/refcodec"
)

const GENERATION = "v2"

type outcome struct {
	phase  string // "" = held
	detail string
	doc    string
}

// roundTrip runs one (type, value, format) execution.
func roundTrip(set *bridge.Set, full string, v *model.Value, f codec.Format) outcome {
	t := corpus.R(full)
	p, err := codec.BuildGo(set, full, v)
	if err != nil {
		return outcome{"harness-build", err.Error(), ""}
	}
	doc, err := codec.Encode(f, p)
	if err != nil {
		if pe, ok := err.(*codec.PanicError); ok {
			return outcome{"encode-panic", pe.Value + " @ " + pe.Frame, ""}
		}
		return outcome{"encode-error", err.Error(), ""}
	}
	q, err := codec.Decode(f, set, full, doc)
	if err != nil {
		if pe, ok := err.(*codec.PanicError); ok {
			return outcome{"decode-panic", pe.Value + " @ " + pe.Frame, doc}
		}
		return outcome{"decode-error", err.Error(), doc}
	}
	w, err := set.Read(q.Elem(), t)
	if err != nil {
		return outcome{"harness-read", err.Error(), doc}
	}
	want := refcodec.FillDefaults(set.Schema, t, v)
	if d := model.Diff(want, w, ""); d != "" {
		return outcome{"value-differs", d, doc}
	}
	if !model.HasNaN(v) {
		// the type's own Equals, both ways, against the original filled with defaults
		orig, err := codec.BuildGo(set, full, want)
		if err == nil {
			for _, pair := range [][2]reflect.Value{{orig, q}, {q, orig}} {
				eq, err := codec.Equals(pair[0], pair[1])
				if err != nil {
					if _, ok := err.(*codec.PanicError); ok {
						return outcome{"equals-panic", err.Error(), doc}
					}
					break
				}
				if !eq {
					return outcome{"equals-false", "Equals(original, decoded) = false although structurally equal", doc}
				}
			}
		}
	}
	return outcome{}
}

func trunc(s string) string {
	if len(s) > 300 {
		return s[:300] + fmt.Sprintf("...(%d bytes)", len(s))
	}
	return s
}

func Run(run *ev.Run) {
	run.Rule("case = (schema set, named type, abstract value, wire format); values are drawn from the schema by the harness (uniform + hostile pools; a fixed sweep puts every code point U+0000-U+00FF and every byte 0x00-0xFF " +
		"into every string-/bytes-bearing position kind: field, array item, map value, map key, union member); each case is encoded by the library, decoded by the matching reader and compared with the original after filling defaults " +
		"(floats by bit pattern, NaN~NaN, nil~empty) and with the type's own Equals. distinct_nontrivial = distinct (format, position kind, leaf kind, content class) features observed in round-tripped values that contain a hostile leaf")
	run.Assume("reflection bridge (self-checked at start: Read(Build(v)) == v)", "strings that are not valid UTF-8 are kept out of string-typed positions", "both generations: the root module through types-only bindings written by its own generator")
	rng := rand.New(rand.NewSource(run.Seed))
	perType := run.Pick(150, 1500)
	if len(all.Sets) == 0 {
		run.Inconclusive("no generated schema sets")
		return
	}
	for _, set := range all.Sets {
		if err := set.SelfCheck(model.NewGen(set.Schema, rand.New(rand.NewSource(run.Seed+7))), 20); err != nil {
			run.Inconclusive("bridge self-check failed on set " + set.Name + ": " + err.Error())
			return
		}
	}
	type job struct {
		set  *bridge.Set
		full string
		v    *model.Value
	}
	var jobs []job
	for _, set := range all.Sets {
		g := model.NewGen(set.Schema, rng)
		for _, td := range set.Schema.Types {
			for i := 0; i < perType; i++ {
				jobs = append(jobs, job{set, td.FullName(), g.Value(corpus.R(td.FullName()), 0)})
			}
		}
		if set.Name == "ks" {
			// the fixed sweep
			for i := range model.HostileStrings {
				for _, tn := range []string{"ks.kt.Prims", "ks.kt.Containers", "ks.kt.U", "ks.kt.Refs", "ks.kt.TString", "ks.kt.TBytes", "ks.kt.F1", "ks.kt.KeyPart"} {
					g.Sweep = i
					g.Hostile = 0
					v := sweepValue(set, g, tn, i)
					g.Hostile = 0.35
					jobs = append(jobs, job{set, tn, v})
				}
			}
		}
	}
	var mu sync.Mutex
	shrinks := 0
	var wg sync.WaitGroup
	ch := make(chan job, 256)
	for w := 0; w < 14; w++ {
		wg.Add(1)
		go func() {
			defer wg.Done()
			for j := range ch {
				t := corpus.R(j.full)
				for _, f := range codec.Formats {
					run.Eval(1)
					o := roundTrip(j.set, j.full, j.v, f)
					run.Count("roundtrips."+f.Name, 1)
					if o.phase == "" {
						ft := model.Feature(j.set.Schema, t, j.v)
						if ft != "plain" {
							run.Distinct(f.Name + "|" + ft)
						}
						continue
					}
					if strings.HasPrefix(o.phase, "harness") {
						run.Inconclusive("bridge failure: " + o.detail)
						continue
					}
					// shrink while the same phase of failure persists
					mu.Lock()
					shrinks++
					mu.Unlock()
					min := model.Shrink(j.set.Schema, t, j.v, func(c *model.Value) bool { return roundTrip(j.set, j.full, c, f).phase == o.phase })
					mo := roundTrip(j.set, j.full, min, f)
					sig := fmt.Sprintf(GENERATION+"/%s/%s/%s", f.Name, o.phase, model.Feature(j.set.Schema, t, min))
					run.Violation(sig, map[string]any{"generation": GENERATION, "set": j.set.Name, "type": j.full, "format": f.Name, "phase": o.phase,
						"minimal_value": model.Show(min), "minimal_document": trunc(mo.doc), "minimal_detail": trunc(mo.detail),
						"original_value": trunc(model.Show(j.v)), "original_detail": trunc(o.detail)})
				}
			}
		}()
	}
	for _, j := range jobs {
		ch <- j
	}
	close(ch)
	wg.Wait()
	// samples
	sort.Slice(jobs, func(i, k int) bool { return false })
	for i := 0; i < len(jobs) && i < 400; i += 97 {
		j := jobs[i]
		p, _ := codec.BuildGo(j.set, j.full, j.v)
		doc, _ := codec.Encode(codec.Formats[2], p)
		run.Sample(map[string]any{"set": j.set.Name, "type": j.full, "value": trunc(model.Show(j.v)), "ror2-header": trunc(doc)})
	}
	run.Set("schema_sets", len(all.Sets))
	run.Set("shrinks", shrinks)
	run.Require("roundtrips.json-compact", 1000)
	if os.Getenv("VERIF_DEBUG") != "" {
		fmt.Println("jobs", len(jobs), "shrinks", shrinks)
	}
}

// sweepValue builds a value of the named kitchen-sink type whose string-bearing positions all hold
// HostileStrings[i] (map keys included).
func sweepValue(set *bridge.Set, g *model.Gen, tn string, i int) *model.Value {
	hs := model.HostileStrings[i%len(model.HostileStrings)]
	b := string([]byte{byte(i % 256)})
	str := model.String(hs)
	byt := &model.Value{Kind: model.KBytes, S: b}
	base := model.Simplest(set.Schema, corpus.R(tn), 0)
	switch tn {
	case "ks.kt.Prims":
		base.Fields["s"] = str
		base.Fields["by"] = byt
	case "ks.kt.Containers":
		base.Fields["as"] = &model.Value{Kind: model.KArray, Elems: []*model.Value{str, model.String("a")}}
		base.Fields["ab"] = &model.Value{Kind: model.KArray, Elems: []*model.Value{byt}}
		base.Fields["ms"] = &model.Value{Kind: model.KMap, Entries: map[string]*model.Value{"k": str}}
		base.Fields["mby"] = &model.Value{Kind: model.KMap, Entries: map[string]*model.Value{"k": byt}}
		base.Fields["ml"] = &model.Value{Kind: model.KMap, Entries: map[string]*model.Value{hs: model.Simplest(set.Schema, corpus.R("ks.kt.Leaf"), 0)}}
		base.Fields["atr"] = &model.Value{Kind: model.KArray, Elems: []*model.Value{str}}
	case "ks.kt.U":
		if i%2 == 0 {
			return &model.Value{Kind: model.KUnion, Alias: "string", Member: str}
		}
		return &model.Value{Kind: model.KUnion, Alias: "bytes", Member: byt}
	case "ks.kt.Refs":
		base.Fields["tr"] = str
		base.Fields["trb"] = byt
		base.Fields["u"] = &model.Value{Kind: model.KUnion, Alias: "ks.kt.TString", Member: str}
	case "ks.kt.TString":
		return str
	case "ks.kt.TBytes":
		return byt
	case "ks.kt.F1":
		return &model.Value{Kind: model.KFixed, S: b}
	case "ks.kt.KeyPart":
		base.Fields["a"] = str
	}
	return base
}
