// C01 — codec round trip: decode(encode(v)) = v for every schema type and wire format.
//
// Reference-model monitor over encode -> decode executions of the real codecs on generated bindings:
// abstract values are built through the reflection bridge, encoded by the library in each of the five formats,
// decoded by the matching reader, read back through the bridge and compared (statement equality + the type's
// own Equals).  Violating values are shrunk and classified by their minimal offending feature.
package main

import (
	"verifh/ev"
	"verifh/props/c01/gen1"
	"verifh/props/c01/gen2"
)

func main() {
	run := ev.Start("C01")
	defer run.Guard()
	gen2.Run(run)
	gen1.Run(run)
	run.Set("generations", []string{"v2", "root"})
	run.Finish()
}
