// Generation-specific body of the C02 driver; props/c02/gen1 is derived from this file (derive.sh).
package gen2

import (
	"fmt"
	"math/rand"
	"sort"
	"strings"
	"sync"

	"verifh/bridge"
	"verifh/corpus"
	"verifh/ev"
	all "verifh/gen/all"
	"verifh/model"
	rig "verifh/rig"
)

const GENERATION = "v2"

type config struct {
	mounting  string
	threshold int
	strict    bool
}

func firstString(v *model.Value) (string, bool) {
	if v == nil {
		return "", false
	}
	switch v.Kind {
	case model.KString, model.KBytes:
		return v.S, true
	case model.KRecord:
		for _, k := range []string{"a", "p"} {
			if s, ok := firstString(v.Fields[k]); ok {
				return s, true
			}
		}
		if p := v.Fields["$params"]; p != nil {
			return firstString(p)
		}
	}
	return "", false
}

// keyFeature names the most hostile character class among the call's keys (for signatures).
func keyFeature(c *rig.Call) string {
	worst := "plain"
	rank := func(cl string) int {
		switch {
		case cl == "alnum" || cl == "plain":
			return 0
		case cl == "text" || cl == "long-text":
			return 1
		}
		return 2
	}
	consider := func(v *model.Value) {
		if s, ok := firstString(v); ok {
			cl := model.CharClass(s)
			if len([]rune(s)) > 1 {
				// name the reserved character it contains, if any
				for _, r := range "%()',:/?#;&=+. " {
					if strings.ContainsRune(s, r) {
						cl = "contains-" + string(r)
						break
					}
				}
			}
			if rank(cl) > rank(worst) {
				worst = cl
			}
		}
	}
	for _, k := range c.ParentKeys {
		consider(k)
	}
	consider(c.Key)
	for _, k := range c.Keys {
		consider(k)
	}
	names := make([]string, 0, len(c.KeyOf))
	for n := range c.KeyOf {
		names = append(names, n)
	}
	sort.Strings(names) // ties between classes of equal rank must not depend on map order
	for _, n := range names {
		consider(c.KeyOf[n])
	}
	return worst
}

func part(detail string) string {
	for _, p := range []string{"parentKey", "key", "batch keys", "entity map", "entities", "entity", "patch map", "patch", "params", "method", "elements", "paging", "metadata", "actionResult", "createdId", "create status", "created", "batch results", "results", "batch statuses", "batch errors", "errors", "batch response entry", "caller got an error"} {
		if strings.HasPrefix(detail, p) {
			return strings.ReplaceAll(p, " ", "-")
		}
	}
	return "other"
}

func Run(run *ev.Run) {
	run.Rule("case = (resource of the kitchen-sink set, method, arguments drawn with hostile keys / parameters, scripted outcome, client configuration {tunnelling threshold 0 / 1 / large, strict / lenient}, server mounting {bare, ServeMux, path prefix, prefix+ServeMux}); " +
		"each call goes through the generated client, real HTTP over loopback and the generated RegisterResource adapters; the per-request-id history must be exactly one wire exchange, exactly one invocation with equal arguments (read-only / create-only fields pruned as the protocol prescribes) and a client result equal to the scripted outcome. " +
		"distinct = distinct (resource, method, mounting, threshold, key content class)")
	run.Assume("reflection bridge + generic rig (MockResource functions are reflect.MakeFunc closures)", "control characters in keys are outside the statement's list (reserved URL and ROR2 characters, percent signs, empty strings, non-ASCII)", "v2 generation only")
	set := all.Sets[0]
	if set.Name != "ks" || len(set.Schema.Resources) == 0 {
		run.Inconclusive("kitchen-sink resources missing")
		return
	}
	if err := set.SelfCheck(model.NewGen(set.Schema, rand.New(rand.NewSource(run.Seed+7))), 5); err != nil {
		run.Inconclusive("bridge self-check failed: " + err.Error())
		return
	}
	perMethod := run.Pick(15, 150)
	var configs []config
	for _, m := range []string{"bare", "mux", "prefixed", "prefixed-mux"} {
		for _, th := range []int{0, 1, 1 << 20} {
			for _, strict := range []bool{false, true} {
				if !run.Thorough() && m != "bare" && (th == 1<<20 || strict) {
					continue
				}
				configs = append(configs, config{m, th, strict})
			}
		}
	}
	var wg sync.WaitGroup
	ch := make(chan config)
	var smu sync.Mutex
	nsamples := 0
	for w := 0; w < 8; w++ {
		wg.Add(1)
		go func(w int) {
			defer wg.Done()
			for cfg := range ch {
				runConfig(run, set, cfg, perMethod, rand.New(rand.NewSource(run.Seed*131+int64(len(cfg.mounting))*7+int64(cfg.threshold%97)+map[bool]int64{true: 1, false: 0}[cfg.strict])), &smu, &nsamples)
			}
		}(w)
	}
	for _, c := range configs {
		ch <- c
	}
	close(ch)
	wg.Wait()
	run.Set("configurations", len(configs))
	run.Require("calls", 500)
	run.Require("delivered_exactly_once", 400)
}

func runConfig(run *ev.Run, set *bridge.Set, cfg config, perMethod int, rng *rand.Rand, smu *sync.Mutex, nsamples *int) {
	// every other configuration runs behind a filter that reads the path keys before the resource method does
	srv, err := rig.NewServer(set, cfg.mounting, rig.WithKeyReadingFilter((cfg.threshold+len(cfg.mounting))%2 == 0))
	if err != nil {
		run.Inconclusive("cannot start server: " + err.Error())
		return
	}
	defer srv.Close()
	cl := rig.NewClient(set, "http://"+srv.Addr+srv.Prefix, cfg.threshold, cfg.strict)
	var mu sync.Mutex
	scripted := map[string]*rig.Outcome{}
	srv.SetScript(func(obs *rig.Observation) *rig.Outcome {
		mu.Lock()
		defer mu.Unlock()
		return scripted[obs.Call.ReqID]
	})
	g := model.NewGen(set.Schema, rng)
	g.Hostile = 0.5
	g.MaxDepth = 3
	g.MaxElems = 3
	n := 0
	// a fixed list of reserved-character keys is part of every configuration's case list
	fixedKeys := []string{"/", ".", "..", "a/b", "//", "%", "(", ")", "'", ",", ":", "100%", "%25", "%2F", "", "é", "日本", "a b", "+", "&", "=", "?", "#", ";", "''", "(a:b)", "List(x)", "a,b", "urn:li:x:(1,2)"}
	for _, res := range set.Schema.Resources {
		ep := srv.Endpoints[res.Namespace]
		for mi := range res.Methods {
			m := &res.Methods[mi]
			nFixed := 0
			if (res.Namespace == "ks.things" || res.Namespace == "ks.things.parts") && (m.Name == "get" || m.Name == "update" || m.Name == "byS" || m.Name == "touch") {
				nFixed = len(fixedKeys)
			}
			for i := 0; i < perMethod+nFixed; i++ {
				n++
				id := fmt.Sprintf("%s-%d-%v-%d", cfg.mounting, cfg.threshold, cfg.strict, n)
				call := ep.GenCall(m, g, rng)
				if i >= perMethod {
					k := model.String(fixedKeys[i-perMethod])
					if len(call.ParentKeys) > 0 {
						call.ParentKeys[0] = k
					} else if call.Key != nil {
						call.Key = k
					}
					call.Shown = call.Show()
				}
				if hasControl(call) {
					run.Count("observed_only.control_characters_in_keys", 1)
					continue
				}
				out := ep.GenOutcome(m, call, g, rng)
				if outcomeHasControlID(out) {
					run.Count("observed_only.control_characters_in_keys", 1)
					out.Release()
					continue
				}
				mu.Lock()
				scripted[id] = out
				mu.Unlock()
				run.Eval(1)
				run.Count("calls", 1)
				got, wire, err := cl.Invoke(res, m, call, id)
				obs := srv.Take(id)
				errlog := srv.TakeErrLog()
				mu.Lock()
				delete(scripted, id)
				mu.Unlock()
				desc := map[string]any{"generation": GENERATION, "mounting": cfg.mounting, "threshold": cfg.threshold, "strict": cfg.strict, "call": call.Show(), "scripted": out.Show()}
				if len(wire) > 0 {
					desc["wire"] = map[string]any{"method": wire[0].Method, "target": trunc(wire[0].Target), "status": wire[0].Status, "request_body": trunc(wire[0].Body), "response_body": trunc(wire[0].RespBody), "id_header": wire[0].RespHeader.Get("X-RestLi-Id")}
				}
				sigBase := fmt.Sprintf(GENERATION+"/%s/%s", mountClass(cfg.mounting), methodClass(m))
				feat := keyFeature(call)
				if err != nil {
					run.Inconclusive("rig: " + err.Error())
					out.Release()
					continue
				}
				desc["received"] = got.Show()
				switch {
				case got.Err != nil && got.Err.Kind == "PANIC-IN-CALLER":
					run.Violation(sigBase+"/panic-in-caller/"+feat, desc)
				case len(wire) == 1 && wire[0].Status == 301 && strings.HasSuffix(cfg.mounting, "mux"):
					// http.ServeMux cleans the decoded path and redirects before the handler runs
					run.Violation(GENERATION+"/"+cfg.mounting+"/servemux-path-cleaning-redirect", desc)
				case len(wire) != 1:
					desc["exchanges"] = len(wire)
					run.Violation(fmt.Sprintf("%s/wire-exchanges-%d/%s", sigBase, len(wire), feat), desc)
				case len(obs) == 0:
					run.Violation(sigBase+"/not-delivered/"+feat, desc)
				case len(obs) > 1:
					run.Violation(sigBase+"/delivered-more-than-once/"+feat, desc)
				default:
					run.Count("delivered_exactly_once", 1)
					if d := ep.CompareCalls(m, call, obs[0].Call); d != "" {
						desc["detail"], desc["resource_code_saw"] = d, obs[0].Call.Show()
						run.Violation(sigBase+"/arguments-differ/"+part(d)+"/"+feat, desc)
					} else if d := ep.CompareOutcomes(m, out, got); d != "" {
						desc["detail"] = d
						run.Violation(sigBase+"/result-differs/"+part(d)+"/"+feat, desc)
					} else if strings.Contains(errlog, "panic") {
						desc["server_log"] = trunc(errlog)
						run.Violation(sigBase+"/server-panic-logged/"+feat, desc)
					} else {
						run.Distinct(fmt.Sprintf("%s|%s|%s|%d|%s", res.Namespace, m.Name, cfg.mounting, cfg.threshold, feat))
						smu.Lock()
						if *nsamples < 8 && feat != "plain" && feat != "alnum" {
							*nsamples++
							run.Sample(desc)
						}
						smu.Unlock()
					}
				}
				out.Release()
			}
		}
	}
}

func mountClass(m string) string { return m }

func methodClass(m *corpus.MethodSpec) string {
	switch m.Kind {
	case "FINDER":
		return "finder"
	case "ACTION":
		if m.OnEntity {
			return "entity-action"
		}
		return "action"
	}
	return m.Name
}

func hasControl(c *rig.Call) bool {
	bad := false
	var walk func(v *model.Value)
	walk = func(v *model.Value) {
		if v == nil {
			return
		}
		switch v.Kind {
		case model.KString, model.KBytes, model.KFixed:
			for _, r := range v.S {
				if r < 0x20 || r == 0x7f {
					bad = true
				}
			}
		case model.KRecord:
			for _, f := range v.Fields {
				walk(f)
			}
		}
	}
	check := walk
	for _, k := range c.ParentKeys {
		check(k)
	}
	check(c.Key)
	for _, k := range c.Keys {
		check(k)
	}
	for _, k := range c.KeyOf {
		check(k)
	}
	return bad
}

// unfitForHeader: control characters anywhere, or leading / trailing white space (HTTP trims header values).
func unfitForHeader(v *model.Value) bool {
	bad := false
	var walk func(v *model.Value)
	walk = func(v *model.Value) {
		if v == nil {
			return
		}
		switch v.Kind {
		case model.KString, model.KBytes, model.KFixed:
			for _, r := range v.S {
				if r < 0x20 || r == 0x7f {
					bad = true
				}
			}
			if v.S != strings.TrimSpace(v.S) {
				bad = true
			}
		case model.KRecord:
			for _, f := range v.Fields {
				walk(f)
			}
		}
	}
	walk(v)
	return bad
}

func outcomeHasControlID(o *rig.Outcome) bool {
	bad := false
	check := func(v *model.Value) {
		if unfitForHeader(v) {
			bad = true
		}
	}
	check(o.CreatedID)
	for _, c := range o.Created {
		check(c.ID)
	}
	return bad
}

func trunc(s string) string {
	if len(s) > 300 {
		return s[:300] + "..."
	}
	return s
}
