// C02 — end-to-end call fidelity: generated client -> HTTP -> generated server and back.
//
// Exactly-once history monitor per call: a unique request id travels in an extra header; the wire tap, the
// invocation log written inside the generated MockResource functions and the value returned by the generated
// client are joined on that id.  The history of every call must be [one wire request] -> [exactly one
// invocation of the corresponding resource method with equal keys / params / paging / body] -> [client
// result equal to what resource code returned].
package main

import (
	"verifh/ev"
	"verifh/props/c02/gen1"
	"verifh/props/c02/gen2"
)

func main() {
	run := ev.Start("C02")
	defer run.Guard()
	gen2.Run(run)
	gen1.Run(run)
	run.Set("generations", []string{"v2", "root"})
	run.Finish()
}
