// Generation-specific body of the C03 driver; props/c03/gen1 is derived from this file (derive.sh).
package gen2

import (
	"fmt"
	"math/rand"
	"strings"
	"sync"

	"verifh/bridge"
	codec "verifh/codec"
	"verifh/corpus"
	"verifh/ev"
	all "verifh/gen/all"
	"verifh/model"
	"verifh/refcodec"
)

const GENERATION = "v2"

func flavourOf(f codec.Format) refcodec.Flavour {
	switch f.Name {
	case "ror2-path":
		return refcodec.Path
	case "ror2-query":
		return refcodec.Query
	}
	return refcodec.Header
}

func hasNullUnion(v *model.Value) bool {
	if v == nil {
		return false
	}
	switch v.Kind {
	case model.KUnion:
		return v.Alias == "" || hasNullUnion(v.Member)
	case model.KRecord:
		for _, f := range v.Fields {
			if hasNullUnion(f) {
				return true
			}
		}
	case model.KArray:
		for _, e := range v.Elems {
			if hasNullUnion(e) {
				return true
			}
		}
	case model.KMap:
		for _, e := range v.Entries {
			if hasNullUnion(e) {
				return true
			}
		}
	}
	return false
}

type outcome struct{ phase, detail, doc string }

// encodeSide: library encodes, reference decodes.
func encodeSide(set *bridge.Set, full string, v *model.Value, f codec.Format) outcome {
	t := corpus.R(full)
	p, err := codec.BuildGo(set, full, v)
	if err != nil {
		return outcome{"harness", err.Error(), ""}
	}
	doc, err := codec.Encode(f, p)
	if err != nil {
		if _, ok := err.(*codec.PanicError); ok {
			return outcome{"encode-panic", err.Error(), ""}
		}
		return outcome{"encode-error", err.Error(), ""}
	}
	var got *model.Value
	if f.JSON {
		got, err = refcodec.DecodeJSON(set.Schema, t, []byte(doc), refcodec.DecodeOpts{})
	} else {
		got, err = refcodec.DecodeROR2(set.Schema, t, doc, flavourOf(f), refcodec.DecodeOpts{})
	}
	if err != nil {
		return outcome{"output-rejected-by-reference-parser", err.Error(), doc}
	}
	if d := model.Diff(v, got, ""); d != "" {
		return outcome{"output-denotes-different-value", d, doc}
	}
	return outcome{}
}

// decodeSide: reference encodes a conforming variant, library decodes.
func decodeSide(set *bridge.Set, full string, v *model.Value, f codec.Format, variant int, seed int64) outcome {
	t := corpus.R(full)
	rng := rand.New(rand.NewSource(seed))
	var doc string
	if f.JSON {
		st := &refcodec.JSONStyle{Rng: rng, Whitespace: variant&1 != 0, AltEscapes: variant&2 != 0, Unknown: variant&4 != 0, AltNumbers: variant&8 != 0}
		if variant == 0 {
			st = nil
		}
		doc = refcodec.EncodeJSON(set.Schema, t, v, st)
	} else {
		st := &refcodec.ROR2Style{EscapeAll: variant&2 != 0, Unknown: variant&4 != 0, Rng: rng}
		if variant&1 != 0 {
			st.Shuffle = rng.Shuffle
		}
		doc = refcodec.EncodeROR2(set.Schema, t, v, flavourOf(f), st)
	}
	q, err := codec.Decode(f, set, full, doc)
	if err != nil {
		if _, ok := err.(*codec.PanicError); ok {
			return outcome{"decode-panic", err.Error(), doc}
		}
		return outcome{"conforming-document-rejected", err.Error(), doc}
	}
	w, err := set.Read(q.Elem(), t)
	if err != nil {
		return outcome{"harness", err.Error(), doc}
	}
	want := refcodec.FillDefaults(set.Schema, t, v)
	if d := model.Diff(want, w, ""); d != "" {
		return outcome{"conforming-document-decoded-to-different-value", d, doc}
	}
	return outcome{"", "", doc}
}

func variantName(f codec.Format, variant int) string {
	var n []string
	if f.JSON {
		for i, s := range []string{"whitespace", "alt-escapes", "unknown-fields", "alt-numbers"} {
			if variant&(1<<i) != 0 {
				n = append(n, s)
			}
		}
	} else {
		for i, s := range []string{"shuffled", "escape-all", "unknown-fields"} {
			if variant&(1<<i) != 0 {
				n = append(n, s)
			}
		}
	}
	if len(n) == 0 {
		return "canonical"
	}
	return strings.Join(n, "+")
}

func trunc(s string) string {
	if len(s) > 300 {
		return s[:300] + fmt.Sprintf("...(%d bytes)", len(s))
	}
	return s
}

func Run(run *ev.Run) {
	run.Rule("encode direction: (type, value, format) -> library output -> independent parser (encoding/json / reference ROR2 parser with the flavour's lexical rules) -> must equal the serialized abstract value; " +
		"decode direction: (type, value, format, variant) -> reference-encoded conforming document (key permutation, unknown extra members of every shape, whitespace, \\uXXXX and \\/ escapes, alternative float spellings; ROR2: key permutation, percent-encode-everything, unknown members) -> library reader -> must equal the value with defaults filled; " +
		"envelope direction: loopback exchanges of every method kind checked for the protocol's envelope and header shape. distinct = distinct (direction, format, variant, value feature)")
	run.Assume("the reference codecs are my reading of the Rest.li 2.0 protocol (bytes/fixed = one code point per byte; empty string = ''; per-context percent-encoding)",
		"a nullable union with no member set is observed only ({} / null / absence all tolerated)", "both generations: the root module through types-only bindings written by its own generator from the same schema sets")
	rng := rand.New(rand.NewSource(run.Seed + 3))
	perType := run.Pick(60, 600)
	for _, set := range all.Sets {
		if err := set.SelfCheck(model.NewGen(set.Schema, rand.New(rand.NewSource(run.Seed+7))), 10); err != nil {
			run.Inconclusive("bridge self-check failed on set " + set.Name + ": " + err.Error())
			return
		}
	}
	type job struct {
		set  *bridge.Set
		full string
		v    *model.Value
		n    int
	}
	var jobs []job
	n := 0
	for _, set := range all.Sets {
		g := model.NewGen(set.Schema, rng)
		for _, td := range set.Schema.Types {
			for i := 0; i < perType; i++ {
				n++
				jobs = append(jobs, job{set, td.FullName(), g.Value(corpus.R(td.FullName()), 0), n})
			}
		}
	}
	var wg sync.WaitGroup
	ch := make(chan job, 256)
	for w := 0; w < 14; w++ {
		wg.Add(1)
		go func() {
			defer wg.Done()
			for j := range ch {
				t := corpus.R(j.full)
				nullU := hasNullUnion(j.v)
				for fi, f := range codec.Formats {
					// encode direction
					run.Eval(1)
					run.Count("encode_direction", 1)
					o := encodeSide(j.set, j.full, j.v, f)
					report := func(dir string, variant string, o outcome, again func(*model.Value) outcome) {
						if o.phase == "harness" {
							run.Inconclusive("bridge failure: " + o.detail)
							return
						}
						min := model.Shrink(j.set.Schema, t, j.v, func(c *model.Value) bool { return again(c).phase == o.phase })
						mo := again(min)
						sig := fmt.Sprintf(GENERATION+"/%s/%s/%s/%s", f.Name, o.phase, variant, model.Feature(j.set.Schema, t, min))
						run.Violation(sig, map[string]any{"generation": GENERATION, "direction": dir, "set": j.set.Name, "type": j.full, "format": f.Name, "variant": variant,
							"minimal_value": model.Show(min), "minimal_document": trunc(mo.doc), "minimal_detail": trunc(mo.detail), "original_detail": trunc(o.detail)})
					}
					if o.phase != "" {
						if nullU && strings.Contains(o.detail, "union") {
							run.Count("observed_only.null_union", 1)
						} else {
							report("encode", "-", o, func(c *model.Value) outcome { return encodeSide(j.set, j.full, c, f) })
						}
					} else if ft := model.Feature(j.set.Schema, t, j.v); ft != "plain" {
						run.Distinct("enc|" + f.Name + "|" + ft)
					}
					// decode direction (skip pretty: same reader as compact)
					if f.Name == "json-pretty" {
						continue
					}
					if nullU {
						run.Count("observed_only.null_union", 1)
						continue
					}
					nv := 8
					if f.JSON {
						nv = 16
					}
					for _, variant := range []int{0, (j.n + fi) % nv, (j.n*7 + 3) % nv} {
						run.Eval(1)
						run.Count("decode_direction", 1)
						seed := int64(j.n*31 + variant)
						o := decodeSide(j.set, j.full, j.v, f, variant, seed)
						if o.phase != "" {
							report("decode", variantName(f, variant), o, func(c *model.Value) outcome { return decodeSide(j.set, j.full, c, f, variant, seed) })
						} else if ft := model.Feature(j.set.Schema, t, j.v); ft != "plain" || variant != 0 {
							run.Distinct("dec|" + f.Name + "|" + variantName(f, variant) + "|" + ft)
						}
						if j.n%1500 == 1 && variant != 0 {
							run.Sample(map[string]any{"direction": "decode", "type": j.full, "format": f.Name, "variant": variantName(f, variant), "value": trunc(model.Show(j.v)), "document": trunc(o.doc)})
						}
					}
				}
			}
		}()
	}
	for _, j := range jobs {
		ch <- j
	}
	close(ch)
	wg.Wait()
	run.Require("encode_direction", 1000)
	run.Require("decode_direction", 1000)
	run.Require("envelope_exchanges", 10)
}
