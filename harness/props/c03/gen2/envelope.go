package gen2

import (
	"encoding/json"
	"fmt"
	"net"
	"net/http"
	"net/url"
	"reflect"
	"sort"
	"strings"

	"verifh/ev"
	kit "verifh/props/hw/gen2"
	"verifh/refcodec"
)

// envelopes drives every method kind through the library's own generic client functions against a server
// registered through the library's Register* functions, and checks the shape of what the wire tap saw.
func Envelopes(run *ev.Run) {
	rec := &kit.Recorder{}
	srv := kit.NewServer(nil)
	kit.Register(srv, kit.ResourceSpec{
		Segments: []kit.Segment{{Name: "things", IsCollection: true}},
		Methods:  []string{"get", "get_all", "batch_get", "delete", "batch_delete", "update", "batch_update", "partial_update", "batch_partial_update", "create", "batch_create"},
		Finders:  []string{"f"},
		Actions:  []kit.ActionSpec{{Name: "act"}},
	}, rec)
	ln, err := net.Listen("tcp", "127.0.0.1:0")
	if err != nil {
		run.Inconclusive("listen: " + err.Error())
		return
	}
	hs := &http.Server{Handler: srv.Handler()}
	go hs.Serve(ln)
	defer hs.Close()
	base, _ := url.Parse("http://" + ln.Addr().String())
	tc := &kit.Typed{Base: base}
	keys := []string{"k1", "a,b", "(x:y)", "it's", "100%", "", "é", "a b"}
	sortedCopy := func(s []string) []string { c := append([]string{}, s...); sort.Strings(c); return c }

	check := func(name string, w *kit.Wire, err error, wantMethod, wantVerb string, f func(req, resp any) string) {
		run.Eval(1)
		run.Count("envelope_exchanges", 1)
		desc := map[string]any{"call": name}
		if w == nil {
			desc["error"] = fmt.Sprint(err)
			run.Violation(GENERATION+"/envelope/"+name+"/no-request", desc)
			return
		}
		desc["request"] = map[string]any{"method": w.Method, "target": w.Target, "headers": w.Header, "body": trunc(w.Body)}
		desc["response"] = map[string]any{"status": w.Status, "headers": w.RespHeader, "body": trunc(w.RespBody)}
		if err != nil {
			desc["client_error"] = err.Error()
			run.Violation(GENERATION+"/envelope/"+name+"/client-error", desc)
			return
		}
		fail := func(what string) {
			desc["problem"] = what
			run.Violation(GENERATION+"/envelope/"+name+"/"+strings.SplitN(what, ":", 2)[0], desc)
		}
		if w.Header.Get("X-RestLi-Protocol-Version") != "2.0.0" {
			fail("request-protocol-version-header")
			return
		}
		if w.Header.Get("X-RestLi-Method") != wantMethod {
			fail("request-method-header: " + w.Header.Get("X-RestLi-Method"))
			return
		}
		if w.Method != wantVerb {
			fail("request-verb: " + w.Method)
			return
		}
		if w.RespHeader.Get("X-RestLi-Protocol-Version") != "2.0.0" {
			fail("response-protocol-version-header")
			return
		}
		if w.RespHeader.Get("X-RestLi-Error-Response") != "" {
			fail("error-header-on-success")
			return
		}
		var req, resp any
		if w.Body != "" {
			if req, err = refcodec.ParseJSON([]byte(w.Body)); err != nil {
				fail("request-body-not-json: " + err.Error())
				return
			}
			if ct := w.Header.Get("Content-Type"); ct != "application/json" {
				fail("request-content-type: " + ct)
				return
			}
		}
		if w.RespBody != "" {
			if resp, err = refcodec.ParseJSON([]byte(w.RespBody)); err != nil {
				fail("response-body-not-json: " + err.Error())
				return
			}
		}
		if problem := f(req, resp); problem != "" {
			fail(problem)
			return
		}
		run.Distinct("envelope|" + name)
	}
	obj := func(v any) map[string]any { m, _ := v.(map[string]any); return m }
	hasOnly := func(m map[string]any, allowed ...string) string {
		for k := range m {
			ok := false
			for _, a := range allowed {
				if a == k {
					ok = true
				}
			}
			if !ok {
				return k
			}
		}
		return ""
	}
	// decode a batch response key with the reference ROR2 parser (header flavour)
	decodeKeys := func(m map[string]any) ([]string, string) {
		var out []string
		for k := range m {
			tree, err := refcodec.ParseROR2(k, refcodec.Header)
			if err != nil {
				return nil, fmt.Sprintf("batch-key-not-ror2: %q: %v", k, err)
			}
			s, ok := tree.(string)
			if !ok {
				return nil, fmt.Sprintf("batch-key-not-a-primitive: %q", k)
			}
			out = append(out, s)
		}
		sort.Strings(out)
		return out, ""
	}

	_, w, err := tc.Get("things", "/things/k1", nil)
	check("get", w, err, "get", "GET", func(_, resp any) string {
		if obj(resp) == nil {
			return "response-not-an-entity-object"
		}
		return ""
	})
	_, w, err = tc.GetAll("things", "/things", nil)
	listShape := func(_, resp any) string {
		m := obj(resp)
		if m == nil {
			return "response-not-an-object"
		}
		if _, ok := m["elements"].([]any); !ok {
			return "elements-missing-or-not-array"
		}
		if k := hasOnly(m, "elements", "paging", "metadata"); k != "" {
			return "unexpected-envelope-member: " + k
		}
		if p, ok := m["paging"]; ok && obj(p) == nil {
			return "paging-not-an-object"
		}
		return ""
	}
	check("get_all", w, err, "get_all", "GET", listShape)
	_, w, err = tc.Find("things", "/things", "q=f&x=1")
	check("finder", w, err, "finder", "GET", func(req, resp any) string {
		if !strings.Contains(w.Target, "q=f") {
			return "finder-name-not-in-query"
		}
		return listShape(req, resp)
	})
	_, w, err = tc.Action("things", "/things", "act", []byte(`{"p":1}`))
	check("action", w, err, "action", "POST", func(req, resp any) string {
		m := obj(resp)
		if m == nil {
			return "response-not-an-object"
		}
		if _, ok := m["value"]; !ok || len(m) != 1 {
			return "action-result-not-wrapped-in-value"
		}
		return ""
	})
	for _, id := range []string{"new-id", "a,b(c)", "it's:%"} {
		id := id
		rec.Script = func(inv *kit.Invocation) kit.Outcome { return kit.Outcome{CreatedID: id} }
		gotID, status, w, err := tc.Create("things", "/things", []byte(`{"n":1}`))
		check("create", w, err, "create", "POST", func(req, _ any) string {
			if status != 201 || w.Status != 201 {
				return fmt.Sprintf("create-status: %d", w.Status)
			}
			if gotID != id {
				return fmt.Sprintf("created-id-changed: %q", gotID)
			}
			h := w.RespHeader.Get("X-RestLi-Id")
			tree, err := refcodec.ParseROR2(h, refcodec.Header)
			if err != nil || tree != any(id) {
				return fmt.Sprintf("id-header-not-the-ror2-encoded-id: %q", h)
			}
			loc := w.RespHeader.Get("Location")
			if !strings.HasSuffix(loc, "/"+h) {
				return fmt.Sprintf("location-header: %q", loc)
			}
			if !reflect.DeepEqual(obj(req), map[string]any{"n": json.Number("1")}) {
				return "create-request-body-not-the-entity"
			}
			return ""
		})
	}
	rec.Script = nil
	w, err = tc.Update("things", "/things/k1", []byte(`{"n":2}`))
	check("update", w, err, "update", "PUT", func(req, _ any) string {
		if w.Status != 204 {
			return fmt.Sprintf("update-status: %d", w.Status)
		}
		return ""
	})
	w, err = tc.PartialUpdate("things", "/things/k1", []byte(`{"patch":{"$set":{"n":3}}}`))
	check("partial_update", w, err, "partial_update", "POST", func(req, _ any) string {
		if w.Status != 204 {
			return fmt.Sprintf("partial-update-status: %d", w.Status)
		}
		return ""
	})
	w, err = tc.Delete("things", "/things/k1")
	check("delete", w, err, "delete", "DELETE", func(_, _ any) string {
		if w.Status != 204 {
			return fmt.Sprintf("delete-status: %d", w.Status)
		}
		return ""
	})
	batchShape := func(expectKeys []string, entityShape func(map[string]any) string) func(req, resp any) string {
		return func(_, resp any) string {
			m := obj(resp)
			if m == nil {
				return "response-not-an-object"
			}
			if k := hasOnly(m, "results", "statuses", "errors"); k != "" {
				return "unexpected-envelope-member: " + k
			}
			res := obj(m["results"])
			if res == nil {
				return "results-missing"
			}
			got, problem := decodeKeys(res)
			if problem != "" {
				return problem
			}
			if !reflect.DeepEqual(got, sortedCopy(expectKeys)) {
				return fmt.Sprintf("batch-result-keys: %q", got)
			}
			for _, v := range res {
				if problem := entityShape(obj(v)); problem != "" {
					return problem
				}
			}
			// ids parameter on the wire
			u, _ := url.Parse(w.Target)
			for _, part := range strings.Split(u.RawQuery, "&") {
				if strings.HasPrefix(part, "ids=") {
					tree, err := refcodec.ParseROR2(strings.TrimPrefix(part, "ids="), refcodec.Query)
					if err != nil {
						return "ids-not-ror2: " + err.Error()
					}
					var ids []string
					for _, e := range tree.([]any) {
						ids = append(ids, e.(string))
					}
					sort.Strings(ids)
					if !reflect.DeepEqual(ids, sortedCopy(expectKeys)) {
						return fmt.Sprintf("ids-parameter: %q", ids)
					}
					return ""
				}
			}
			return "ids-parameter-missing"
		}
	}
	statusShape := func(m map[string]any) string {
		if m == nil {
			return "batch-update-result-not-an-object"
		}
		if _, ok := m["status"].(json.Number); !ok {
			return "batch-update-result-without-status"
		}
		return ""
	}
	_, w, err = tc.BatchGet("things", "/things", keys)
	check("batch_get", w, err, "batch_get", "GET", batchShape(keys, func(m map[string]any) string {
		if m == nil {
			return "batch-entity-not-an-object"
		}
		return ""
	}))
	// a batch in which every key failed still answers with the whole envelope: results (empty), statuses, errors
	rec.Script = func(*kit.Invocation) kit.Outcome { return kit.EveryKeyFailed(keys, 404) }
	_, w, err = tc.BatchGet("things", "/things", keys)
	check("batch_get-every-key-failed", w, err, "batch_get", "GET", func(_, resp any) string {
		m := obj(resp)
		if m == nil {
			return "response-not-an-object"
		}
		if k := hasOnly(m, "results", "statuses", "errors"); k != "" {
			return "unexpected-envelope-member: " + k
		}
		if res, ok := m["results"].(map[string]any); !ok {
			return "results-missing"
		} else if len(res) != 0 {
			return "results-not-empty"
		}
		errs := obj(m["errors"])
		if got, problem := decodeKeys(errs); problem != "" {
			return problem
		} else if !reflect.DeepEqual(got, sortedCopy(keys)) {
			return fmt.Sprintf("batch-error-keys: %q", got)
		}
		return ""
	})
	rec.Script = nil
	_, w, err = tc.BatchDelete("things", "/things", keys)
	check("batch_delete", w, err, "batch_delete", "DELETE", batchShape(keys, statusShape))
	ents := map[string][]byte{}
	for _, k := range keys {
		ents[k] = []byte(`{"n":1}`)
	}
	entitiesBody := func(req any) string {
		m := obj(req)
		if m == nil || len(m) != 1 || obj(m["entities"]) == nil {
			return "request-body-not-an-entities-envelope"
		}
		got, problem := decodeKeys(obj(m["entities"]))
		if problem != "" {
			return problem
		}
		if !reflect.DeepEqual(got, sortedCopy(keys)) {
			return fmt.Sprintf("entities-keys: %q", got)
		}
		return ""
	}
	_, w, err = tc.BatchUpdate("things", "/things", ents)
	check("batch_update", w, err, "batch_update", "PUT", func(req, resp any) string {
		if p := entitiesBody(req); p != "" {
			return p
		}
		return batchShape(keys, statusShape)(req, resp)
	})
	_, w, err = tc.BatchPartialUpdate("things", "/things", ents)
	check("batch_partial_update", w, err, "batch_partial_update", "POST", func(req, resp any) string {
		if p := entitiesBody(req); p != "" {
			return p
		}
		return batchShape(keys, statusShape)(req, resp)
	})
	_, w, err = tc.BatchCreate("things", "/things", [][]byte{[]byte(`{"n":1}`), []byte(`{"n":2}`)})
	check("batch_create", w, err, "batch_create", "POST", func(req, resp any) string {
		m := obj(req)
		if m == nil || len(m) != 1 {
			return "request-body-not-an-elements-envelope"
		}
		if a, ok := m["elements"].([]any); !ok || len(a) != 2 {
			return "request-elements"
		}
		r := obj(resp)
		if r == nil {
			return "response-not-an-object"
		}
		el, ok := r["elements"].([]any)
		if !ok || len(el) != 2 {
			return "response-elements"
		}
		for _, e := range el {
			em := obj(e)
			if em == nil {
				return "created-element-not-an-object"
			}
			if _, ok := em["id"]; !ok {
				return "created-element-without-id"
			}
			if _, ok := em["status"].(json.Number); !ok {
				return "created-element-without-status"
			}
		}
		return ""
	})
	// error envelope
	rec.Script = func(inv *kit.Invocation) kit.Outcome {
		st, msg := int32(409), "conflict!"
		return kit.Outcome{Err: kit.NewErrorResponse(&st, &msg)}
	}
	run.Eval(1)
	run.Count("envelope_exchanges", 1)
	_, w, err = tc.Get("things", "/things/k1", nil)
	kind, status, msg := kit.DescribeError(err)
	if w == nil || kind != "restli.Error" || status != 409 || msg != "conflict!" || w.Status != 409 || w.RespHeader.Get("X-RestLi-Error-Response") != "true" {
		run.Violation(GENERATION+"/envelope/error/shape", map[string]any{"wire": w, "client_error_kind": kind, "status": status, "message": msg})
	} else if m, err := refcodec.ParseJSON([]byte(w.RespBody)); err != nil || obj(m)["status"] != any(json.Number("409")) || obj(m)["message"] != any("conflict!") {
		run.Violation(GENERATION+"/envelope/error/body", map[string]any{"wire": w})
	} else {
		run.Distinct("envelope|error")
	}
	rec.Script = nil

	// conforming envelopes that carry unknown extra members must be accepted (client side: crafted responses)
	var respond func(w http.ResponseWriter, r *http.Request)
	ln2, err := net.Listen("tcp", "127.0.0.1:0")
	if err != nil {
		return
	}
	fake := &http.Server{Handler: http.HandlerFunc(func(w http.ResponseWriter, r *http.Request) {
		w.Header().Set("X-RestLi-Protocol-Version", "2.0.0")
		w.Header().Set("Content-Type", "application/json")
		respond(w, r)
	})}
	go fake.Serve(ln2)
	defer fake.Close()
	base2, _ := url.Parse("http://" + ln2.Addr().String())
	fc := &kit.Typed{Base: base2}
	body := func(b string) { respond = func(w http.ResponseWriter, r *http.Request) { w.WriteHeader(200); w.Write([]byte(b)) } }
	unknownCase := func(name string, err error, ok bool) {
		run.Eval(1)
		run.Count("envelope_exchanges", 1)
		if err != nil || !ok {
			run.Violation(GENERATION+"/envelope-unknown-member/"+name, map[string]any{"envelope": name, "client_error": fmt.Sprint(err), "detail": "a conforming response envelope with an unknown extra member was rejected or misread"})
		} else {
			run.Distinct("envelope-unknown|" + name)
		}
	}
	body(`{"zzBefore":{"a":[1]},"elements":[{"n":1}],"paging":{"count":10,"start":0,"links":[],"zzInPaging":1},"zzAfter":1}`)
	els, _, err := fc.GetAll("things", "/things", nil)
	unknownCase("elements", err, len(els) == 1)
	body(`{"zz":1,"value":"x","zz2":[{}]}`)
	v, _, err := fc.Action("things", "/things", "act", []byte(`{}`))
	unknownCase("action-value", err, v == "x")
	body(`{"zz":{"k1":{}},"results":{"k1":{"n":1}},"statuses":{"k1":200},"errors":{}}`)
	br, _, err := fc.BatchGet("things", "/things", []string{"k1"})
	unknownCase("batch-response", err, br != nil && len(br.Results) == 1)
	body(`{"results":{"k1":{"status":204,"zzExtra":true}},"statuses":{},"errors":{}}`)
	br, _, err = fc.BatchDelete("things", "/things", []string{"k1"})
	unknownCase("batch-update-status", err, br != nil && len(br.Results) == 1)
	body(`{"elements":[{"id":"a","status":201,"zzExtra":1,"location":"/things/a"}],"zz":2}`)
	ids, _, err := fc.BatchCreate("things", "/things", [][]byte{[]byte(`{}`)})
	unknownCase("batch-create-elements", err, len(ids) == 1 && ids[0] == "a")
	body(`{"results":{},"statuses":{},"errors":{"k1":{"status":404,"message":"nope","zzExtra":{"x":1}}}}`)
	br, _, err = fc.BatchGet("things", "/things", []string{"k1"})
	unknownCase("error-response-in-batch", err, br != nil && br.Errors["k1"] == "nope")
	respond = func(w http.ResponseWriter, r *http.Request) {
		w.Header().Set("X-RestLi-Error-Response", "true")
		w.WriteHeader(500)
		w.Write([]byte(`{"status":500,"message":"boom","zzExtra":1,"exceptionClass":"X"}`))
	}
	_, _, err = fc.Get("things", "/things/k1", nil)
	kind, status, msg = kit.DescribeError(err)
	unknownCase("error-response", nil, kind == "restli.Error" && status == 500 && msg == "boom")
	// server side: request envelopes with unknown members
	sendRaw := func(name, verb, target, method, bodyText string) {
		run.Eval(1)
		run.Count("envelope_exchanges", 1)
		req, _ := http.NewRequest(verb, base.String()+target, strings.NewReader(bodyText))
		req.Header.Set("X-RestLi-Method", method)
		req.Header.Set("X-RestLi-Protocol-Version", "2.0.0")
		req.Header.Set("Content-Type", "application/json")
		rec.Drain()
		resp, err := http.DefaultClient.Do(req)
		if err != nil {
			run.Violation(GENERATION+"/envelope-unknown-member/"+name, map[string]any{"error": err.Error()})
			return
		}
		resp.Body.Close()
		if resp.StatusCode/100 != 2 || len(rec.Drain()) != 1 {
			run.Violation(GENERATION+"/envelope-unknown-member/"+name, map[string]any{"envelope": name, "status": resp.StatusCode, "detail": "a conforming request envelope with an unknown extra member was rejected"})
		} else {
			run.Distinct("envelope-unknown|" + name)
		}
	}
	sendRaw("request-entities", "PUT", "/things?ids=List(k1)", "batch_update", `{"zz":1,"entities":{"k1":{"n":1}}}`)
	sendRaw("request-elements", "POST", "/things", "batch_create", `{"elements":[{"n":1}],"zz":[1]}`)
}

