// C03 — wire-format conformance against an independent Rest.li 2.0 oracle.
//
// Encode direction: every document the library emits is parsed by the independent reference parser
// (encoding/json for JSON, the reference ROR2 parser with per-flavour lexical rules) and must denote exactly the
// abstract value that was serialized.  Decode direction: reference-encoded conforming variants (permuted keys,
// unknown extra fields, insignificant whitespace, alternative legal escapes, alternative float spellings) must
// be accepted by the library's readers and yield that value.  Envelope direction: requests and responses of
// real loopback exchanges must have the protocol's shape.
package main

import (
	"verifh/ev"
	"verifh/props/c03/gen1"
	"verifh/props/c03/gen2"
)

func main() {
	run := ev.Start("C03")
	defer run.Guard()
	gen2.Run(run)
	gen1.Run(run)
	gen2.Envelopes(run) // wire envelopes of every method kind (hand-written kit through the generic client functions)
	gen1.Envelopes(run)
	run.Set("generations", []string{"v2", "root"})
	run.Finish()
}
