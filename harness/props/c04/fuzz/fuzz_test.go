// Coverage-guided mutation for the C04 codec-level monitor (Go's native fuzzing engine): the same decode programs as the
// enumeration in props/c04, seeded with valid and nearly valid documents, mutated under coverage feedback from the library
// packages.  A recovered panic inside library code fails the target; the engine writes the input to testdata/fuzz.
// Run by the thorough tier of ./check C04 (see props/c04/main.go), never by `go test ./...` without -fuzz.
package fuzz

import (
	"strings"
	"testing"

	"verifh/props/c04/gen1"
	"verifh/props/c04/gen2"
)

var seeds = []string{
	``, `{}`, `[]`, `{"a":"x","b":1,"c":["y"],"d":{"x":2}}`, `{"patch":{"$set":{"a":1},"$delete":["b"]}}`, `{"string":"s"}`, `[[1,2],[3]]`, `{"k":[{"a":1}]}`,
	`(a:x,b:1,c:List(y),d:(x:2))`, `List(1,2,List(3))`, `($params:(p:1),a:b)`, `''`, `%28a%29`, `(a:(b:(c:List((d:e)))))`, `List()`, `()`,
	`a=1&b=List(1,2)&c=(x:y)`, `ids=List((a:1),(a:2))&q=finder`, `a=%28&b=`, `a`, `a=(b:(c:List(1)))&a=2`,
}

func report(t *testing.T, format string, data string, f1 []*gen1.Failure, f2 []*gen2.Failure) {
	for _, f := range f2 {
		t.Fatalf("panic in %s reader (v2) program %s on %q: %s at %s", f.Format, f.Program, data, f.Panic, f.Frame)
	}
	for _, f := range f1 {
		t.Fatalf("panic in %s reader (root) program %s on %q: %s at %s", f.Format, f.Program, data, f.Panic, f.Frame)
	}
}

func fuzzFormat(f *testing.F, format string) {
	for _, s := range seeds {
		f.Add(s)
	}
	f.Fuzz(func(t *testing.T, data string) {
		if len(data) > 4096 || strings.Count(data, "(")+strings.Count(data, "[")+strings.Count(data, "{") > 600 {
			t.Skip()
		}
		var s1 gen1.Slot
		var s2 gen2.Slot
		f2, _, _ := gen2.Probe(&s2, data, format)
		f1, _, _ := gen1.Probe(&s1, data, format)
		report(t, format, data, f1, f2)
	})
}

func FuzzJSON(f *testing.F)        { fuzzFormat(f, "json") }
func FuzzROR2(f *testing.F)        { fuzzFormat(f, "ror2") }
func FuzzQueryValue(f *testing.F)  { fuzzFormat(f, "query-value") }
func FuzzQueryString(f *testing.F) { fuzzFormat(f, "query-string") }
