// Coverage-guided mutation against the generated unmarshalers of the kitchen-sink types (both generations); see
// props/c04/fuzz for the Reader-interface programs.  Run by the thorough tier of ./check C04.
package fuzzgen

import (
	"testing"

	"verifh/bridge"
	"verifh/codec"
	"verifh/codec1"
	"verifh/gen/all"
	"verifh/genr/allr"
)

var types = []string{"ks.kt.Prims", "ks.kt.OptPrims", "ks.kt.Containers", "ks.kt.U", "ks.kt.NU", "ks.kt.CK", "ks.kt.Recursive", "ks.kt.Keywords", "ks.kt.Defaults", "ks.kt.Top", "ks.kt.Color", "ks.kt.TwoIncludes", "ks.kt.Thing", "ks.kt.Refs"}

var seeds = []string{
	`{}`, `{"i32":1,"i64":2,"f32":0.5,"f64":2.5,"b":true,"s":"x","by":"ab"}`, `{"string":"s"}`, `{"a":"x","b":1,"$params":{"p":"q"}}`, `"RED"`, `{"self":{"self":{}}}`,
	`(i32:1,i64:2,f32:0.5,f64:2.5,b:true,s:x,by:ab)`, `(string:s)`, `(a:x,b:1,$params:(p:q))`, `RED`, `(self:(self:()))`, `(as:List(a,b),ms:(k:v))`,
}

func find(sets []*bridge.Set) *bridge.Set {
	for _, s := range sets {
		if s.Name == "ks" {
			return s
		}
	}
	return nil
}

func fuzzTyped(f *testing.F, format string) {
	ks, ksr := find(all.Sets), find(allr.Sets)
	if ks == nil || ksr == nil {
		f.Skip("kitchen sink bindings missing")
	}
	for _, s := range seeds {
		f.Add(s)
	}
	f2, f1 := codec.FormatByName(format), codec1.FormatByName(format)
	f.Fuzz(func(t *testing.T, data string) {
		if len(data) > 4096 {
			t.Skip()
		}
		for _, tn := range types {
			if _, err := codec.Decode(f2, ks, tn, data); err != nil {
				if pe, ok := err.(*codec.PanicError); ok {
					t.Fatalf("panic in generated decoder (v2) of %s, %s, on %q: %s at %s", tn, format, data, pe.Value, pe.Frame)
				}
			}
			if _, ok := ksr.Types[tn]; ok {
				if _, err := codec1.Decode(f1, ksr, tn, data); err != nil {
					if pe, ok := err.(*codec1.PanicError); ok {
						t.Fatalf("panic in generated decoder (root) of %s, %s, on %q: %s at %s", tn, format, data, pe.Value, pe.Frame)
					}
				}
			}
		}
	})
}

func FuzzTypedJSON(f *testing.F)  { fuzzTyped(f, "json-compact") }
func FuzzTypedROR2(f *testing.F)  { fuzzTyped(f, "ror2-header") }
func FuzzTypedQuery(f *testing.F) { fuzzTyped(f, "ror2-query") }
