// Package gen2 is the generation-specific half of the C04 codec-level monitor: a set of schema-shaped decode
// programs written only against the Reader interface, run on arbitrary text through every reader constructor,
// with panics caught and reported.  props/c04/gen1 is derived from this file by derive.sh.
package gen2

import (
	"errors"
	"fmt"
	"runtime/debug"
	"strings"
	"sync/atomic"

	"github.com/PapaCharlie/go-restli/v2/restlicodec"
	restlidata "github.com/PapaCharlie/go-restli/v2/restlidata"
)

const GENERATION = "v2"

// Failure describes a panic inside library code.
type Failure struct {
	Generation string `json:"generation"`
	Format     string `json:"format"`
	Program    string `json:"program"`
	Input      string `json:"input"`
	Panic      string `json:"panic"`
	Frame      string `json:"frame"`
	Stack      string `json:"stack,omitempty"`
}

// Slot is what one worker is doing right now (read by the hang watchdog).
type Slot struct {
	Current atomic.Value // string
	Steps   int64
}

func (s *Slot) at(what string) {
	s.Current.Store(what)
	atomic.AddInt64(&s.Steps, 1)
}

type program struct {
	name string
	run  func(r restlicodec.Reader) error
}

var errShape = errors.New("shape mismatch")

func readStrings(r restlicodec.Reader) error {
	return r.ReadArray(func(r restlicodec.Reader) error {
		_, err := r.ReadString()
		return err
	})
}

func readRecordViaMap(r restlicodec.Reader) error {
	seenA := false
	err := r.ReadMap(func(r restlicodec.Reader, field string) (err error) {
		switch field {
		case "a":
			seenA = true
			_, err = r.ReadString()
		case "b":
			_, err = r.ReadInt32()
		case "c":
			err = readStrings(r)
		case "d":
			err = r.ReadMap(func(r restlicodec.Reader, field string) error {
				if field == "x" {
					_, err := r.ReadInt64()
					return err
				}
				return r.Skip()
			})
		case "$params":
			err = r.ReadMap(func(r restlicodec.Reader, field string) error {
				_, err := r.ReadString()
				return err
			})
		default:
			err = r.Skip()
		}
		return err
	})
	if err == nil && !seenA {
		err = errShape
	}
	return err
}

func readRecord(r restlicodec.Reader) error {
	return r.ReadRecord(requiredA, func(r restlicodec.Reader, field string) (err error) {
		switch field {
		case "a":
			_, err = r.ReadString()
		case "b":
			_, err = r.ReadInt32()
		case "c":
			err = readStrings(r)
		case "d":
			err = r.ReadRecord(requiredX, func(r restlicodec.Reader, field string) error {
				if field == "x" {
					_, err := r.ReadInt64()
					return err
				}
				return r.Skip()
			})
		default:
			err = r.Skip()
		}
		return err
	})
}

func readUnion(r restlicodec.Reader) error {
	n := 0
	err := r.ReadMap(func(r restlicodec.Reader, member string) (err error) {
		n++
		switch member {
		case "string":
			_, err = r.ReadString()
		case "int":
			_, err = r.ReadInt32()
		case "a":
			err = readRecord(r)
		case "array":
			err = readStrings(r)
		default:
			err = errShape
		}
		return err
	})
	if err == nil && n != 1 {
		err = errShape
	}
	return err
}

var programs = []program{
	{"int", func(r restlicodec.Reader) error { _, err := r.ReadInt(); return err }},
	{"int32", func(r restlicodec.Reader) error { _, err := r.ReadInt32(); return err }},
	{"int64", func(r restlicodec.Reader) error { _, err := r.ReadInt64(); return err }},
	{"float32", func(r restlicodec.Reader) error { _, err := r.ReadFloat32(); return err }},
	{"float64", func(r restlicodec.Reader) error { _, err := r.ReadFloat64(); return err }},
	{"bool", func(r restlicodec.Reader) error { _, err := r.ReadBool(); return err }},
	{"string", func(r restlicodec.Reader) error { _, err := r.ReadString(); return err }},
	{"bytes", func(r restlicodec.Reader) error { _, err := r.ReadBytes(); return err }},
	{"skip", func(r restlicodec.Reader) error { return r.Skip() }},
	{"raw-bytes", func(r restlicodec.Reader) error { _, err := r.ReadRawBytes(); return err }},
	{"interface", func(r restlicodec.Reader) error { _, err := r.ReadInterface(); return err }},
	{"array<string>", readStrings},
	{"array<array<int>>", func(r restlicodec.Reader) error {
		return r.ReadArray(func(r restlicodec.Reader) error {
			return r.ReadArray(func(r restlicodec.Reader) error { _, err := r.ReadInt32(); return err })
		})
	}},
	{"map<string>", func(r restlicodec.Reader) error {
		return r.ReadMap(func(r restlicodec.Reader, k string) error { _, err := r.ReadString(); return err })
	}},
	{"map<array<map<long>>>", func(r restlicodec.Reader) error {
		return r.ReadMap(func(r restlicodec.Reader, k string) error {
			return r.ReadArray(func(r restlicodec.Reader) error {
				return r.ReadMap(func(r restlicodec.Reader, k string) error { _, err := r.ReadInt64(); return err })
			})
		})
	}},
	{"map<skip>", func(r restlicodec.Reader) error {
		return r.ReadMap(func(r restlicodec.Reader, k string) error { return r.Skip() })
	}},
	{"array<raw-bytes>", func(r restlicodec.Reader) error {
		return r.ReadArray(func(r restlicodec.Reader) error { _, err := r.ReadRawBytes(); return err })
	}},
	{"array<interface>", func(r restlicodec.Reader) error {
		return r.ReadArray(func(r restlicodec.Reader) error { _, err := r.ReadInterface(); return err })
	}},
	{"record-via-map", readRecordViaMap},
	{"record", readRecord},
	{"array<record>", func(r restlicodec.Reader) error { return r.ReadArray(readRecord) }},
	{"map<record>", func(r restlicodec.Reader) error {
		return r.ReadMap(func(r restlicodec.Reader, k string) error { return readRecord(r) })
	}},
	{"union", readUnion},
	{"array<union>", func(r restlicodec.Reader) error { return r.ReadArray(readUnion) }},
	{"raw-record", func(r restlicodec.Reader) error {
		var rr restlidata.RawRecord
		if err := rr.UnmarshalRestLi(r); err != nil {
			return err
		}
		w := restlicodec.NewCompactJsonWriter()
		return rr.MarshalRestLi(w)
	}},
	{"walk-maps-1", walker(1)},
	{"walk-maps-2", walker(2)},
	{"walk-maps-3", walker(3)},
	{"walk-maps-4", walker(4)},
	{"walk-map-array-map", func(r restlicodec.Reader) error {
		return r.ReadMap(func(r restlicodec.Reader, k string) error {
			return r.ReadArray(func(r restlicodec.Reader) error {
				return r.ReadMap(func(r restlicodec.Reader, k string) error { return r.Skip() })
			})
		})
	}},
	{"stringer-then-string", func(r restlicodec.Reader) error {
		_ = r.String()
		_, err := r.ReadString()
		_ = r.String()
		return err
	}},
}

// walker reads maps nested depth levels deep and skips whatever is below.
func walker(depth int) func(r restlicodec.Reader) error {
	if depth == 0 {
		return func(r restlicodec.Reader) error { return r.Skip() }
	}
	inner := walker(depth - 1)
	return func(r restlicodec.Reader) error {
		return r.ReadMap(func(r restlicodec.Reader, k string) error { return inner(r) })
	}
}

// ProgramNames lists the decode programs.
func ProgramNames() []string {
	var out []string
	for _, p := range programs {
		out = append(out, p.name)
	}
	return out
}

type format struct {
	name string
	mk   func(text string) (restlicodec.Reader, error)
}

var exclusions = []struct {
	name    string
	spec    restlicodec.PathSpec
	leading int
}{
	{"excl(m/*/x,c/*,d/x,a)", restlicodec.NewPathSpec("m/*/x", "c/*", "d/x", "a"), 0},
	{"excl(*/x,a/b/c)", restlicodec.NewPathSpec("*/x", "a/b/c"), 0},
	{"excl(a/*/b,$set/a)+1", restlicodec.NewPathSpec("a/*/b", "$set/a", "x"), 1},
}

func init() {
	for _, e := range exclusions {
		e := e
		formats = append(formats,
			format{"json+" + e.name, func(t string) (restlicodec.Reader, error) {
				return restlicodec.NewJsonReaderWithExcludedFields([]byte(t), e.spec, e.leading)
			}},
			format{"ror2+" + e.name, func(t string) (restlicodec.Reader, error) {
				return restlicodec.NewRor2ReaderWithExcludedFields(t, e.spec, e.leading)
			}})
	}
}

var formats = []format{
	{"json", func(t string) (restlicodec.Reader, error) { return restlicodec.NewJsonReader([]byte(t)) }},
	{"ror2", restlicodec.NewRor2Reader},
	{"query-value", func(t string) (restlicodec.Reader, error) {
		m, err := restlicodec.ParseQueryParams("v=" + t)
		if err != nil {
			return nil, err
		}
		r, ok := m["v"]
		if !ok {
			return nil, errShape
		}
		return r, nil
	}},
}

func FormatNames() []string {
	out := []string{"query-string"}
	for _, f := range formats {
		out = append(out, f.name)
	}
	return out
}

func topFrame(stack string) string {
	for _, l := range strings.Split(stack, "\n") {
		l = strings.TrimSpace(l)
		if strings.Contains(l, "go-restli/") && strings.Contains(l, "(") && !strings.HasPrefix(l, "/") {
			if i := strings.LastIndex(l, "("); i > 0 {
				l = l[:i]
			}
			return l
		}
	}
	return "?"
}

func guarded(formatName, progName, text string, f func() error) (fail *Failure, err error) {
	defer func() {
		if p := recover(); p != nil {
			st := string(debug.Stack())
			fail = &Failure{Generation: GENERATION, Format: formatName, Program: progName, Input: text, Panic: fmt.Sprint(p), Frame: topFrame(st), Stack: st}
		}
	}()
	return nil, f()
}

// Probe runs every decode program on text through the named format (or all when format == "").
// It returns the panics and the number of (format, program) runs that returned nil / an error.
func Probe(slot *Slot, text string, only string) (fails []*Failure, accepted, rejected int) {
	for _, f := range formats {
		if only != "" && only != f.name && !strings.HasPrefix(f.name, only+"+") {
			continue
		}
		for _, p := range programs {
			slot.at(GENERATION + "|" + f.name + "|" + p.name + "|" + text)
			fail, err := guarded(f.name, p.name, text, func() error {
				r, err := f.mk(text)
				if err != nil {
					return err
				}
				return p.run(r)
			})
			switch {
			case fail != nil:
				fails = append(fails, fail)
			case err == nil:
				accepted++
			default:
				rejected++
			}
		}
	}
	if only == "" || only == "query-string" {
		// the whole text as a query string: every parameter is read with every program
		slot.at(GENERATION + "|query-string|*|" + text)
		fail, err := guarded("query-string", "parse", text, func() error {
			_, err := restlicodec.ParseQueryParams(text)
			return err
		})
		switch {
		case fail != nil:
			fails = append(fails, fail)
		case err != nil:
			rejected++
		default:
			accepted++
			for _, p := range programs {
				fail, _ := guarded("query-string", p.name, text, func() error {
					m, err := restlicodec.ParseQueryParams(text)
					if err != nil {
						return err
					}
					for name := range m {
						if err := p.run(m[name]); err != nil {
							return err
						}
					}
					return nil
				})
				if fail != nil {
					fails = append(fails, fail)
				}
			}
			fail, _ := guarded("query-string", "record-of-params", text, func() error {
				m, err := restlicodec.ParseQueryParams(text)
				if err != nil {
					return err
				}
				return m.ReadRecord(requiredA, func(r restlicodec.Reader, field string) error {
					if field == "a" {
						return readStrings(r)
					}
					return r.Skip()
				})
			})
			if fail != nil {
				fails = append(fails, fail)
			}
		}
	}
	return fails, accepted, rejected
}

// ProbeAny runs every decode program on an untyped Go value through the interface reader.
func ProbeAny(slot *Slot, desc string, v any) (fails []*Failure, accepted, rejected int) {
	for _, p := range programs {
		slot.at(GENERATION + "|any|" + p.name + "|" + desc)
		fail, err := guarded("any", p.name, desc, func() error { return p.run(restlicodec.NewInterfaceReader(v)) })
		for _, e := range exclusions {
			f2, _ := guarded("any+"+e.name, p.name, desc, func() error {
				return p.run(restlicodec.NewInterfaceReaderWithExcludedFields(v, e.spec, e.leading))
			})
			if f2 != nil {
				fails = append(fails, f2)
			}
		}
		switch {
		case fail != nil:
			fails = append(fails, fail)
		case err == nil:
			accepted++
		default:
			rejected++
		}
	}
	return fails, accepted, rejected
}
