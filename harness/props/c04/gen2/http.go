package gen2

// C04, HTTP level.
//
// Server side: the generated kitchen-sink resources (mocks that always succeed) are served by a real http.Server;
// valid exchanges produced by the generated clients are captured from the wire and replayed as raw requests with
// the path, query, body and headers mutated.  Because resource code never fails, any 5xx, stack trace or dropped
// connection comes from the library; for mutations that certainly destroy the request (a body that is not JSON, a
// key segment that is not ROR2) the answer must be a 4xx and resource code must not have been invoked.
// Client side: the same calls are repeated through the generated clients against a scripted transport that returns
// mutated copies of the captured valid responses; the call must return (a value or an error), never panic.

import (
	"bufio"
	"encoding/json"
	"fmt"
	"io"
	"math/rand"
	"net"
	"net/http"
	"sort"
	"strings"
	"sync"
	"sync/atomic"
	"time"

	"verifh/bridge"
	"verifh/corpus"
	"verifh/ev"
	all "verifh/gen/all"
	"verifh/model"
	"verifh/refcodec"
	rig "verifh/rig"
)

type rawResponse struct {
	status int
	header http.Header
	body   string
	err    string
}

func rawSend(addr, method, target string, hdr http.Header, body string) rawResponse {
	conn, err := net.DialTimeout("tcp", addr, 5*time.Second)
	if err != nil {
		return rawResponse{err: "dial: " + err.Error()}
	}
	defer conn.Close()
	_ = conn.SetDeadline(time.Now().Add(20 * time.Second))
	var b strings.Builder
	fmt.Fprintf(&b, "%s %s HTTP/1.1\r\nHost: c04\r\nConnection: close\r\n", method, target)
	names := make([]string, 0, len(hdr))
	for k := range hdr {
		names = append(names, k)
	}
	sort.Strings(names)
	for _, k := range names {
		if k == "Content-Length" || k == "Host" || k == "Connection" {
			continue
		}
		for _, v := range hdr[k] {
			fmt.Fprintf(&b, "%s: %s\r\n", k, v)
		}
	}
	fmt.Fprintf(&b, "Content-Length: %d\r\n\r\n%s", len(body), body)
	if _, err := io.WriteString(conn, b.String()); err != nil {
		return rawResponse{err: "write: " + err.Error()}
	}
	resp, err := http.ReadResponse(bufio.NewReader(conn), nil)
	if err != nil {
		return rawResponse{err: "read response: " + err.Error()}
	}
	defer resp.Body.Close()
	data, rerr := io.ReadAll(resp.Body)
	out := rawResponse{status: resp.StatusCode, header: resp.Header, body: string(data)}
	if rerr != nil {
		out.err = "read body: " + rerr.Error()
	}
	return out
}

type capture struct {
	res   *corpus.Resource
	m     *corpus.MethodSpec
	call  *rig.Call
	wire  *rig.Wire
	kind  string
	valid bool
}

func methodKind(m *corpus.MethodSpec) string {
	switch m.Kind {
	case "FINDER":
		return "finder"
	case "ACTION":
		if m.OnEntity {
			return "entity-action"
		}
		return "action"
	}
	return m.Name
}

func takesBody(m *corpus.MethodSpec) bool {
	if m.Kind == "ACTION" {
		return len(m.Params) > 0
	}
	switch m.Name {
	case "create", "update", "partial_update", "batch_create", "batch_update", "batch_partial_update":
		return m.Kind == "REST_METHOD"
	}
	return false
}

var hostileSegments = []string{"(", ")", "((", "()", "(a", "(a:", "(a:(b:1)", "a)", "List(", "List(a", "List(a,", "'", "%", "%2", "%zz", "%28", ":", ",", "a,b", "a:b", "(a:b,a:c)", "($params:1)", "(:)", "(,)", "List(List(",
	"(a:1)(b:2)", "~", "", "''", "a%00b", "%ff%fe", "999999999999999999999999", "-", "1e400", "NaN", "(a:List(1,(b:", "List(())", "(a:1,)", "(,a:1)", "a%", "%%", "(a:%)", "(%:a)"}

var hostileBodies = []string{"", "[]", `"x"`, "1", "null", "true", "{", "}", `{"`, `{"a"`, `{"a":`, `{"a":}`, `{"a":1,}`, `{,}`, `[`, `]`, `{"elements":`, `{"elements":1}`, `{"elements":[1]}`, `{"elements":{}}`, `{"entities":[]}`, `{"entities":{"(":{}}}`,
	`{"entities":{"(a:":{}}}`, `{"patch":1}`, `{"patch":{"$set":1}}`, `{"patch":{"$delete":1}}`, `{"patch":{"$delete":[1]}}`, `{"patch":{"$set":{"$set":1}}}`, `{"patch":{"x":{"$set":[]}}}`, `{"$set":{}}`, `{"a":{"a":{"a":{"a":{"a":{"a":{}}}}}}}`,
	strings.Repeat("[", 5000), strings.Repeat(`{"a":`, 5000), `{"a":"\ud800"}`, `{"a":"\u00"}`, "\xff\xfe", `{"a":1}{"b":2}`, `{"a":1} x`, "\x00", `{"a":1e999}`, `{"a":-}`, `{"a":01}`}

// HTTPLevel runs the HTTP-level monitor on the kitchen-sink bindings of this generation.
func HTTPLevel(run *ev.Run, rng *rand.Rand) {
	var ks *bridge.Set
	for _, s := range all.Sets {
		if s.Name == "ks" {
			ks = s
		}
	}
	if ks == nil {
		run.Inconclusive(GENERATION + ": kitchen sink bindings missing")
		return
	}
	for _, mounting := range []string{"bare", "mux", "prefixed"} {
		httpMounting(run, ks, rng, mounting)
	}
}

func httpMounting(run *ev.Run, ks *bridge.Set, rng *rand.Rand, mounting string) {
	srv, err := rig.NewServer(ks, mounting, nil)
	if err != nil {
		run.Inconclusive("server: " + err.Error())
		return
	}
	defer srv.Close()
	var mu sync.Mutex
	g := model.NewGen(ks.Schema, rng)
	g.Hostile, g.MaxElems, g.MaxDepth = 0, 2, 2
	harnessFault := map[string]string{}
	// the script runs in server goroutines in scheduler order: it draws from its own generator so that the case list
	// (drawn from rng) stays a function of the seed
	srng := rand.New(rand.NewSource(run.Seed + 404))
	sg := model.NewGen(ks.Schema, srng)
	sg.Hostile, sg.MaxElems, sg.MaxDepth = 0, 2, 2
	srv.SetScript(func(obs *rig.Observation) (out *rig.Outcome) {
		mu.Lock()
		defer mu.Unlock()
		defer func() {
			if p := recover(); p != nil {
				harnessFault[obs.Call.ReqID] = fmt.Sprint(p)
				out = &rig.Outcome{}
			}
		}()
		ep := srv.Endpoints[obs.Call.Resource]
		if ep == nil {
			return &rig.Outcome{}
		}
		for i := range ep.Res.Methods {
			m := &ep.Res.Methods[i]
			name := m.Name
			if m.Kind != "REST_METHOD" {
				name = map[string]string{"FINDER": "finder:", "ACTION": "action:"}[m.Kind] + m.Name
			}
			if name == obs.Call.Method {
				return ep.GenOutcome(m, obs.Call, sg, srng)
			}
		}
		return &rig.Outcome{}
	})
	cl := rig.NewClient(ks, "http://"+srv.Addr+srv.Prefix, 0, false)
	// ----- capture valid exchanges
	var caps []*capture
	n := 0
	for ri := range ks.Schema.Resources {
		res := ks.Schema.Resources[ri]
		ep := srv.Endpoints[res.Namespace]
		if ep == nil {
			continue
		}
		for mi := range res.Methods {
			m := &res.Methods[mi]
			for rep := 0; rep < run.Pick(2, 5); rep++ {
				n++
				id := fmt.Sprintf("c04v-%s-%d", mounting, n)
				mu.Lock()
				call := ep.GenCall(m, g, rng)
				mu.Unlock()
				out, wire, err := cl.Invoke(res, m, call, id)
				srv.Take(id)
				srv.TakeErrLog()
				if err != nil || len(wire) == 0 || wire[0].Status == 0 {
					continue
				}
				c := &capture{res: res, m: m, call: call, wire: wire[0], kind: methodKind(m), valid: out != nil && out.Err == nil && wire[0].Status < 300}
				caps = append(caps, c)
			}
		}
	}
	run.Count(GENERATION+".http.captured_valid_exchanges", len(caps))
	serverSide(run, srv, caps, rng, mounting, harnessFault, &mu)
	clientSide(run, ks, srv, caps, rng, mounting)
}

type reqMutation struct {
	class     string
	method    string
	target    string
	header    http.Header
	body      string
	malformed string // non-empty: the request is certainly malformed for this reason => 4xx and no invocation
}

func splitTarget(t string) (path, query string, hasQuery bool) {
	if i := strings.IndexByte(t, '?'); i >= 0 {
		return t[:i], t[i+1:], true
	}
	return t, "", false
}

func mutateRequest(c *capture, rng *rand.Rand, prefix string, budget int) []reqMutation {
	w := c.wire
	var out []reqMutation
	base := func(class string) reqMutation {
		return reqMutation{class: class, method: w.Method, target: w.Target, header: w.Header.Clone(), body: w.Body}
	}
	path, query, hasQuery := splitTarget(w.Target)
	segs := strings.Split(strings.TrimPrefix(path, prefix), "/") // "", root, key, sub, key...
	// T1: key segments
	for i := 2; i < len(segs); i += 2 {
		for k := 0; k < budget/4+1; k++ {
			h := hostileSegments[rng.Intn(len(hostileSegments))]
			if strings.ContainsAny(h, " \r\n\t\x00") || h == "" {
				continue
			}
			ns := append([]string{}, segs...)
			ns[i] = h
			mu := base("key-segment")
			mu.target = prefix + strings.Join(ns, "/")
			if hasQuery {
				mu.target += "?" + query
			}
			if why := certainlyMalformedROR2(h); why != "" {
				mu.malformed = "key segment: " + why
			}
			out = append(out, mu)
		}
	}
	// T2: query
	if hasQuery {
		for k := 0; k < budget/3+1; k++ {
			mu := base("query")
			q := query
			switch rng.Intn(6) {
			case 0:
				q = q[:rng.Intn(len(q)+1)]
				mu.class = "query-truncated"
			case 1:
				p := rng.Intn(len(q) + 1)
				q = q[:p] + pickByte(rng, "(),:'%&=+") + q[p:]
				mu.class = "query-insert"
			case 2:
				if len(q) > 0 {
					p := rng.Intn(len(q))
					q = q[:p] + q[p+1:]
				}
				mu.class = "query-delete"
			case 3:
				parts := strings.Split(q, "&")
				i := rng.Intn(len(parts))
				name, _, _ := strings.Cut(parts[i], "=")
				parts[i] = name + "=" + hostileSegments[rng.Intn(len(hostileSegments))]
				q = strings.Join(parts, "&")
				mu.class = "query-hostile-value"
			case 4:
				parts := strings.Split(q, "&")
				parts = append(parts, parts[rng.Intn(len(parts))])
				q = strings.Join(parts, "&")
				mu.class = "query-duplicate-param"
			case 5:
				parts := strings.Split(q, "&")
				i := rng.Intn(len(parts))
				parts = append(parts[:i], parts[i+1:]...)
				q = strings.Join(parts, "&")
				mu.class = "query-param-removed"
			}
			if strings.ContainsAny(q, " \r\n\t\x00") {
				continue
			}
			mu.target = path + "?" + q
			out = append(out, mu)
		}
	} else {
		for _, q := range []string{"?", "?&", "?=", "?a", "?%", "?a=(", "?ids=List(", "?q=", "?action=", "?q", "?action"} {
			mu := base("query-added")
			mu.target = path + q
			out = append(out, mu)
		}
	}
	// T3: body
	if takesBody(c.m) {
		for k := 0; k < budget/2+1; k++ {
			mu := base("body")
			b := w.Body
			switch rng.Intn(5) {
			case 0:
				b = b[:rng.Intn(len(b)+1)]
				mu.class = "body-truncated"
			case 1:
				p := rng.Intn(len(b) + 1)
				b = b[:p] + pickByte(rng, `{}[],:"\`) + b[p:]
				mu.class = "body-insert"
			case 2:
				if len(b) > 0 {
					p := rng.Intn(len(b))
					b = b[:p] + b[p+1:]
				}
				mu.class = "body-delete"
			case 3:
				if len(b) > 0 {
					p := rng.Intn(len(b))
					b = b[:p] + pickByte(rng, `{}[],:"\`) + b[p+1:]
				}
				mu.class = "body-replace"
			case 4:
				b = hostileBodies[rng.Intn(len(hostileBodies))]
				mu.class = "body-hostile"
			}
			mu.body = b
			if why := certainlyMalformedJSON(b); why != "" {
				mu.malformed = "body: " + why
			}
			out = append(out, mu)
		}
	}
	// T4: headers
	for _, h := range []struct{ k, v string }{
		{"X-Restli-Method", "nonsense"}, {"X-Restli-Method", ""}, {"X-Restli-Method", "GET"}, {"X-Restli-Method", "batch_partial_update"}, {"X-Restli-Method", "action"}, {"X-Restli-Method", "finder"},
		{"X-Http-Method-Override", "GET"}, {"X-Http-Method-Override", "PUT"}, {"X-Http-Method-Override", "nonsense"}, {"Content-Type", "multipart/mixed"}, {"Content-Type", "multipart/mixed; boundary="},
		{"Content-Type", "multipart/mixed; boundary=x"}, {"Content-Type", "application/x-www-form-urlencoded"}, {"Content-Type", ";;;"}, {"X-Restli-Protocol-Version", "1.0.0"}, {"X-Restli-Protocol-Version", "x"},
	} {
		mu := base("header:" + h.k + "=" + h.v)
		mu.header.Set(h.k, h.v)
		out = append(out, mu)
		if h.k == "X-Http-Method-Override" {
			// a tunnelled request: POST with the override
			mu2 := base("tunnelled:" + h.v)
			mu2.method = "POST"
			mu2.header.Set(h.k, h.v)
			out = append(out, mu2)
			for _, ct := range []string{"multipart/mixed; boundary=xyz", "application/x-www-form-urlencoded", "text/plain", ""} {
				for _, b := range []string{"", "ids=List(", "--xyz", "--xyz\r\n\r\n", "--xyz\r\nContent-Type: application/x-www-form-urlencoded\r\n\r\nids=List(\r\n--xyz--", "--xyz\r\nContent-Type: x\r\n\r\n%\r\n--xyz\r\nContent-Type: application/json\r\n\r\n{\r\n--xyz--", "%", "a=%zz", "=&="} {
					mu3 := base("tunnelled-body:" + h.v + "|" + ct)
					mu3.method = "POST"
					mu3.header.Set(h.k, h.v)
					if ct == "" {
						mu3.header.Del("Content-Type")
					} else {
						mu3.header.Set("Content-Type", ct)
					}
					mu3.body = b
					out = append(out, mu3)
				}
			}
		}
	}
	// T5: other verbs on the same target
	for _, v := range []string{"GET", "POST", "PUT", "DELETE", "PATCH", "OPTIONS", "HEAD"} {
		if v != w.Method {
			mu := base("verb:" + v)
			mu.method = v
			out = append(out, mu)
		}
	}
	return out
}

func statusClass(s int) string {
	return fmt.Sprintf("%dxx", s/100)
}

func serverSide(run *ev.Run, srv *rig.Server, caps []*capture, rng *rand.Rand, mounting string, harnessFault map[string]string, mu *sync.Mutex) {
	budget := run.Pick(12, 60)
	type job struct {
		c  *capture
		mu reqMutation
		id string
	}
	var jobs []job
	n := 0
	for _, c := range caps {
		for _, m := range mutateRequest(c, rng, srv.Prefix, budget) {
			n++
			jobs = append(jobs, job{c, m, fmt.Sprintf("c04s-%s-%d", mounting, n)})
		}
	}
	var wg sync.WaitGroup
	ch := make(chan job, 64)
	for w := 0; w < 8; w++ {
		wg.Add(1)
		go func() {
			defer wg.Done()
			for j := range ch {
				hdr := j.mu.header
				hdr.Set("X-Verif-Req", j.id)
				resp := rawSend(srv.Addr, j.mu.method, j.mu.target, hdr, j.mu.body)
				obs := srv.Take(j.id)
				run.Eval(1)
				run.Count(GENERATION+".http.server.requests", 1)
				mu.Lock()
				fault := harnessFault[j.id]
				mu.Unlock()
				desc := map[string]any{"generation": GENERATION, "mounting": mounting, "method": j.c.res.Namespace + "." + j.c.m.Name, "mutation": j.mu.class, "request": j.mu.method + " " + trunc(j.mu.target),
					"request_body": trunc(j.mu.body), "status": resp.status, "response_body": trunc(resp.body), "transport_error": resp.err, "invocations": len(obs), "valid_request": j.c.wire.Method + " " + trunc(j.c.wire.Target)}
				sig := func(what string) string {
					class := j.mu.class
					if i := strings.IndexAny(class, ":"); i >= 0 && !strings.HasPrefix(class, "header:X-Restli-Method") {
						class = class[:i]
					}
					return fmt.Sprintf(GENERATION+"/http-server/%s/%s/%s", what, j.c.kind, class)
				}
				if fault != "" || strings.Contains(resp.body, "rig: ") {
					run.Count("observed_only.harness_could_not_script_outcome", 1)
					continue
				}
				if resp.status >= 500 && len(obs) > 0 && strings.Contains(resp.body, "Illegal constant for") {
					// the mock echoed a key that the request spelled with an unknown enum symbol (decoded leniently to the
					// unknown constant); the failure to serialize it is the mock's doing
					run.Count("observed_only.mock_echoed_unknown_enum_key", 1)
					continue
				}
				switch {
				case resp.err != "" && resp.status == 0:
					run.Violation(sig("no-response"), desc)
				case resp.status >= 500:
					run.Violation(sig("5xx"), desc)
				case strings.Contains(resp.body, "stackTrace") || strings.Contains(resp.body, "goroutine "):
					run.Violation(sig("stack-trace"), desc)
				case j.mu.malformed != "" && len(obs) > 0:
					desc["malformed_because"] = j.mu.malformed
					run.Violation(sig("malformed-request-reached-resource"), desc)
				case j.mu.malformed != "" && resp.status < 400:
					desc["malformed_because"] = j.mu.malformed
					run.Violation(sig("malformed-request-not-4xx"), desc)
				default:
					if j.mu.malformed != "" {
						run.Count(GENERATION+".http.server.malformed_rejected", 1)
						if n := atomic.AddInt64(&sampleTick, 1); n%397 == 1 {
							desc["malformed_because"] = j.mu.malformed
							run.Sample(desc)
						}
					}
					run.Distinct(GENERATION + "|http-server|" + j.c.kind + "|" + strings.SplitN(j.mu.class, ":", 2)[0] + "|" + statusClass(resp.status))
				}
			}
		}()
	}
	for _, j := range jobs {
		ch <- j
	}
	close(ch)
	wg.Wait()
	if log := srv.TakeErrLog(); strings.Contains(log, "panic serving") {
		run.Violation(GENERATION+"/http-server/panic-serving-in-server-log/"+mounting, map[string]any{"server_log": trunc(log)})
	}
}

// scriptedRT answers every request with one prepared response.
type scriptedRT struct {
	status int
	header http.Header
	body   string
}

func (s *scriptedRT) RoundTrip(req *http.Request) (*http.Response, error) {
	if req.Body != nil {
		io.Copy(io.Discard, req.Body)
		req.Body.Close()
	}
	return &http.Response{StatusCode: s.status, Status: fmt.Sprintf("%d x", s.status), Proto: "HTTP/1.1", ProtoMajor: 1, ProtoMinor: 1, Header: s.header.Clone(),
		Body: io.NopCloser(strings.NewReader(s.body)), ContentLength: int64(len(s.body)), Request: req}, nil
}

func clientSide(run *ev.Run, ks *bridge.Set, srv *rig.Server, caps []*capture, rng *rand.Rand, mounting string) {
	if mounting != "bare" {
		return // the client does not depend on the mounting
	}
	budget := run.Pick(25, 150)
	n := 0
	for _, c := range caps {
		if !c.valid {
			continue
		}
		w := c.wire
		type respMutation struct {
			class  string
			status int
			header http.Header
			body   string
		}
		var muts []respMutation
		base := func(class string) respMutation {
			return respMutation{class, w.Status, w.RespHeader.Clone(), w.RespBody}
		}
		for k := 0; k < budget; k++ {
			mu := base("")
			b := w.RespBody
			switch rng.Intn(6) {
			case 0:
				b = b[:rng.Intn(len(b)+1)]
				mu.class = "body-truncated"
			case 1:
				p := rng.Intn(len(b) + 1)
				b = b[:p] + pickByte(rng, `{}[],:"\()'%`) + b[p:]
				mu.class = "body-insert"
			case 2:
				if len(b) > 0 {
					p := rng.Intn(len(b))
					b = b[:p] + b[p+1:]
				}
				mu.class = "body-delete"
			case 3:
				if len(b) > 0 {
					p := rng.Intn(len(b))
					b = b[:p] + pickByte(rng, `{}[],:"\()'%`) + b[p+1:]
				}
				mu.class = "body-replace"
			case 4:
				b = hostileBodies[rng.Intn(len(hostileBodies))]
				mu.class = "body-hostile"
			case 5:
				// hostile keys inside batch maps / other shapes the client decodes with the ROR2 reader
				h := hostileSegments[rng.Intn(len(hostileSegments))]
				kb, _ := json.Marshal(h)
				b = fmt.Sprintf(`{"results":{%s:{}},"statuses":{%s:200},"errors":{%s:{"status":400}},"elements":[{"id":%s,"status":201,"error":{"status":1}}],"value":%s,"paging":{"count":"x"},"metadata":[]}`, kb, kb, kb, kb, kb)
				mu.class = "body-hostile-keys"
			}
			mu.body = b
			muts = append(muts, mu)
		}
		for _, h := range hostileSegments {
			if strings.ContainsAny(h, "\r\n\x00") {
				continue
			}
			mu := base("id-header")
			mu.header.Set("X-RestLi-Id", h)
			muts = append(muts, mu)
			mu2 := base("location-header")
			mu2.header.Set("Location", "/x/"+h)
			mu2.header.Del("X-RestLi-Id")
			muts = append(muts, mu2)
		}
		for _, st := range []int{200, 201, 204, 301, 400, 404, 500, 599} {
			for _, eh := range []string{"", "true", "false", "TRUE", "x"} {
				for _, b := range []string{w.RespBody, "", "{", `{"status":"x"}`, `{"status":400,"message":1}`, `[]`, `{"status":400,"errorDetails":[]}`, "null"} {
					mu := base(fmt.Sprintf("status-%d-error-header-%q", st, eh))
					mu.status = st
					mu.header.Del("X-Restli-Error-Response")
					if eh != "" {
						mu.header.Set("X-RestLi-Error-Response", eh)
					}
					mu.body = b
					muts = append(muts, mu)
				}
			}
		}
		cl := rig.NewClient(ks, "http://c04.invalid", 0, n%2 == 0)
		for _, mu := range muts {
			n++
			cl.SetTransport(&scriptedRT{mu.status, mu.header, mu.body})
			id := fmt.Sprintf("c04c-%d", n)
			out, _, err := cl.Invoke(c.res, c.m, c.call, id)
			run.Eval(1)
			run.Count(GENERATION+".http.client.responses", 1)
			class := mu.class
			if strings.HasPrefix(class, "status-") {
				class = "status+error-header"
			}
			if out != nil && out.Err != nil && out.Err.Kind == "PANIC-IN-CALLER" {
				run.Violation(fmt.Sprintf(GENERATION+"/http-client/panic-in-caller/%s/%s", c.kind, class), map[string]any{"generation": GENERATION, "method": c.res.Namespace + "." + c.m.Name, "mutation": mu.class,
					"response_status": mu.status, "response_header": mu.header, "response_body": trunc(mu.body), "panic": trunc(out.Err.Text)})
				continue
			}
			if err != nil {
				run.Count("observed_only.rig_could_not_read_result", 1)
			}
			outcome := "value"
			if out != nil && out.Err != nil {
				outcome = "error"
			}
			run.Distinct(GENERATION + "|http-client|" + c.kind + "|" + class + "|" + outcome)
		}
	}
}

func pickByte(rng *rand.Rand, s string) string { return string(s[rng.Intn(len(s))]) }

// certainlyMalformedROR2: only breakage that no reading of the protocol accepts - a percent sign that does not start
// an escape, or parentheses that do not balance.  (Unescaped reserved characters such as a lone colon are accepted
// leniently as text by the library; that is not held against it.)
func certainlyMalformedROR2(s string) string {
	depth := 0
	for i := 0; i < len(s); i++ {
		switch s[i] {
		case '%':
			if i+2 >= len(s) {
				return "truncated percent escape"
			}
			if !isHex(s[i+1]) || !isHex(s[i+2]) {
				return "invalid percent escape"
			}
			i += 2
		case '(':
			depth++
		case ')':
			depth--
			if depth < 0 {
				return "unbalanced parentheses"
			}
		}
	}
	if depth != 0 {
		return "unbalanced parentheses"
	}
	_ = refcodec.Path
	return ""
}

func isHex(c byte) bool {
	return c >= '0' && c <= '9' || c >= 'a' && c <= 'f' || c >= 'A' && c <= 'F'
}

// certainlyMalformedJSON: empty, or brackets / braces / string quotes that do not balance.  Malformed tokens inside a
// balanced document (which a streaming reader may skip without looking) are not counted.
func certainlyMalformedJSON(b string) string {
	if strings.TrimSpace(b) == "" {
		return "empty"
	}
	var stack []byte
	inString := false
	for i := 0; i < len(b); i++ {
		c := b[i]
		if inString {
			switch c {
			case '\\':
				i++
			case '"':
				inString = false
			}
			continue
		}
		switch c {
		case '"':
			inString = true
		case '{', '[':
			stack = append(stack, c)
		case '}', ']':
			if len(stack) == 0 || (c == '}') != (stack[len(stack)-1] == '{') {
				return "brackets do not balance"
			}
			stack = stack[:len(stack)-1]
		}
	}
	if inString || len(stack) != 0 {
		return "document ends inside a string, object or array"
	}
	return ""
}

var sampleTick int64

func trunc(s string) string {
	if len(s) > 400 {
		return s[:400] + fmt.Sprintf("...(%d bytes)", len(s))
	}
	return s
}
