package gen2

import "github.com/PapaCharlie/go-restli/v2/restlicodec"

var (
	requiredA = restlicodec.NewRequiredFields().Add("a")
	requiredX = restlicodec.NewRequiredFields().Add("x")
)
