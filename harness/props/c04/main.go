// C04 — decoder robustness: hostile input yields an error, never a panic, hang or 5xx.
//
// Monitor (codec level): every reader constructor (JSON, ROR2, query value, whole query string, untyped Go value) x
// a set of schema-shaped decode programs written against the Reader interface (both generations) and the generated
// unmarshalers of every type of the generated schema sets (v2) are run on (1) all strings up to a bounded number of
// tokens over the delimiter alphabets of ROR2, JSON and query strings, (2) every truncation and sampled single-edit
// mutations (delete / insert / replace with a delimiter) of valid encodings of generated values in every wire
// format, (3) a list of hostile Go values.  A recovered panic is a violation (deduplicated by format and innermost
// library frame); a worker that makes no progress is re-run alone in a child process and is a violation only if it
// does not finish there either.
// Monitor (HTTP level): see http.go.
package main

import (
	"encoding/json"
	"fmt"
	"io"
	"log"
	"math/rand"
	"os"
	"os/exec"
	"path/filepath"
	"reflect"
	"regexp"
	"strings"
	"sync"
	"sync/atomic"
	"time"
	"unsafe"

	"verifh/bridge"
	"verifh/codec"
	"verifh/codec1"
	"verifh/corpus"
	"verifh/ev"
	"verifh/gen/all"
	"verifh/genr/allr"
	"verifh/model"
	"verifh/props/c04/gen1"
	"verifh/props/c04/gen2"
)

var ror2Tokens = []string{"(", ")", ",", ":", "'", "%", "%2", "%28", "a", "1", "List(", "$params", "~"}
var jsonTokens = []string{"{", "}", "[", "]", ",", ":", `"a"`, `"`, "1", "-", "e", "null", "true", `\`, `"\u00`, " ", `"$params"`, "."}
var queryTokens = []string{"a", "=", "&", "(", ")", ",", ":", "%", "%2", "+", "List(", ".", "a=1", ";"}

func enumerate(tokens []string, maxLen int, f func(string)) {
	var rec func(prefix string, n int)
	rec = func(prefix string, n int) {
		f(prefix)
		if n == maxLen {
			return
		}
		for _, t := range tokens {
			rec(prefix+t, n+1)
		}
	}
	rec("", 0)
}

type item struct {
	text  string
	only  string   // format restriction for the generic programs ("" = all text formats)
	typed []typedT // generated types to decode the text as (v2)
	any   *anyCase
	class string
}

type typedT struct {
	set    *bridge.Set
	full   string
	format codec.Format
	root   bool // decode with the root-module bindings of the same schema set (codec1 / allr)
}

type anyCase struct {
	desc string
	v    any
}

type worker struct {
	s1    gen1.Slot
	s2    gen2.Slot
	typed atomic.Value
	steps int64
	busy  int32
}

func (w *worker) progress() int64 {
	return atomic.LoadInt64(&w.s1.Steps) + atomic.LoadInt64(&w.s2.Steps) + atomic.LoadInt64(&w.steps)
}

func (w *worker) where() string {
	var out []string
	for _, v := range []any{w.s1.Current.Load(), w.s2.Current.Load(), w.typed.Load()} {
		if s, ok := v.(string); ok {
			out = append(out, s)
		}
	}
	return strings.Join(out, "  ||  ")
}

func trunc(s string) string {
	if len(s) > 400 {
		return s[:400] + fmt.Sprintf("...(%d bytes)", len(s))
	}
	return s
}

func lastSegment(frame string) string {
	if i := strings.LastIndex(frame, "/"); i >= 0 {
		return frame[i+1:]
	}
	return frame
}

func process(run *ev.Run, w *worker, it item) {
	report := func(gen, format, program, input, panicText, frame, stack string) {
		run.Violation(fmt.Sprintf("%s/codec/panic/%s/%s", gen, format, lastSegment(frame)), map[string]any{
			"generation": gen, "format": format, "program": program, "input": trunc(input), "input_class": it.class, "panic": trunc(panicText), "frame": frame, "stack": trunc(stack)})
	}
	if it.any != nil {
		f2, a2, r2 := gen2.ProbeAny(&w.s2, it.any.desc, it.any.v)
		f1, a1, r1 := gen1.ProbeAny(&w.s1, it.any.desc, it.any.v)
		run.Eval(a1 + r1 + a2 + r2 + len(f1) + len(f2))
		run.Count("any.runs", a1+r1+a2+r2)
		run.Distinct("any|" + it.any.desc)
		for _, f := range f2 {
			report(f.Generation, f.Format, f.Program, f.Input, f.Panic, f.Frame, f.Stack)
		}
		for _, f := range f1 {
			report(f.Generation, f.Format, f.Program, f.Input, f.Panic, f.Frame, f.Stack)
		}
		return
	}
	f2, a2, r2 := gen2.Probe(&w.s2, it.text, it.only)
	f1, a1, r1 := gen1.Probe(&w.s1, it.text, it.only)
	run.Eval(a1 + r1 + a2 + r2 + len(f1) + len(f2))
	run.Count("generic.accepted", a1+a2)
	run.Count("generic.rejected", r1+r2)
	run.Count("inputs."+it.class, 1)
	if n := atomic.AddInt64(&sampleTick, 1); n%20011 == 1 {
		run.Sample(map[string]any{"input_class": it.class, "input": trunc(it.text), "formats": it.only, "program_runs_accepting": a1 + a2, "program_runs_rejecting": r1 + r2, "panics": len(f1) + len(f2), "generated_decoders_run": len(it.typed)})
	}
	if a1 != a2 || r1 != r2 {
		run.Count("observed_only.generations_disagree_on_acceptance", 1)
	}
	for _, f := range f2 {
		report(f.Generation, f.Format, f.Program, f.Input, f.Panic, f.Frame, f.Stack)
	}
	for _, f := range f1 {
		report(f.Generation, f.Format, f.Program, f.Input, f.Panic, f.Frame, f.Stack)
	}
	for _, t := range it.typed {
		gen := "v2"
		if t.root {
			gen = "root"
		}
		w.typed.Store(gen + "|" + t.format.Name + "|" + t.full + "|" + it.text)
		atomic.AddInt64(&w.steps, 1)
		var err error
		if t.root {
			_, err = codec1.Decode(codec1.FormatByName(t.format.Name), t.set, t.full, it.text)
		} else {
			_, err = codec.Decode(t.format, t.set, t.full, it.text)
		}
		run.Eval(1)
		if pe, ok := err.(*codec.PanicError); ok {
			report(gen, t.format.Name, "generated:"+t.full, it.text, pe.Value, pe.Frame, pe.Stack)
		} else if pe, ok := err.(*codec1.PanicError); ok {
			report(gen, t.format.Name, "generated:"+t.full, it.text, pe.Value, pe.Frame, pe.Stack)
		} else if err == nil {
			run.Count("typed.accepted", 1)
		} else {
			run.Count("typed.rejected", 1)
		}
	}
}

var sampleTick int64

type selfRef struct {
	Next *selfRef
	M    map[string]any
}

func anyCases() []anyCase {
	var nilMap map[string]any
	var nilSlice []any
	var nilPtr *int
	one := 1
	pone := &one
	ch := make(chan int)
	var iface any = &pone
	type named string
	type namedBytes []byte
	type namedByteArray [4]byte
	deep := any("leaf")
	for i := 0; i < 2000; i++ {
		deep = []any{deep}
	}
	deepMap := any("leaf")
	for i := 0; i < 2000; i++ {
		deepMap = map[string]any{"a": deepMap}
	}
	return []anyCase{
		{"nil", nil}, {"true", true}, {"int", 1}, {"int8", int8(-3)}, {"uint64-max", ^uint64(0)}, {"uint8", uint8(200)}, {"float64", 1.5}, {"float32-nan", float32(nanF())},
		{"string", "s"}, {"named-string", named("n")}, {"bytes", []byte{0, 255}}, {"json.Number", json.Number("12")}, {"json.Number-bad", json.Number("1x")},
		{"slice", []any{"a", 1, nil, []any{}}}, {"typed-slice", []string{"a", "b"}}, {"array", [3]int{1, 2, 3}}, {"map", map[string]any{"a": "x", "b": 1, "c": []any{"y"}, "d": map[string]any{"x": 2}}},
		{"map-any-keys", map[any]any{1: "x", "a": 2, nil: 3}}, {"map-int-keys", map[int]string{1: "a"}}, {"map-struct-values", map[string]struct{}{"a": {}}},
		{"nil-map", nilMap}, {"nil-slice", nilSlice}, {"nil-pointer", nilPtr}, {"pointer", pone}, {"pointer-to-pointer", &pone}, {"interface-holding-pointer", iface},
		{"struct", struct{ A string }{"x"}}, {"struct-pointer", &struct{ a int }{1}}, {"chan", ch}, {"func", func() {}}, {"complex", complex(1, 2)}, {"uintptr", uintptr(7)}, {"unsafe-pointer", unsafe.Pointer(pone)},
		{"error", fmt.Errorf("boom")}, {"time", time.Unix(0, 0)}, {"reflect.Value", reflect.ValueOf(1)}, {"map-with-nil-values", map[string]any{"a": nil, "c": nil}}, {"map-with-chan", map[string]any{"a": ch, "c": []any{func() {}}}},
		{"slice-of-maps-with-bad-leaves", []any{map[string]any{"a": complex(1, 1)}, map[any]any{ch: 1}}}, {"deep-slices-2000", deep}, {"deep-maps-2000", deepMap},
		{"map-a-wrong-types", map[string]any{"a": []any{1}, "b": "x", "c": "y", "d": []any{}}}, {"map-a-string", map[string]any{"a": "v", "b": int64(1) << 40, "c": []any{"x", 1}, "d": map[string]any{"x": "not a number"}}},
		{"byte-array", [3]byte{1, 2, 3}}, {"byte-array-pointer", &[3]byte{1, 2, 3}}, {"byte-array-in-map", map[string]any{"a": [2]byte{1, 2}, "b": [0]byte{}, "c": [2]byte{3, 4}, "d": [1]byte{5}}},
		{"byte-array-in-slice", []any{[2]byte{1, 2}, "x"}}, {"named-bytes", namedBytes{1, 2}}, {"named-bytes-in-map", map[string]any{"a": namedBytes("x"), "c": []any{namedBytes("y")}}},
		{"named-byte-array", namedByteArray{1, 2, 3, 4}}, {"int8-slice", []int8{1, 2}}, {"uint16-array", [2]uint16{1, 2}}, {"rune-slice", []rune("ab")}, {"empty-byte-array", [0]byte{}},
		{"union-two-members", map[string]any{"string": "x", "int": 1}}, {"union-nil-member", map[string]any{"string": nil}}, {"big-float-to-int", 1e300}, {"negative-to-uint", -1}, {"string-number", "12"}, {"string-bool", "true"},
	}
}

func nanF() float64 {
	var z float64
	return z / z
}

func mutants(rng *rand.Rand, doc string, delims string, budget int) []string {
	seen := map[string]bool{doc: true}
	var out []string
	add := func(s string) {
		if !seen[s] {
			seen[s] = true
			out = append(out, s)
		}
	}
	// truncations
	if len(doc) <= budget/2 {
		for i := 0; i < len(doc); i++ {
			add(doc[:i])
		}
	} else {
		for i := 0; i < budget/2; i++ {
			add(doc[:rng.Intn(len(doc))])
		}
	}
	for tries := 0; len(out) < budget && len(doc) > 0 && tries < 6*budget; tries++ {
		p := rng.Intn(len(doc) + 1)
		d := string(delims[rng.Intn(len(delims))])
		switch rng.Intn(5) {
		case 0:
			if p < len(doc) {
				add(doc[:p] + doc[p+1:])
			}
		case 1:
			add(doc[:p] + d + doc[p:])
		case 2:
			if p < len(doc) {
				add(doc[:p] + d + doc[p+1:])
			}
		case 3: // delete a span
			q := p + rng.Intn(8)
			if q > len(doc) {
				q = len(doc)
			}
			add(doc[:p] + doc[q:])
		case 4: // duplicate a span
			q := p + rng.Intn(8)
			if q > len(doc) {
				q = len(doc)
			}
			add(doc[:q] + doc[p:])
		}
	}
	return out
}

func main() {
	log.SetOutput(io.Discard)
	if len(os.Args) >= 3 && os.Args[1] == "--one" {
		oneChild(os.Args[2])
		return
	}
	run := ev.Start("C04")
	defer run.Guard()
	run.Rule("codec level: case = (generation, reader constructor, decode program or generated type, input); inputs = every string of up to N tokens over the ROR2, JSON and query-string delimiter alphabets, every truncation and sampled single edits of valid encodings of generated values in all five wire formats, 50 hostile untyped Go values; " +
		"thorough tier: Go's native coverage-guided fuzzing engine on the same decode programs and on the generated decoders (7 targets x 60 s); HTTP level: case = (mounting, generated method, mutated request or mutated response), see the http.* counters. A panic recovered from library code, a 5xx / stack trace / dropped connection for any request against resources that always succeed, an invocation for a request whose body or key does not parse, or a panic in the caller's goroutine is a violation; a stalled worker is re-run alone before it counts. " +
		"distinct = distinct (format, program or type, outcome class) for the codec level + (method kind, mutation class, status class) for HTTP")
	run.Assume("readers whose inner reader is not consumed by the callback are documented as undefined and are not exercised", "cyclic Go values are not fed to the interface reader", "generated decoders, HTTP level and Reader-interface programs: both generations (root through bindings written by its own generator)")
	rng := rand.New(rand.NewSource(run.Seed))
	if len(all.Sets) == 0 {
		run.Inconclusive("no generated schema sets")
		run.Finish()
	}
	var ks *bridge.Set
	for _, s := range all.Sets {
		if s.Name == "ks" {
			ks = s
		}
	}
	if ks == nil {
		run.Inconclusive("kitchen sink missing")
		run.Finish()
	}
	var ksRoot *bridge.Set
	rootSets := map[string]*bridge.Set{}
	for _, s := range allr.Sets {
		rootSets[s.Name] = s
		if s.Name == "ks" {
			ksRoot = s
		}
	}
	if ksRoot == nil {
		run.Inconclusive("root-module kitchen sink bindings missing")
	}
	items := make(chan item, 1024)
	workers := make([]*worker, 14)
	var wg sync.WaitGroup
	for i := range workers {
		w := &worker{}
		workers[i] = w
		wg.Add(1)
		go func() {
			defer wg.Done()
			for it := range items {
				atomic.StoreInt32(&w.busy, 1)
				process(run, w, it)
				atomic.StoreInt32(&w.busy, 0)
			}
		}()
	}
	// watchdog: a busy worker without progress for 30 s is handed to a child process
	stopWatch := make(chan struct{})
	var stalled []string
	var stallMu sync.Mutex
	go func() {
		last := make([]int64, len(workers))
		since := make([]time.Time, len(workers))
		for {
			select {
			case <-stopWatch:
				return
			case <-time.After(2 * time.Second):
			}
			for i, w := range workers {
				p := w.progress()
				if p != last[i] || atomic.LoadInt32(&w.busy) == 0 {
					last[i], since[i] = p, time.Now()
					continue
				}
				if time.Since(since[i]) > 30*time.Second {
					stallMu.Lock()
					stalled = append(stalled, w.where())
					stallMu.Unlock()
					since[i] = time.Now().Add(24 * time.Hour)
				}
			}
			stallMu.Lock()
			n := len(stalled)
			stallMu.Unlock()
			if n > 0 {
				// the stalled goroutine cannot be stopped: decide now and leave
				decideStalls(run, stalled)
				run.Finish()
			}
		}
	}()

	// typed decoders for the exhaustive strings: a fixed selection of kitchen-sink types
	pick := []string{"ks.kt.Prims", "ks.kt.OptPrims", "ks.kt.Containers", "ks.kt.U", "ks.kt.NU", "ks.kt.CK", "ks.kt.Recursive", "ks.kt.Keywords", "ks.kt.Defaults", "ks.kt.Top", "ks.kt.Color", "ks.kt.TwoIncludes"}
	typedFor := func(formats ...string) []typedT {
		var out []typedT
		for _, tn := range pick {
			if _, ok := ks.Types[tn]; !ok {
				continue
			}
			for _, fn := range formats {
				out = append(out, typedT{ks, tn, codec.FormatByName(fn), false})
				if ksRoot != nil {
					if _, ok := ksRoot.Types[tn]; ok {
						out = append(out, typedT{ksRoot, tn, codec.FormatByName(fn), true})
					}
				}
			}
		}
		return out
	}
	ror2Typed, jsonTyped := typedFor("ror2-header", "ror2-query"), typedFor("json-compact")
	if len(ror2Typed) < 10 {
		run.Inconclusive("kitchen-sink types not found in the registry")
	}
	n := run.Pick(4, 5)
	enumerate(ror2Tokens, n, func(s string) { items <- item{text: s, only: "ror2", typed: ror2Typed, class: "ror2-alphabet"} })
	enumerate(ror2Tokens, n, func(s string) { items <- item{text: s, only: "query-value", class: "ror2-alphabet-as-query-value"} })
	enumerate(jsonTokens, run.Pick(3, 4), func(s string) { items <- item{text: s, only: "json", typed: jsonTyped, class: "json-alphabet"} })
	enumerate(queryTokens, n, func(s string) { items <- item{text: s, only: "query-string", class: "query-alphabet"} })
	for _, a := range anyCases() {
		a := a
		items <- item{any: &a, class: "any"}
	}
	// key chains: nested single-member objects over a key alphabet that contains the patch directives and the wildcard
	chainKeys := []string{"a", "b", "c", "d", "m", "x", "$set", "$delete", "$params", "*"}
	var chain func(keys []string, depth int)
	chain = func(keys []string, depth int) {
		if len(keys) > 0 {
			j, r := "1", "1"
			for i := len(keys) - 1; i >= 0; i-- {
				j = fmt.Sprintf(`{%q:%s}`, keys[i], j)
				r = "(" + keys[i] + ":" + r + ")"
			}
			items <- item{text: j, only: "json", typed: jsonTyped, class: "key-chain"}
			items <- item{text: r, only: "ror2", typed: ror2Typed, class: "key-chain"}
			// the same chains ending in an explicit null (a legal way to spell "absent"), alone and beside a sibling
			for _, leaf := range []string{`null`, `[null]`, `{"a":null,"b":1}`, `{"b":1,"a":null}`} {
				jn := leaf
				for i := len(keys) - 1; i >= 0; i-- {
					jn = fmt.Sprintf(`{%q:%s}`, keys[i], jn)
				}
				items <- item{text: jn, only: "json", typed: jsonTyped, class: "key-chain-null"}
			}
			var nullTree any
			for i := len(keys) - 1; i >= 0; i-- {
				nullTree = map[string]any{keys[i]: nullTree, "b": 1}
			}
			items <- item{any: &anyCase{"key-chain-null " + r, nullTree}, class: "any"}
			var tree any = 1
			for i := len(keys) - 1; i >= 0; i-- {
				tree = map[string]any{keys[i]: tree}
			}
			items <- item{any: &anyCase{"key-chain " + r, tree}, class: "any"}
		}
		if depth == 0 {
			return
		}
		for _, k := range chainKeys {
			chain(append(append([]string{}, keys...), k), depth-1)
		}
	}
	chain(nil, run.Pick(3, 4))
	// truncations and edits of valid encodings
	perType := run.Pick(3, 25)
	budget := run.Pick(60, 400)
	for _, set := range all.Sets {
		g := model.NewGen(set.Schema, rng)
		g.Hostile = 0.2
		names := make([]string, 0, len(set.Schema.Types))
		for _, td := range set.Schema.Types {
			names = append(names, td.FullName())
		}
		for _, tn := range names {
			for i := 0; i < perType; i++ {
				v := g.Value(corpus.R(tn), 0)
				ptr, err := codec.BuildGo(set, tn, v)
				if err != nil {
					continue
				}
				for _, f := range codec.Formats {
					doc, err := codec.Encode(f, ptr)
					if err != nil || doc == "" {
						continue
					}
					only, delims := "ror2", "(),:'%"
					switch {
					case f.JSON:
						only, delims = "json", `{}[],:"\`
					case f.Name == "ror2-query":
						only = "query-value"
					}
					other := names[rng.Intn(len(names))]
					typed := []typedT{{set, tn, f, false}, {set, other, f, false}}
					if rs := rootSets[set.Name]; rs != nil {
						if _, ok := rs.Types[tn]; ok {
							typed = append(typed, typedT{rs, tn, f, true})
						}
					}
					run.Count("valid_documents", 1)
					for _, m := range mutants(rng, doc, delims, budget) {
						items <- item{text: m, only: only, typed: typed, class: "mutated-" + f.Name}
					}
				}
			}
		}
	}
	close(items)
	wg.Wait()
	close(stopWatch)
	for _, f := range gen2.FormatNames() {
		for _, p := range gen2.ProgramNames() {
			run.Distinct("program|" + f + "|" + p)
		}
	}
	if run.Thorough() {
		coverageGuided(run)
	}
	gen2.HTTPLevel(run, rng)
	gen1.HTTPLevel(run, rand.New(rand.NewSource(run.Seed+4)))
	run.Require("v2.http.server.requests", 1000)
	run.Require("v2.http.server.malformed_rejected", 100)
	run.Require("v2.http.client.responses", 500)
	run.Require("root.http.server.requests", 1000)
	run.Require("root.http.server.malformed_rejected", 100)
	run.Require("root.http.client.responses", 500)
	run.Require("inputs.key-chain", 1000)
	run.Require("inputs.ror2-alphabet", 1000)
	run.Require("inputs.json-alphabet", 1000)
	run.Require("inputs.query-alphabet", 1000)
	run.Require("valid_documents", 100)
	run.Require("any.runs", 100)
	run.Finish()
}

// decideStalls re-runs each stalled position alone in a child process.
func decideStalls(run *ev.Run, stalled []string) {
	self, _ := os.Executable()
	dir := os.Getenv("VERIF_WORK_DIR")
	if dir == "" {
		dir = os.TempDir()
	}
	for i, where := range stalled {
		f := filepath.Join(dir, fmt.Sprintf("c04-stall-%d.txt", i))
		_ = os.WriteFile(f, []byte(where), 0o644)
		cmd := exec.Command(self, "--one", f)
		done := make(chan error, 1)
		go func() { done <- cmd.Run() }()
		select {
		case <-done:
			run.Inconclusive("a worker stalled for 30 s at " + trunc(where) + " but the same input finished when run alone")
		case <-time.After(120 * time.Second):
			_ = cmd.Process.Kill()
			run.Violation("hang/"+strings.SplitN(where, "|", 4)[0], map[string]any{"position": trunc(where), "detail": "no progress for 30 s in the worker and not finished after 120 s alone in a fresh process"})
		}
	}
}

func oneChild(file string) {
	data, err := os.ReadFile(file)
	if err != nil {
		os.Exit(3)
	}
	for _, pos := range strings.Split(string(data), "  ||  ") {
		parts := strings.SplitN(pos, "|", 4)
		if len(parts) < 4 {
			continue
		}
		var s1 gen1.Slot
		var s2 gen2.Slot
		switch {
		case parts[1] == "any":
			for _, a := range anyCases() {
				if a.desc == parts[3] {
					gen1.ProbeAny(&s1, a.desc, a.v)
					gen2.ProbeAny(&s2, a.desc, a.v)
				}
			}
		case strings.HasPrefix(parts[2], "ks.") || strings.Contains(parts[2], "."):
			for _, set := range append(append([]*bridge.Set{}, all.Sets...), allr.Sets...) {
				if _, ok := set.Types[parts[2]]; ok {
					_, _ = codec.Decode(codec.FormatByName(parts[1]), set, parts[2], parts[3])
				}
			}
		default:
			gen1.Probe(&s1, parts[3], parts[1])
			gen2.Probe(&s2, parts[3], parts[1])
		}
	}
}

var fuzzFailRe = regexp.MustCompile(`panic in (.*?) (?:reader|decoder) \((v2|root)\)(?: program (\S+)| of (\S+), (\S+),) on (.*): (.*) at (\S+)`)
var fuzzExecsRe = regexp.MustCompile(`execs: (\d+)`)
var fuzzNewRe = regexp.MustCompile(`new interesting: (\d+)`)

// coverageGuided runs Go's native fuzzing engine on the decode programs and the generated decoders (thorough tier): the
// monitors are the same panic catchers, the engine mutates the seeds under coverage feedback from the library packages.
func coverageGuided(run *ev.Run) {
	targets := []struct{ pkg, name string }{
		{"./props/c04/fuzz/", "FuzzJSON"}, {"./props/c04/fuzz/", "FuzzROR2"}, {"./props/c04/fuzz/", "FuzzQueryValue"}, {"./props/c04/fuzz/", "FuzzQueryString"},
		{"./props/c04/fuzzgen/", "FuzzTypedJSON"}, {"./props/c04/fuzzgen/", "FuzzTypedROR2"}, {"./props/c04/fuzzgen/", "FuzzTypedQuery"},
	}
	for _, tg := range targets {
		cmd := exec.Command("go", "test", "-tags", "verif", "-run", "^$", "-fuzz", "^"+tg.name+"$", "-fuzztime", "60s", tg.pkg)
		cmd.Env = append(os.Environ(), "GOFLAGS=-mod=mod")
		out, err := cmd.CombinedOutput()
		text := string(out)
		execs, interesting := 0, 0
		for _, m := range fuzzExecsRe.FindAllStringSubmatch(text, -1) {
			fmt.Sscan(m[1], &execs)
		}
		for _, m := range fuzzNewRe.FindAllStringSubmatch(text, -1) {
			fmt.Sscan(m[1], &interesting)
		}
		run.Eval(execs)
		run.Count("fuzz."+tg.name+".execs", execs)
		run.Count("fuzz."+tg.name+".interesting_inputs", interesting)
		switch {
		case err == nil:
			run.Distinct("fuzz|" + tg.name)
		case strings.Contains(text, "panic in "):
			m := fuzzFailRe.FindStringSubmatch(text)
			sig := "fuzz/" + tg.name + "/panic"
			detail := map[string]any{"target": tg.name, "output": trunc(lastLines(text, 25))}
			if m != nil {
				sig = fmt.Sprintf("%s/codec/panic/%s/%s", m[2], m[1], lastSegment(m[8]))
				detail["input"], detail["panic"], detail["frame"] = m[6], m[7], m[8]
			}
			run.Violation(sig, detail)
		default:
			run.Inconclusive("fuzz target " + tg.name + " did not run: " + trunc(lastLines(text, 12)))
		}
	}
}

func lastLines(s string, n int) string {
	lines := strings.Split(strings.TrimSpace(s), "\n")
	if len(lines) > n {
		lines = lines[len(lines)-n:]
	}
	return strings.Join(lines, "\n")
}
