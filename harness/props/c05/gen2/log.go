package gen2

import (
	"io"
	"log"
)

func newLogger(w io.Writer) *log.Logger { return log.New(w, "", 0) }
