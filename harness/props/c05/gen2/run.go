// Package gen2: generation-specific half of the C05 driver (derived to gen1 for the root module).
package gen2

import (
	"bytes"
	"fmt"
	"io"
	"math/rand"
	"net"
	"net/http"
	"reflect"
	"sort"
	"strings"
	"sync"
	"time"

	"verifh/ev"
	"verifh/props/c05/ref"
	kit "verifh/props/hw/gen2"
)

const GENERATION = "v2"

type tree struct {
	Specs []kit.ResourceSpec
	Roots map[string]*ref.Node
}

var allMethods = []string{"get", "create", "delete", "update", "partial_update", "batch_get", "batch_create", "batch_delete", "batch_update", "batch_partial_update", "get_all"}
var simpleMethods = []string{"get", "update", "delete", "partial_update"}

func subset(rng *rand.Rand, all []string, p float64) []string {
	var out []string
	for _, m := range all {
		if rng.Float64() < p {
			out = append(out, m)
		}
	}
	return out
}

// buildTree: shape fixed (so that the path shapes are meaningful), method / finder / action sets vary.
func buildTree(rng *rand.Rand, full bool) *tree {
	p := 0.5
	if full {
		p = 1.1
	}
	pick := func(all []string) []string { return subset(rng, all, p) }
	acts := func(names ...kit.ActionSpec) []kit.ActionSpec {
		var out []kit.ActionSpec
		for _, a := range names {
			if rng.Float64() < p {
				out = append(out, a)
			}
		}
		return out
	}
	specs := []kit.ResourceSpec{
		{Segments: []kit.Segment{{"coll", true}}, Methods: pick(allMethods), Finders: pick([]string{"f1", "f2"}), Actions: acts(kit.ActionSpec{Name: "act"}, kit.ActionSpec{Name: "eact", OnEntity: true})},
		{Segments: []kit.Segment{{"coll", true}, {"sub", true}}, Methods: pick(allMethods), Finders: pick([]string{"f1"}), Actions: acts(kit.ActionSpec{Name: "act"})},
		{Segments: []kit.Segment{{"coll", true}, {"ssub", false}}, Methods: pick(simpleMethods), Actions: acts(kit.ActionSpec{Name: "sact"})},
		{Segments: []kit.Segment{{"simple", false}}, Methods: pick(simpleMethods), Actions: acts(kit.ActionSpec{Name: "sact"})},
		{Segments: []kit.Segment{{"simple", false}, {"scoll", true}}, Methods: pick(allMethods), Finders: pick([]string{"f1"})},
		{Segments: []kit.Segment{{"actions", false}}, Actions: acts(kit.ActionSpec{Name: "a1"}, kit.ActionSpec{Name: "a2"})},
		// a deep branch: three siblings below a level-3 node (what a filter sees of the resource path must be the
		// request's own path, whichever sibling was registered last)
		{Segments: []kit.Segment{{"coll", true}, {"sub", true}, {"deep", false}}, Methods: []string{"get"}},
		{Segments: []kit.Segment{{"coll", true}, {"sub", true}, {"deep", false}, {"leafa", true}}, Methods: []string{"get", "get_all", "delete"}, Finders: []string{"f1"}},
		{Segments: []kit.Segment{{"coll", true}, {"sub", true}, {"deep", false}, {"leafb", false}}, Methods: []string{"get", "update"}, Actions: []kit.ActionSpec{{Name: "sact"}}},
		{Segments: []kit.Segment{{"coll", true}, {"sub", true}, {"deep", false}, {"leafc", true}}, Methods: []string{"get", "batch_get"}},
	}
	t := &tree{Roots: map[string]*ref.Node{}}
	for _, s := range specs {
		if len(s.Methods)+len(s.Finders)+len(s.Actions) == 0 && len(s.Segments) > 1 {
			continue // nothing registered below: the node never comes into existence
		}
		if len(s.Methods)+len(s.Finders)+len(s.Actions) == 0 {
			continue
		}
		t.Specs = append(t.Specs, s)
	}
	for _, s := range t.Specs {
		addToRef(t.Roots, s)
	}
	return t
}

func addToRef(roots map[string]*ref.Node, s kit.ResourceSpec) {
	var node *ref.Node
	path := ""
	for i, sg := range s.Segments {
		if i == 0 {
			path = sg.Name
			if roots[sg.Name] == nil {
				roots[sg.Name] = &ref.Node{Name: sg.Name, IsCollection: sg.IsCollection, Methods: map[string]bool{}, Finders: map[string]bool{}, Actions: map[string]bool{}, Subs: map[string]*ref.Node{}, Path: path}
			}
			node = roots[sg.Name]
		} else {
			path += "/" + sg.Name
			if node.Subs[sg.Name] == nil {
				node.Subs[sg.Name] = &ref.Node{Name: sg.Name, IsCollection: sg.IsCollection, Methods: map[string]bool{}, Finders: map[string]bool{}, Actions: map[string]bool{}, Subs: map[string]*ref.Node{}, Path: path}
			}
			node = node.Subs[sg.Name]
		}
	}
	for _, m := range s.Methods {
		node.Methods[m] = true
	}
	for _, f := range s.Finders {
		node.Finders[f] = true
	}
	for _, a := range s.Actions {
		node.Actions[a.Name] = a.OnEntity
	}
}

type mounting struct {
	name   string
	prefix string // request path prefix
	mux    bool
	pfx    string // NewPrefixedServer argument ("" = NewServer)
}

var mountings = []mounting{
	{"bare", "", false, ""},
	{"mux", "", true, ""},
	{"prefixed", "/api/v1", false, "/api/v1"},
	{"prefixed-mux", "/api/v1", true, "/api/v1/"},
}

type instance struct {
	rec    *kit.Recorder
	flog   *kit.FilterLog
	srv    *http.Server
	addr   string
	errLog *syncBuf
	client *http.Client
}

type syncBuf struct {
	mu sync.Mutex
	b  bytes.Buffer
}

func (s *syncBuf) Write(p []byte) (int, error) { s.mu.Lock(); defer s.mu.Unlock(); return s.b.Write(p) }
func (s *syncBuf) Take() string {
	s.mu.Lock()
	defer s.mu.Unlock()
	out := s.b.String()
	s.b.Reset()
	return out
}

func newInstance(t *tree, m mounting, filters []string) (*instance, error) {
	in := &instance{rec: &kit.Recorder{}, flog: &kit.FilterLog{}, errLog: &syncBuf{}}
	fs := kit.NewFilters(filters, in.flog)
	var server = kit.NewServer(fs)
	if m.pfx != "" {
		server = kit.NewPrefixedServer(m.pfx, fs)
	}
	for _, s := range t.Specs {
		kit.Register(server, s, in.rec)
	}
	var h http.Handler
	if m.mux {
		mux := http.NewServeMux()
		server.AddToMux(mux)
		h = mux
	} else {
		h = server.Handler()
	}
	ln, err := net.Listen("tcp", "127.0.0.1:0")
	if err != nil {
		return nil, err
	}
	in.addr = ln.Addr().String()
	in.srv = &http.Server{Handler: h, ErrorLog: newLogger(in.errLog)}
	go in.srv.Serve(ln)
	in.client = &http.Client{Transport: &http.Transport{MaxIdleConnsPerHost: 2}, CheckRedirect: func(*http.Request, []*http.Request) error { return http.ErrUseLastResponse }}
	return in, nil
}

type request struct {
	ref.Req
	Tunnelled bool
}

func (r request) String() string {
	return fmt.Sprintf("%s /%s hdr=%q q=%q ids=%v action=%q tunnelled=%v body=%v badkey=%v badparam=%v badbody=%v", r.Verb, strings.Join(r.Segs, "/"), r.Header, r.Q, r.IDs, r.Action, r.Tunnelled, r.HasBody, r.BadKey, r.BadParam, r.BadBody)
}

type observed struct {
	Status  int
	Body    string
	Inv     []kit.Invocation
	Filters []kit.FilterEvent
	ErrLog  string
	Err     string
}

func (in *instance) send(m mounting, r request, restliMethod string) observed {
	path := m.prefix + "/" + strings.Join(r.Segs, "/")
	var qs []string
	if r.Q != "" {
		qs = append(qs, "q="+r.Q)
	}
	if r.IDs {
		qs = append(qs, "ids=List(a,b)")
	}
	if r.Action != "" {
		qs = append(qs, "action="+r.Action)
	}
	if r.BadParam {
		qs = append(qs, "undecodable=1")
	}
	query := strings.Join(qs, "&")
	var body []byte
	if r.HasBody {
		switch restliMethod {
		case "batch_create":
			body = []byte(`{"elements":[{"x":1}]}`)
		case "batch_update", "batch_partial_update":
			body = []byte(`{"entities":{"a":{"x":1}}}`)
		default:
			body = []byte(`{"x":1}`)
		}
		if r.BadBody {
			body = []byte(`{"x":"__undecodable__"}`)
		}
	}
	verb := r.Verb
	hdr := http.Header{}
	url := "http://" + in.addr + path
	if r.Tunnelled {
		nb, th := kit.EncodeTunnelled(verb, query, body)
		body = nb
		for k := range th {
			hdr.Set(k, th.Get(k))
		}
		verb = "POST"
	} else {
		if query != "" {
			url += "?" + query
		}
		if body != nil {
			hdr.Set("Content-Type", "application/json")
		}
	}
	req, err := http.NewRequest(verb, url, bytes.NewReader(body))
	if err != nil {
		return observed{Err: err.Error()}
	}
	for k, v := range hdr {
		req.Header[k] = v
	}
	if r.Header != "" {
		req.Header.Set("X-RestLi-Method", r.Header)
	}
	req.Header.Set("X-RestLi-Protocol-Version", "2.0.0")
	in.rec.Drain()
	in.flog.Drain()
	in.errLog.Take()
	resp, err := in.client.Do(req)
	if err != nil {
		return observed{Err: err.Error(), Inv: in.rec.Drain(), Filters: in.flog.Drain(), ErrLog: in.errLog.Take()}
	}
	b, _ := io.ReadAll(resp.Body)
	resp.Body.Close()
	return observed{Status: resp.StatusCode, Body: string(b), Inv: in.rec.Drain(), Filters: in.flog.Drain(), ErrLog: in.errLog.Take()}
}

func segNames(s string) string {
	// "{coll true}/{sub true}" -> "coll/sub"
	var out []string
	for _, p := range strings.Split(s, "/") {
		p = strings.TrimPrefix(p, "{")
		if i := strings.Index(p, " "); i >= 0 {
			p = p[:i]
		}
		out = append(out, p)
	}
	return strings.Join(out, "/")
}

// judge compares one observation with the reference decision; returns "" or a violation kind.
func judge(e ref.Exp, o observed, filters []string) (string, string) {
	if o.Err != "" {
		return "no-response", o.Err
	}
	if strings.Contains(o.Body, "stackTrace") || strings.Contains(o.ErrLog, "panic") {
		return "panic", "recovered panic / stack trace in response"
	}
	if e.Unspecified {
		if o.Status >= 500 || o.Status < 200 || (o.Status >= 300 && o.Status < 400) {
			return "unspecified-case-5xx", fmt.Sprintf("status %d", o.Status)
		}
		return "", ""
	}
	failAt := -1
	for i, f := range filters {
		if f == "fail" {
			failAt = i
			break
		}
	}
	check := func(e ref.Exp) (string, string) {
		// status
		wantStatus := e.Status
		if e.Routed && failAt >= 0 {
			wantStatus = 403
		}
		switch wantStatus {
		case 200:
			if o.Status < 200 || o.Status > 299 {
				return "status", fmt.Sprintf("expected 2xx, got %d", o.Status)
			}
		default:
			if o.Status != wantStatus {
				return "status", fmt.Sprintf("expected %d, got %d", wantStatus, o.Status)
			}
		}
		// invocation
		wantInv := e.Invoked && failAt < 0
		if !wantInv && len(o.Inv) != 0 {
			return "invoked-although-not-routed", fmt.Sprintf("%d invocations", len(o.Inv))
		}
		if wantInv {
			if len(o.Inv) != 1 {
				return "invocation-count", fmt.Sprintf("%d invocations", len(o.Inv))
			}
			iv := o.Inv[0]
			if iv.Resource != e.Resource || iv.Method != e.Method {
				return "wrong-method-invoked", fmt.Sprintf("invoked %s %s", iv.Resource, iv.Method)
			}
			if !reflect.DeepEqual(append([]string{}, iv.Keys...), append([]string{}, e.Keys...)) {
				return "wrong-keys", fmt.Sprintf("keys %v", iv.Keys)
			}
			if iv.CtxMethod != e.RestliMethod {
				return "context-method", "resource code sees method " + iv.CtxMethod
			}
		}
		// filters
		var pre, post []kit.FilterEvent
		for _, f := range o.Filters {
			if f.Phase == "pre" {
				pre = append(pre, f)
			} else {
				post = append(post, f)
			}
		}
		if !e.Routed {
			if len(o.Filters) != 0 {
				return "filters-on-unrouted-request", fmt.Sprintf("%d filter callbacks", len(o.Filters))
			}
			return "", ""
		}
		wantPre := len(filters)
		if failAt >= 0 {
			wantPre = failAt + 1
		}
		if len(pre) != wantPre {
			return "filter-pre-count", fmt.Sprintf("%d PreRequest calls, expected %d", len(pre), wantPre)
		}
		var ctxSeen []int
		for i, f := range pre {
			if f.Filter != i {
				return "filter-pre-order", fmt.Sprintf("PreRequest order %v", pre)
			}
			if f.Method != e.RestliMethod {
				return "filter-sees-wrong-method", f.Method
			}
			if segNames(f.Segments) != e.Resource {
				return "filter-sees-wrong-path", f.Segments
			}
			emptyKey := len(e.Keys) > 0 && e.Keys[len(e.Keys)-1] == ""
			if !emptyKey && !reflect.DeepEqual(append([]string{}, f.Keys...), append([]string{}, e.Keys...)) {
				return "filter-sees-wrong-keys", fmt.Sprint(f.Keys)
			}
			if strings.HasPrefix(e.Method, "finder:") && f.Finder != strings.TrimPrefix(e.Method, "finder:") {
				return "filter-sees-wrong-finder", f.Finder
			}
			if strings.HasPrefix(e.Method, "action:") && f.Action != strings.TrimPrefix(e.Method, "action:") {
				return "filter-sees-wrong-action", f.Action
			}
			if !reflect.DeepEqual(append([]int{}, f.SawCtx...), append([]int{}, ctxSeen...)) {
				return "filter-context-chain", fmt.Sprintf("filter %d saw ctx %v expected %v", i, f.SawCtx, ctxSeen)
			}
			if filters[i] == "ctx" {
				ctxSeen = append(ctxSeen, i)
			}
		}
		if wantInv {
			if len(post) != len(filters) {
				return "filter-post-count", fmt.Sprintf("%d PostRequest calls, expected %d", len(post), len(filters))
			}
			for i, f := range post {
				if f.Filter != len(filters)-1-i {
					return "filter-post-order", fmt.Sprintf("PostRequest order %v", post)
				}
			}
		} else if len(post) != 0 {
			return "filter-post-after-failure", fmt.Sprintf("%d PostRequest calls", len(post))
		}
		return "", ""
	}
	if len(e.Alternatives) > 0 {
		var k, d string
		for _, a := range e.Alternatives {
			if a.Unspecified {
				if o.Status >= 500 || o.Status < 200 || (o.Status >= 300 && o.Status < 400) {
					return "unspecified-case-5xx", fmt.Sprintf("status %d", o.Status)
				}
				return "", ""
			}
			if k, d = check(a); k == "" {
				return "", ""
			}
		}
		return k, d
	}
	return check(e)
}

func enumerate(t *tree, rng *rand.Rand, stride int) []request {
	verbs := []string{"GET", "POST", "PUT", "DELETE", "PATCH"}
	// the 13 Rest.li method names, written out here (not taken from the library)
	headers := []string{"", "get", "create", "delete", "update", "partial_update", "batch_get", "batch_create", "batch_delete", "batch_update", "batch_partial_update", "get_all", "action", "finder", "bogus"}
	paths := [][]string{
		{"coll"}, {"coll", "k1"}, {"coll", ""}, {"coll", "k1", "sub"}, {"coll", "k1", "sub", "k2"}, {"coll", "k1", "sub", ""}, {"coll", "k1", "ssub"},
		{"coll", "k1", "nosuch"}, {"coll", "k1", "sub", "k2", "deeper"}, {"coll", "k1", "ssub", "x"},
		{"simple"}, {"simple", "scoll"}, {"simple", "scoll", "k9"}, {"simple", "x"}, {"simple", ""}, {"actions"},
		{"nosuch"}, {"nosuch", "k"}, {"col"}, {"colll", "k1"}, {"coll", "__undecodable__"}, {"coll", "k1", "sub", "__undecodable__"},
		// the deep branch (index >= deepFrom: sampled one case in four)
		{"coll", "k1", "sub", "k2", "deep"}, {"coll", "k1", "sub", "k2", "deep", "leafa"}, {"coll", "k1", "sub", "k2", "deep", "leafa", "k3"},
		{"coll", "k1", "sub", "k2", "deep", "leafb"}, {"coll", "k1", "sub", "k2", "deep", "leafc", "k3"}, {"coll", "k1", "sub", "k2", "deep", "leafc"},
	}
	const deepFrom = 22
	qs := []string{"", "f1", "nope"}
	acts := []string{"", "act", "eact", "sact", "a1", "nope"}
	var out []request
	n := 0
	for _, v := range verbs {
		for _, h := range headers {
			for pi, p := range paths {
				for _, q := range qs {
					for _, ids := range []bool{false, true} {
						for _, a := range acts {
							n++
							if stride > 1 && (n+len(v)+len(h))%stride != 0 {
								continue
							}
							if pi >= deepFrom && n%4 != 0 {
								continue
							}
							r := request{Req: ref.Req{Verb: v, Header: h, Segs: p, Q: q, IDs: ids, Action: a}}
							for _, s := range p {
								if s == "__undecodable__" {
									r.BadKey = true
								}
							}
							// a body exactly when the (inferred or named) method wants one, plus deliberate mismatches
							want := bodyWanted(t, r.Req)
							r.HasBody = want
							switch n % 23 {
							case 0:
								r.HasBody = !want
							case 1:
								r.BadBody = r.HasBody
							case 2:
								r.BadParam = true
							}
							out = append(out, r)
							if (q != "" || ids || a != "") && n%3 == 0 {
								rt := r
								rt.Tunnelled = true
								out = append(out, rt)
							}
						}
					}
				}
			}
		}
	}
	return out
}

func bodyWanted(t *tree, r ref.Req) bool {
	probe := r
	probe.HasBody = true
	e := ref.Decide(t.Roots, probe)
	if len(e.Alternatives) > 0 {
		e = e.Alternatives[1]
	}
	if e.Routed && e.Why != "body presence does not match the method" {
		return true
	}
	return false
}

func Run(run *ev.Run) {
	g := GENERATION
	rng := rand.New(rand.NewSource(run.Seed*31 + 5))
	nTrees := run.Pick(3, 40)
	filterConfigs := [][]string{{"ctx", "pass"}, {}, {"pass"}, {"pass", "fail", "pass"}, {"ctx", "ctx", "pass"}}
	type job struct {
		t       *tree
		m       mounting
		filters []string
		reqs    []request
		ti      int
	}
	var jobs []job
	for ti := 0; ti < nTrees; ti++ {
		t := buildTree(rng, ti == 0)
		for mi, m := range mountings {
			for fi, f := range filterConfigs {
				stride := 1
				if mi != 0 || fi != 0 {
					stride = run.Pick(29, 7)
				}
				if ti > 0 && mi == 0 && fi == 0 {
					stride = run.Pick(3, 1)
				}
				jobs = append(jobs, job{t, m, f, enumerate(t, rng, stride), ti})
			}
		}
	}
	var wg sync.WaitGroup
	ch := make(chan job)
	var sampleMu sync.Mutex
	samples := 0
	for w := 0; w < 16; w++ {
		wg.Add(1)
		go func() {
			defer wg.Done()
			for j := range ch {
				in, err := newInstance(j.t, j.m, j.filters)
				if err != nil {
					run.Inconclusive("cannot start loopback server: " + err.Error())
					continue
				}
				for ri, r := range j.reqs {
					e := ref.Decide(j.t.Roots, r.Req)
					rm := e.RestliMethod
					if len(e.Alternatives) > 0 {
						rm = e.Alternatives[1].RestliMethod
					}
					o := in.send(j.m, r, rm)
					run.Eval(1)
					kind, detail := judge(e, o, j.filters)
					if e.Unspecified {
						run.Count("observed_only.unspecified", 1)
					} else if e.Invoked {
						run.Count("routed_and_invoked", 1)
					} else if e.Routed {
						run.Count("routed_not_invoked", 1)
					} else {
						run.Count("unrouted", 1)
					}
					if kind != "" {
						sig := fmt.Sprintf("%s/%s/%s/%s", g, j.m.name, kind, classify(e, r))
						run.Violation(sig, map[string]any{"generation": g, "mounting": j.m.name, "filters": j.filters, "tree": treeDesc(j.t), "request": r.String(),
							"expected": e.String(), "observed_status": o.Status, "observed_body": trunc(o.Body), "observed_invocations": invDesc(o.Inv), "observed_filters": o.Filters, "detail": detail})
					} else if !e.Unspecified {
						run.Distinct(fmt.Sprintf("%s|%d|%s|%v|%s", g, j.ti, j.m.name, j.filters, r.String()))
						sampleMu.Lock()
						if samples < 6 && e.Invoked {
							samples++
							run.Sample(map[string]any{"generation": g, "mounting": j.m.name, "filters": j.filters, "request": r.String(), "expected": e.String(), "observed_status": o.Status, "observed_invocations": invDesc(o.Inv), "observed_filters": o.Filters})
						}
						sampleMu.Unlock()
					}
					// a prefixed server names its resources below the prefix only: the same request outside the prefix
					// names no registered resource
					if j.m.pfx != "" && !j.m.mux && e.Routed && !e.Unspecified && ri%3 == 0 {
						for _, alt := range []string{"", "/api", "/api/v1x", "/v1"} {
							m2 := j.m
							m2.prefix = alt
							o2 := in.send(m2, r, rm)
							run.Eval(1)
							if o2.Err != "" {
								continue
							}
							if o2.Status != 404 || len(o2.Inv) > 0 || len(o2.Filters) > 0 {
								run.Violation(fmt.Sprintf("%s/%s/outside-prefix-request-routed/%s", g, j.m.name, map[bool]string{true: "no-prefix", false: "other-prefix"}[alt == ""]),
									map[string]any{"generation": g, "mounting": j.m.name, "server_prefix": j.m.pfx, "request_prefix": alt, "filters": j.filters, "tree": treeDesc(j.t), "request": r.String(),
										"observed_status": o2.Status, "observed_body": trunc(o2.Body), "observed_invocations": invDesc(o2.Inv), "observed_filters": o2.Filters})
							} else {
								run.Count("outside_prefix_requests", 1)
							}
						}
					}
				}
				in.srv.Close()
			}
		}()
	}
	for _, j := range jobs {
		ch <- j
	}
	close(ch)
	wg.Wait()
	handlerSnapshot(run, g)
}

// handlerSnapshot: resources registered after a handler was obtained do not affect that handler.
func handlerSnapshot(run *ev.Run, g string) {
	for _, m := range mountings {
		rec := &kit.Recorder{}
		var server = kit.NewServer(nil)
		if m.pfx != "" {
			server = kit.NewPrefixedServer(m.pfx, nil)
		}
		kit.Register(server, kit.ResourceSpec{Segments: []kit.Segment{{"coll", true}}, Methods: []string{"get"}}, rec)
		var h http.Handler
		if m.mux {
			mux := http.NewServeMux()
			server.AddToMux(mux)
			h = mux
		} else {
			h = server.Handler()
		}
		// later registrations
		kit.Register(server, kit.ResourceSpec{Segments: []kit.Segment{{"coll", true}}, Methods: []string{"delete", "get_all"}, Finders: []string{"late"}, Actions: []kit.ActionSpec{{Name: "late"}}}, rec)
		kit.Register(server, kit.ResourceSpec{Segments: []kit.Segment{{"coll", true}, {"latesub", true}}, Methods: []string{"get"}}, rec)
		kit.Register(server, kit.ResourceSpec{Segments: []kit.Segment{{"lateroot", true}}, Methods: []string{"get"}}, rec)
		ln, err := net.Listen("tcp", "127.0.0.1:0")
		if err != nil {
			run.Inconclusive("listen: " + err.Error())
			return
		}
		srv := &http.Server{Handler: h}
		go srv.Serve(ln)
		type probe struct {
			verb, path, hdr string
			want            int // 200 class or exact
		}
		probes := []probe{
			{"GET", "/coll/k1", "", 200},
			// verbs outside GET / POST / PUT / DELETE name no method when no header says which one
			{"HEAD", "/coll/k1", "", 400},
			{"OPTIONS", "/coll/k1", "", 400},
			{"HEAD", "/coll", "", 400},
			{"TRACE", "/coll/k1", "", 400},
			{"DELETE", "/coll/k1", "", 400},
			{"GET", "/coll", "", 400},
			{"GET", "/coll?q=late", "", 400},
			{"POST", "/coll?action=late", "action", 400},
			{"GET", "/coll/k1/latesub/k2", "", 404},
			{"GET", "/lateroot/k1", "", 404},
		}
		for _, p := range probes {
			run.Eval(1)
			var body io.Reader
			if p.verb == "POST" {
				body = strings.NewReader("{}")
			}
			req, _ := http.NewRequest(p.verb, "http://"+ln.Addr().String()+m.prefix+p.path, body)
			if p.hdr != "" {
				req.Header.Set("X-RestLi-Method", p.hdr)
			}
			rec.Drain()
			resp, err := (&http.Client{Timeout: 5 * time.Second}).Do(req)
			if err != nil {
				run.Violation(g+"/"+m.name+"/handler-snapshot/no-response", map[string]any{"probe": p.verb + " " + p.path, "error": err.Error()})
				continue
			}
			io.Copy(io.Discard, resp.Body)
			resp.Body.Close()
			inv := rec.Drain()
			ok := resp.StatusCode == p.want || (p.want == 200 && resp.StatusCode/100 == 2)
			if p.want != 200 && len(inv) != 0 {
				ok = false
			}
			run.Count("handler_snapshot_probes", 1)
			if !ok && (p.verb == "HEAD" || p.verb == "OPTIONS" || p.verb == "TRACE") {
				run.Violation(g+"/"+m.name+"/verb-outside-the-protocol-routed/"+p.verb, map[string]any{"generation": g, "mounting": m.name, "probe": p.verb + " " + p.path, "status": resp.StatusCode, "expected": p.want, "invocations": invDesc(inv)})
			} else if !ok {
				run.Violation(g+"/"+m.name+"/handler-snapshot/late-registration-visible", map[string]any{"generation": g, "mounting": m.name, "probe": p.verb + " " + p.path, "status": resp.StatusCode, "expected": p.want, "invocations": invDesc(inv)})
			} else {
				run.Distinct(g + "|snapshot|" + m.name + "|" + p.path + p.verb)
			}
		}
		srv.Close()
		// a handler taken now is a snapshot of the tree as it is now: everything registered in between is served
		var h2 http.Handler
		if m.mux {
			mux := http.NewServeMux()
			server.AddToMux(mux)
			h2 = mux
		} else {
			h2 = server.Handler()
		}
		ln2, err := net.Listen("tcp", "127.0.0.1:0")
		if err != nil {
			run.Inconclusive("listen: " + err.Error())
			return
		}
		srv2 := &http.Server{Handler: h2}
		go srv2.Serve(ln2)
		for _, p := range []probe{{"GET", "/coll/k1", "", 200}, {"DELETE", "/coll/k1", "", 200}, {"GET", "/coll", "", 200}, {"GET", "/coll/k1/latesub/k2", "", 200}, {"GET", "/lateroot/k1", "", 200}} {
			run.Eval(1)
			req, _ := http.NewRequest(p.verb, "http://"+ln2.Addr().String()+m.prefix+p.path, nil)
			rec.Drain()
			resp, err := (&http.Client{Timeout: 5 * time.Second}).Do(req)
			if err != nil {
				run.Violation(g+"/"+m.name+"/later-handler/no-response", map[string]any{"probe": p.verb + " " + p.path, "error": err.Error()})
				continue
			}
			io.Copy(io.Discard, resp.Body)
			resp.Body.Close()
			inv := rec.Drain()
			run.Count("later_handler_probes", 1)
			if resp.StatusCode/100 != 2 || len(inv) != 1 {
				run.Violation(g+"/"+m.name+"/later-handler/registration-made-before-it-not-served", map[string]any{"generation": g, "mounting": m.name, "probe": p.verb + " " + p.path, "status": resp.StatusCode, "invocations": invDesc(inv)})
			} else {
				run.Distinct(g + "|later-handler|" + m.name + "|" + p.path + p.verb)
			}
		}
		srv2.Close()
	}
}

func classify(e ref.Exp, r request) string {
	var f []string
	if e.Unspecified {
		f = append(f, "unspecified")
	} else {
		f = append(f, "exp-"+fmt.Sprint(e.Status))
		if e.Routed {
			f = append(f, "routed")
		}
	}
	if r.Header != "" {
		f = append(f, "hdr")
	}
	if r.Tunnelled {
		f = append(f, "tunnelled")
	}
	if e.Why != "" {
		f = append(f, strings.ReplaceAll(e.Why, " ", "-"))
	}
	if len(e.Alternatives) > 0 {
		f = append(f, "trailing-slash")
	}
	return strings.Join(f, "+")
}

func treeDesc(t *tree) []string {
	var out []string
	for _, s := range t.Specs {
		var a []string
		for _, x := range s.Actions {
			a = append(a, fmt.Sprintf("%s(entity=%v)", x.Name, x.OnEntity))
		}
		out = append(out, fmt.Sprintf("%s methods=%v finders=%v actions=%v", s.PathName(), s.Methods, s.Finders, a))
	}
	sort.Strings(out)
	return out
}

func invDesc(inv []kit.Invocation) []string {
	var out []string
	for _, i := range inv {
		out = append(out, fmt.Sprintf("%s %s keys=%v ctxMethod=%s", i.Resource, i.Method, i.Keys, i.CtxMethod))
	}
	return out
}

func trunc(s string) string {
	if len(s) > 200 {
		return s[:200] + "..."
	}
	return s
}
