// C05 — routing and Rest.li method inference send each request to exactly one method.
package main

import (
	"verifh/ev"
	"verifh/props/c05/gen1"
	"verifh/props/c05/gen2"
)

func main() {
	run := ev.Start("C05")
	defer run.Guard()
	run.Rule("case = (generation, registered tree with PRNG method/finder/action subsets over a fixed shape [collection, sub-collection, sub-simple, simple, simple/sub-collection, action set], mounting in {bare handler, ServeMux, path prefix, prefix+ServeMux}, " +
		"0-3 filters {passing, context-adding, failing}, request from the product verb x method header {absent, 13 names, unknown} x 22 path shapes x q x ids x action x tunnelled); each request is sent over loopback HTTP and the observed " +
		"(status, invocation events, filter trace) is compared with an independent reference decision table; the full product is enumerated for the primary mounting/filter configuration of each tree, strided elsewhere. " +
		"distinct = distinct (tree, mounting, filters, request) with a specified outcome")
	run.Assume("left unspecified and only checked for 2xx/4xx without panic: a method header contradicting the verb, an unknown header value, non-GET/POST/PUT/DELETE verb with a header on a simple resource",
		"a trailing slash may be read as an empty key (400) or as no key")
	gen2.Run(run)
	gen1.Run(run)
	run.Set("generations", []string{"v2", "root"})
	run.Require("routed_and_invoked", 500)
	run.Require("unrouted", 500)
	run.Require("handler_snapshot_probes", 10)
	run.Require("outside_prefix_requests", 100)
	run.Finish()
}
