// Package ref is the reference decision table for C05, written from the property statement and the
// Rest.li protocol description of method inference.  It imports nothing from go-restli.
package ref

import "strings"

type Node struct {
	Name         string
	IsCollection bool
	Methods      map[string]bool
	Finders      map[string]bool
	Actions      map[string]bool // name -> registered on entity level?
	Subs         map[string]*Node
	Path         string // registered path, e.g. "coll/sub"
}

type Req struct {
	Verb   string
	Header string   // "" = absent
	Segs   []string // path segments below the mount prefix
	Q      string   // "" absent
	IDs    bool
	Action string // "" absent
	// decode markers
	BadKey, BadParam, BadBody bool
	HasBody                   bool
}

type Exp struct {
	Unspecified  bool // the property leaves the outcome open: only "2xx/4xx, no panic" is checked
	Why          string
	Routed       bool   // a resource method was selected: filters run
	Invoked      bool   // the method must actually be invoked (routed and everything decodes)
	Status       int    // expected status class: 404, 400, 200 (= any 2xx)
	Resource     string // registered path of the node
	Method       string // rest.li method, "finder:<n>", "action:<n>"
	RestliMethod string // what filters / context report
	Keys         []string
	Alternatives []Exp // trailing slash: every reading the property accepts (empty key that fails to decode / no key)
}

var naturalVerb = map[string]string{
	"get": "GET", "get_all": "GET", "finder": "GET", "batch_get": "GET",
	"create": "POST", "batch_create": "POST", "action": "POST", "partial_update": "POST", "batch_partial_update": "POST",
	"update": "PUT", "batch_update": "PUT", "delete": "DELETE", "batch_delete": "DELETE",
}

var needsEntity = map[string]bool{"get": true, "delete": true, "update": true, "partial_update": true}
var forbidsEntity = map[string]bool{"finder": true, "create": true, "batch_get": true, "batch_create": true, "batch_delete": true,
	"batch_update": true, "batch_partial_update": true, "get_all": true}

func Decide(roots map[string]*Node, r Req) Exp {
	if len(r.Segs) == 0 || roots[r.Segs[0]] == nil {
		return Exp{Status: 404, Why: "unknown root resource"}
	}
	node := roots[r.Segs[0]]
	i := 1
	var keys []string
	hasEntity := false
	for {
		hasEntity = false
		if node.IsCollection && i < len(r.Segs) {
			keys = append(keys, r.Segs[i])
			hasEntity = true
			i++
		}
		if i >= len(r.Segs) {
			break
		}
		sub := node.Subs[r.Segs[i]]
		if sub == nil {
			return Exp{Status: 404, Why: "unknown sub-resource"}
		}
		node = sub
		i++
	}
	e := decideAt(node, keys, hasEntity, r)
	if hasEntity && len(keys) > 0 && keys[len(keys)-1] == "" {
		// trailing slash: "empty key -> 400" (an empty key never decodes) or "no key"
		rb := r
		rb.BadKey = true
		asEmptyKey := decideAt(node, keys, true, rb)
		asNoKey := decideAt(node, keys[:len(keys)-1], false, r)
		return Exp{Status: 400, Why: "trailing slash", Alternatives: []Exp{asEmptyKey, asNoKey, {Status: 400, Why: "trailing slash rejected outright"}}}
	}
	return e
}

func decideAt(node *Node, keys []string, hasEntity bool, r Req) Exp {
	method := ""
	if node.IsCollection {
		if r.Header != "" {
			if _, known := naturalVerb[r.Header]; !known {
				return Exp{Unspecified: true, Why: "unknown method header value"}
			}
			if naturalVerb[r.Header] != r.Verb {
				return Exp{Unspecified: true, Why: "method header contradicts the HTTP verb"}
			}
			method = r.Header
		} else {
			switch r.Verb {
			case "GET":
				switch {
				case hasEntity:
					method = "get"
				case r.Q != "":
					method = "finder"
				case r.IDs:
					method = "batch_get"
				default:
					method = "get_all"
				}
			case "DELETE":
				if r.IDs {
					method = "batch_delete"
				} else {
					method = "delete"
				}
			case "PUT":
				if r.IDs {
					method = "batch_update"
				} else {
					method = "update"
				}
			case "POST":
				return Exp{Status: 400, Why: "POST requires the method header"}
			default:
				return Exp{Status: 400, Why: "verb without inference rule and no header"}
			}
		}
		if needsEntity[method] && !hasEntity {
			return Exp{Status: 400, Why: "method needs an entity key"}
		}
		if forbidsEntity[method] && hasEntity {
			return Exp{Status: 400, Why: "method does not take an entity key"}
		}
	} else {
		switch r.Verb {
		case "GET":
			method = "get"
		case "PUT":
			method = "update"
		case "DELETE":
			method = "delete"
		case "POST":
			if r.Action != "" {
				method = "action"
			} else {
				method = "partial_update"
			}
		default:
			if r.Header != "" {
				return Exp{Unspecified: true, Why: "other verb with a method header on a simple resource"}
			}
			return Exp{Status: 400, Why: "verb not defined for simple resources"}
		}
	}
	e := Exp{Resource: node.Path, Keys: keys, RestliMethod: method}
	switch method {
	case "finder":
		if r.Q == "" || !node.Finders[r.Q] {
			return Exp{Status: 400, Why: "finder not registered"}
		}
		e.Method = "finder:" + r.Q
	case "action":
		onEntity, ok := node.Actions[r.Action]
		if r.Action == "" || !ok {
			return Exp{Status: 400, Why: "action not registered"}
		}
		e.Method = "action:" + r.Action
		e.Routed = true
		if onEntity != hasEntity {
			e.Status = 400
			e.Why = "entity key presence does not match the action's level"
			return e
		}
	default:
		if !node.Methods[method] {
			return Exp{Status: 400, Why: "method not registered on the resource"}
		}
		e.Method = method
	}
	e.Routed = true
	bodyMethods := map[string]bool{"create": true, "update": true, "partial_update": true, "batch_create": true, "batch_update": true, "batch_partial_update": true, "action": true}
	if bodyMethods[method] != r.HasBody {
		// a body on a body-less method (or none where one is needed) cannot decode
		e.Status = 400
		e.Why = "body presence does not match the method"
		return e
	}
	if r.BadKey && len(keys) > 0 || r.BadParam && method != "action" || r.BadBody && bodyMethods[method] {
		e.Status = 400
		e.Why = "key / params / body do not decode"
		return e
	}
	e.Invoked = true
	e.Status = 200
	return e
}

func (e Exp) String() string {
	var b strings.Builder
	if e.Unspecified {
		return "unspecified(" + e.Why + ")"
	}
	b.WriteString(statusName(e.Status))
	if e.Routed {
		b.WriteString(" routed " + e.Resource + " " + e.Method)
	}
	if e.Invoked {
		b.WriteString(" invoked keys=" + strings.Join(e.Keys, ","))
	}
	if e.Why != "" {
		b.WriteString(" (" + e.Why + ")")
	}
	return b.String()
}

func statusName(s int) string {
	switch s {
	case 200:
		return "2xx"
	case 400:
		return "400"
	case 404:
		return "404"
	}
	return "?"
}
