// Generation-specific body of the C06 driver; props/c06/gen1 is derived from this file (derive.sh).
package gen2

import (
	"fmt"
	"math/rand"
	"reflect"
	"sort"
	"strings"
	"sync"

	"github.com/PapaCharlie/go-restli/v2/restlicodec"

	"verifh/bridge"
	codec "verifh/codec"
	"verifh/corpus"
	"verifh/ev"
	all "verifh/gen/all"
	"verifh/model"
	"verifh/refcodec"
)

const GENERATION = "v2"

var unknownTrees = []any{int32(1), "x", true, map[string]any{"a": map[string]any{"b": []any{int32(1), map[string]any{"c": "d"}}}}, []any{int32(1), []any{int32(2)}, map[string]any{"k": "v"}},
	map[string]any{}, []any{}, "(a:b)", []any{map[string]any{"x": []any{}}}, float64(-1.5)}

type derived struct {
	tree     any
	desc     []string
	hasNull  bool
	nUnknown int
}

// derive applies deletions / nulls / unknown injections chosen by the bitmasks to a clone of base.
func derive(set *bridge.Set, t corpus.TypeExpr, base any, delMask, nullMask uint64, unknown bool, rng *rand.Rand) derived {
	tree := refcodec.CloneTree(base)
	fields, records := refcodec.RecordPositions(set.Schema, t, tree, "")
	d := derived{tree: tree}
	// deletions must be applied innermost-last is irrelevant: deleting a parent removes the children anyway
	for i, p := range fields {
		if i >= 64 {
			break
		}
		switch {
		case delMask&(1<<uint(i)) != 0:
			delete(p.Container, p.Key)
			d.desc = append(d.desc, "delete "+p.Path)
		case nullMask&(1<<uint(i)) != 0:
			p.Container[p.Key] = refcodec.Null{}
			d.desc = append(d.desc, "null "+p.Path)
			d.hasNull = true
		}
	}
	if unknown {
		for i, r := range records {
			if rng.Intn(2) == 0 {
				r[fmt.Sprintf("zzUnknown%d", i)] = unknownTrees[rng.Intn(len(unknownTrees))]
				d.nUnknown++
			}
		}
		if d.nUnknown > 0 {
			d.desc = append(d.desc, fmt.Sprintf("%d unknown members", d.nUnknown))
		}
	}
	return d
}

func untyped(tree any) any {
	switch x := tree.(type) {
	case refcodec.Null:
		return nil
	case map[string]any:
		c := map[string]any{}
		for k, v := range x {
			c[k] = untyped(v)
		}
		return c
	case []any:
		c := make([]any, len(x))
		for i, v := range x {
			c[i] = untyped(v)
		}
		return c
	}
	return tree
}

type result struct {
	ptr     reflect.Value
	err     error
	doc     string
	skipped bool
}

type readerKind struct {
	name   string
	prefix string // path prefix of reported fields
	decode func(set *bridge.Set, full string, d derived, rng *rand.Rand, extraMissing *[]string) result
}

var readers = []readerKind{
	{"json", "", func(set *bridge.Set, full string, d derived, rng *rand.Rand, _ *[]string) result {
		doc := refcodec.TreeJSON(d.tree, rng)
		p, err := codec.Decode(codec.FormatByName("json-compact"), set, full, doc)
		return result{p, err, doc, false}
	}},
	{"ror2", "", func(set *bridge.Set, full string, d derived, rng *rand.Rand, _ *[]string) result {
		if d.hasNull {
			return result{skipped: true}
		}
		doc := refcodec.TreeROR2(d.tree, refcodec.Header, rng)
		p, err := codec.Decode(codec.FormatByName("ror2-header"), set, full, doc)
		return result{p, err, doc, false}
	}},
	{"query", "v.", func(set *bridge.Set, full string, d derived, rng *rand.Rand, extraMissing *[]string) (res result) {
		if d.hasNull {
			return result{skipped: true}
		}
		doc := "v=" + refcodec.TreeROR2(d.tree, refcodec.Query, rng)
		if rng.Intn(2) == 0 {
			doc = "zzUnknownParam=(a:List(1))&" + doc
		}
		if rng.Intn(2) == 0 {
			doc += "&w=5"
		} else {
			*extraMissing = append(*extraMissing, "w")
		}
		res.doc = doc
		defer func() {
			if r := recover(); r != nil {
				res.err = &codec.PanicError{Value: fmt.Sprint(r), Frame: "query reader"}
			}
		}()
		qp, err := restlicodec.ParseQueryParams(doc)
		if err != nil {
			res.err = err
			return
		}
		res.ptr = set.New(full)
		u := res.ptr.Interface().(restlicodec.Unmarshaler)
		res.err = qp.ReadRecord(requiredVW, func(r restlicodec.Reader, field string) error {
			switch field {
			case "v":
				return u.UnmarshalRestLi(r)
			case "w":
				_, err := r.ReadInt32()
				return err
			}
			return r.Skip()
		})
		return
	}},
	// the record as an element of a batch envelope, read the way the server reads batch_create bodies: the reader ignores
	// the two leading scope levels for exclusion purposes, reported paths still carry them
	{"json-in-envelope", "elements[0].", func(set *bridge.Set, full string, d derived, rng *rand.Rand, _ *[]string) (res result) {
		res.doc = `{"elements":[` + refcodec.TreeJSON(d.tree, rng) + `]}`
		defer func() {
			if r := recover(); r != nil {
				res.err = &codec.PanicError{Value: fmt.Sprint(r), Frame: "envelope reader"}
			}
		}()
		r, err := restlicodec.NewJsonReaderWithExcludedFields([]byte(res.doc), restlicodec.NewPathSpec(), 2)
		if err != nil {
			res.err = err
			return
		}
		res.ptr = set.New(full)
		res.err = readEnvelope(r, res.ptr.Interface().(restlicodec.Unmarshaler))
		return
	}},
	{"ror2-in-envelope", "elements[0].", func(set *bridge.Set, full string, d derived, rng *rand.Rand, _ *[]string) (res result) {
		if d.hasNull {
			return result{skipped: true}
		}
		res.doc = "(elements:List(" + refcodec.TreeROR2(d.tree, refcodec.Header, rng) + "))"
		defer func() {
			if r := recover(); r != nil {
				res.err = &codec.PanicError{Value: fmt.Sprint(r), Frame: "envelope reader"}
			}
		}()
		r, err := restlicodec.NewRor2ReaderWithExcludedFields(res.doc, restlicodec.NewPathSpec(), 2)
		if err != nil {
			res.err = err
			return
		}
		res.ptr = set.New(full)
		res.err = readEnvelope(r, res.ptr.Interface().(restlicodec.Unmarshaler))
		return
	}},
	{"untyped", "", func(set *bridge.Set, full string, d derived, rng *rand.Rand, _ *[]string) result {
		p := set.New(full)
		_, err := codec.DecodeWith(restlicodec.NewInterfaceReader(untyped(d.tree)), p)
		return result{p, err, fmt.Sprintf("%v", untyped(d.tree)), false}
	}},
}

// readEnvelope reads {"elements": [record]} like the library's own Elements envelope does.
func readEnvelope(r restlicodec.Reader, u restlicodec.Unmarshaler) error {
	return r.ReadRecord(requiredElements, func(r restlicodec.Reader, field string) error {
		if field == "elements" {
			return r.ReadArray(func(r restlicodec.Reader) error { return u.UnmarshalRestLi(r) })
		}
		return r.Skip()
	})
}

func trunc(s string) string {
	if len(s) > 400 {
		return s[:400] + fmt.Sprintf("...(%d bytes)", len(s))
	}
	return s
}

func Run(run *ev.Run) {
	run.Rule("case = (record type, valid value, derivation, reader kind): the derivation deletes a subset of fields at any depth (all subsets when the document has <= 10 record-field positions, PRNG subsets otherwise; every single deletion always), " +
		"nulls fields (JSON / untyped), permutes keys and injects unknown members of primitive / object / array shape; the observed error kind, the Fields of MissingRequiredFieldsError and the partially filled value are compared with the reference calculator. " +
		"distinct = distinct (type, derivation, reader); non-trivial = derivation deletes or nulls at least one field or injects an unknown member")
	run.Assume("field paths are rendered as dot-joined keys with [i] for array items (the format of the library's documented error text); the query reader is exercised as parameter 'v' of a two-parameter record so paths carry the prefix 'v.'",
		"a position the decoder never touched holds the Go zero value of its generated type", "both generations: the root module through types-only bindings written by its own generator from the same schema sets")
	rng := rand.New(rand.NewSource(run.Seed + 6))
	perType := run.Pick(6, 40)
	maxDerive := run.Pick(60, 400)
	for _, set := range all.Sets {
		if err := set.SelfCheck(model.NewGen(set.Schema, rand.New(rand.NewSource(run.Seed+7))), 10); err != nil {
			run.Inconclusive("bridge self-check failed on set " + set.Name + ": " + err.Error())
			return
		}
	}
	type job struct {
		set  *bridge.Set
		full string
		base any
		d    derived
		seed int64
	}
	var jobs []job
	for _, set := range all.Sets {
		g := model.NewGen(set.Schema, rng)
		g.Hostile = 0.1
		g.MaxElems = 3
		for _, td := range set.Schema.Types {
			if td.Kind != "record" {
				continue
			}
			t := corpus.R(td.FullName())
			for i := 0; i < perType; i++ {
				v := g.Value(t, 0)
				if i%3 == 1 {
					// map keys that read like an array index or carry the path separators themselves
					model.AddKeysToFirstMap(v, []string{"[0]", "[x]", "a.[1]", "k.l", "[", "0"})
				}
				base := refcodec.ToTree(set.Schema, t, v)
				fields, _ := refcodec.RecordPositions(set.Schema, t, base, "")
				n := len(fields)
				if n > 60 {
					n = 60
				}
				add := func(del, null uint64, unknown bool) {
					jobs = append(jobs, job{set, td.FullName(), base, derive(set, t, base, del, null, unknown, rng), rng.Int63()})
				}
				add(0, 0, false)
				add(0, 0, true)
				for k := 0; k < n; k++ { // every single deletion and every single null
					add(1<<uint(k), 0, false)
					if k%3 == 0 {
						add(0, 1<<uint(k), k%2 == 0)
					}
				}
				if n <= 10 {
					for m := uint64(1); m < 1<<uint(n); m++ {
						if bitsSet(m) > 1 {
							add(m, 0, m%5 == 0)
						}
					}
				} else {
					for k := 0; k < maxDerive; k++ {
						del := rng.Uint64() & rng.Uint64() & (1<<uint(n) - 1)
						null := rng.Uint64() & rng.Uint64() & rng.Uint64() & (1<<uint(n) - 1) &^ del
						add(del, null, k%2 == 0)
					}
				}
			}
		}
	}
	var wg sync.WaitGroup
	ch := make(chan job, 256)
	var smu sync.Mutex
	nsamples := 0
	for w := 0; w < 14; w++ {
		wg.Add(1)
		go func() {
			defer wg.Done()
			for j := range ch {
				t := corpus.R(j.full)
				baseMissing := refcodec.MissingRequired(j.set.Schema, t, j.d.tree, "", nil, nil)
				expectedValue := refcodec.Zeroize(j.set.Schema, t, refcodec.FillDefaults(j.set.Schema, t, refcodec.TreeToValue(j.set.Schema, t, j.d.tree)))
				// every few documents a decode that fails half-way through a record comes first (a malformed value in the
				// first required field): whatever bookkeeping it abandons must not show in the decodes that follow
				if j.seed%4 == 0 {
					if doc, ok := malformedDoc(j.set.Schema, j.full); ok {
						_, err := codec.Decode(codec.FormatByName("json-compact"), j.set, j.full, doc)
						run.Count("failed_decodes_interleaved", 1)
						if err == nil {
							run.Count("observed_only.malformed_document_accepted", 1)
						}
					}
				}
				for _, rk := range readers {
					lrng := rand.New(rand.NewSource(j.seed))
					var extra []string
					res := rk.decode(j.set, j.full, j.d, lrng, &extra)
					if res.skipped {
						continue
					}
					run.Eval(1)
					run.Count("decodes."+rk.name, 1)
					var want []string
					for _, m := range baseMissing {
						want = append(want, rk.prefix+m)
					}
					want = append(want, extra...)
					sort.Strings(want)
					desc := map[string]any{"generation": GENERATION, "set": j.set.Name, "type": j.full, "reader": rk.name, "derivation": j.d.desc, "document": trunc(res.doc), "expected_missing": want}
					viol := func(kind string, detail string) {
						desc["detail"] = trunc(detail)
						run.Violation(fmt.Sprintf(GENERATION+"/%s/%s/%s", rk.name, kind, shape(j.d, len(baseMissing))), desc)
					}
					if pe, ok := res.err.(*codec.PanicError); ok {
						viol("panic", pe.Value+" @ "+pe.Frame)
						continue
					}
					got, isMissing := codec.IsMissingFields(res.err)
					switch {
					case res.err != nil && !isMissing:
						viol("unexpected-error", res.err.Error())
						continue
					case len(want) == 0 && res.err != nil:
						viol("reported-although-nothing-missing", fmt.Sprint(got))
						continue
					case len(want) > 0 && res.err == nil:
						viol("missing-fields-not-reported", "no error")
						continue
					case len(want) > 0:
						g2 := append([]string{}, got...)
						sort.Strings(g2)
						if !reflect.DeepEqual(g2, want) {
							viol("wrong-missing-set", fmt.Sprintf("reported %q", got))
							continue
						}
					}
					// partially filled value
					w, err := j.set.Read(res.ptr.Elem(), t)
					if err != nil {
						run.Inconclusive("bridge read failed: " + err.Error())
						continue
					}
					if d := model.Diff(expectedValue, w, ""); d != "" {
						viol("partial-value-differs", d)
						continue
					}
					if len(j.d.desc) > 0 {
						run.Distinct(fmt.Sprintf("%s|%s|%s", j.full, strings.Join(j.d.desc, ","), rk.name))
					}
					smu.Lock()
					if nsamples < 6 && len(want) > 1 && j.d.nUnknown > 0 {
						nsamples++
						desc["reported"] = got
						run.Sample(desc)
					}
					smu.Unlock()
				}
			}
		}()
	}
	for _, j := range jobs {
		ch <- j
	}
	close(ch)
	wg.Wait()
	run.Set("derived_documents", len(jobs))
	for _, rk := range readers {
		run.Require("decodes."+rk.name, 200)
	}
	run.Require("failed_decodes_interleaved", 100)
	exclusionProbe(run)
	run.Require(GENERATION+".exclusion_probe_decodes", 1000)
}

// malformedDoc is a JSON document for the record that holds a value of the wrong JSON type in its first required field
// and nothing else.
func malformedDoc(s *corpus.Schema, full string) (string, bool) {
	td := s.Lookup(full)
	if td == nil || td.Kind != "record" {
		return "", false
	}
	for _, f := range s.AllFields(td) {
		if f.Optional || f.Default != nil {
			continue
		}
		et, ftd := model.Resolve(s, f.Type)
		wrong := ""
		switch {
		case ftd != nil && ftd.Kind == "record":
			wrong = `"@@not-an-object@@"`
		case ftd != nil:
			return "", false // enums, fixed, unions, typerefs: a string or an object may be acceptable
		case et.Array != nil || et.Map != nil:
			wrong = `"@@not-a-container@@"`
		case et.Prim == "string":
			wrong = `{"not":"a string"}`
		case et.Prim == "bytes":
			return "", false
		default:
			wrong = `"@@not-a-number@@"`
		}
		return fmt.Sprintf(`{%q:%s}`, f.Name, wrong), true
	}
	return "", false
}

func bitsSet(m uint64) int {
	n := 0
	for ; m != 0; m &= m - 1 {
		n++
	}
	return n
}

// shape classifies a derivation for violation signatures.
func shape(d derived, nMissing int) string {
	var f []string
	dels, nulls := 0, 0
	nested, inArray := false, false
	for _, s := range d.desc {
		if strings.HasPrefix(s, "delete ") {
			dels++
		}
		if strings.HasPrefix(s, "null ") {
			nulls++
		}
		if strings.Count(s, ".") > 1 {
			nested = true
		}
		if strings.Contains(s, "[") {
			inArray = true
		}
	}
	switch {
	case dels == 0:
		f = append(f, "no-deletion")
	case dels == 1:
		f = append(f, "one-deletion")
	default:
		f = append(f, "several-deletions")
	}
	if nulls > 0 {
		f = append(f, "nulls")
	}
	if d.nUnknown > 0 {
		f = append(f, "unknown-members")
	}
	if nested {
		f = append(f, "nested")
	}
	if inArray {
		f = append(f, "in-array")
	}
	if nMissing == 0 {
		f = append(f, "nothing-missing")
	}
	return strings.Join(f, "+")
}
