package gen2

import (
	"fmt"
	"sort"
	"strings"

	"github.com/PapaCharlie/go-restli/v2/restlicodec"

	codec "verifh/codec"
	"verifh/ev"
)

// exclusionProbe: readers built with a non-empty excluded-fields spec (what the server uses for create / partial update
// bodies with read-only or create-only fields).  A hand-written decoder for Outer{id, child: Inner, items: [Inner]} with
// Inner{id, name} — the same required field name at several depths — reads every document that lacks any subset of the
// seven required positions, under every subset of the exclusion paths {id, child/id, child/name, items/*/id}.  Oracle (set
// arithmetic, no library code): the reported fields are exactly the lacking positions that are not excluded; nothing is
// reported when that set is empty.  (Seed C06m: exclusion verdicts memoised by bare field name.)
func exclusionProbe(run *ev.Run) {
	type pos struct{ path, spec string }
	positions := []pos{{"id", "id"}, {"child.id", "child/id"}, {"child.name", "child/name"}, {"items[0].id", "items/*/id"}, {"items[0].name", ""}, {"items[1].id", "items/*/id"}, {"items[1].name", ""}}
	specs := []string{"id", "child/id", "child/name", "items/*/id"}
	inner := func(r restlicodec.Reader) error {
		return r.ReadRecord(exclInnerRequired, func(r restlicodec.Reader, f string) error {
			switch f {
			case "id":
				_, err := r.ReadInt64()
				return err
			case "name":
				_, err := r.ReadString()
				return err
			}
			return r.Skip()
		})
	}
	outer := func(r restlicodec.Reader) error {
		return r.ReadRecord(exclOuterRequired, func(r restlicodec.Reader, f string) error {
			switch f {
			case "id":
				_, err := r.ReadInt64()
				return err
			case "child":
				return inner(r)
			case "items":
				return r.ReadArray(func(r restlicodec.Reader) error { return inner(r) })
			}
			return r.Skip()
		})
	}
	for lack := 0; lack < 1<<len(positions); lack++ {
		has := func(i int) bool { return lack&(1<<i) == 0 }
		rec := func(idPos, namePos int, json bool) string {
			var m []string
			if has(namePos) {
				if json {
					m = append(m, `"name":"n"`)
				} else {
					m = append(m, "name:n")
				}
			}
			if json {
				m = append(m, `"zz":{"id":[1]}`)
			} else {
				m = append(m, "zz:(id:List(1))")
			}
			if has(idPos) {
				if json {
					m = append(m, `"id":7`)
				} else {
					m = append(m, "id:7")
				}
			}
			if json {
				return "{" + strings.Join(m, ",") + "}"
			}
			return "(" + strings.Join(m, ",") + ")"
		}
		jdoc := `{"child":` + rec(1, 2, true) + `,"items":[` + rec(3, 4, true) + "," + rec(5, 6, true) + "]"
		rdoc := "(child:" + rec(1, 2, false) + ",items:List(" + rec(3, 4, false) + "," + rec(5, 6, false) + ")"
		if has(0) {
			jdoc += `,"id":1`
			rdoc += ",id:1"
		}
		jdoc += "}"
		rdoc += ")"
		for ex := 0; ex < 1<<len(specs); ex++ {
			var paths []string
			excluded := map[string]bool{}
			for i, s := range specs {
				if ex&(1<<i) != 0 {
					paths = append(paths, s)
					excluded[s] = true
				}
			}
			// a document that carries an excluded field is rejected for that reason (C07's subject): only documents that
			// lack every excluded position are judged here
			carries := false
			for i, p := range positions {
				if has(i) && excluded[p.spec] {
					carries = true
				}
			}
			if carries {
				continue
			}
			var want []string
			for i, p := range positions {
				if !has(i) && !excluded[p.spec] {
					want = append(want, p.path)
				}
			}
			sort.Strings(want)
			for _, kind := range []string{"json", "ror2"} {
				run.Eval(1)
				desc := map[string]any{"generation": GENERATION, "reader": kind + "-with-excluded-fields", "excluded": paths, "expected_missing": want}
				var r restlicodec.Reader
				var err error
				if kind == "json" {
					desc["document"] = jdoc
					r, err = restlicodec.NewJsonReaderWithExcludedFields([]byte(jdoc), restlicodec.NewPathSpec(paths...), 0)
				} else {
					desc["document"] = rdoc
					r, err = restlicodec.NewRor2ReaderWithExcludedFields(rdoc, restlicodec.NewPathSpec(paths...), 0)
				}
				if err == nil {
					err = outer(r)
				}
				got, isMissing := codec.IsMissingFields(err)
				got = append([]string(nil), got...)
				sort.Strings(got)
				sig := fmt.Sprintf(GENERATION+"/%s-excluded/", kind)
				switch {
				case err != nil && !isMissing:
					desc["detail"] = err.Error()
					run.Violation(sig+"unexpected-error", desc)
				case fmt.Sprint(got) != fmt.Sprint(want):
					desc["reported"] = got
					if len(want) == 0 {
						run.Violation(sig+"reported-although-nothing-missing", desc)
					} else if len(got) == 0 {
						run.Violation(sig+"missing-not-reported", desc)
					} else {
						run.Violation(sig+"wrong-field-set", desc)
					}
				default:
					run.Count(GENERATION+".exclusion_probe_decodes", 1)
					if len(paths) > 0 && lack != 0 {
						run.Distinct(fmt.Sprintf("%s|excl|%s|%d|%d", GENERATION, kind, lack, ex))
					}
				}
			}
		}
	}
}
