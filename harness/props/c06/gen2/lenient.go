package gen2

import (
	"context"
	"net"
	"net/http"
	"net/url"

	"github.com/PapaCharlie/go-restli/v2/restli"
	"github.com/PapaCharlie/go-restli/v2/restlicodec"

	"verifh/ev"
)

// pair is a hand-written record with two required fields and one optional field.
type pair struct {
	A, B string
	C    *string
}


func (p *pair) NewInstance() *pair { return new(pair) }
func (p *pair) MarshalRestLi(w restlicodec.Writer) error {
	return w.WriteMap(func(kw func(string) restlicodec.Writer) error {
		kw("a").WriteString(p.A)
		kw("b").WriteString(p.B)
		return nil
	})
}
func (p *pair) UnmarshalRestLi(r restlicodec.Reader) error {
	return r.ReadRecord(pairRequired, func(r restlicodec.Reader, field string) (err error) {
		switch field {
		case "a":
			p.A, err = r.ReadString()
		case "b":
			p.B, err = r.ReadString()
		case "c":
			p.C = new(string)
			*p.C, err = r.ReadString()
		default:
			err = r.Skip()
		}
		return err
	})
}

type hostResolver struct{ u *url.URL }

func (h hostResolver) ResolveHostnameAndContextForQuery(string, *url.URL) (*url.URL, error) {
	return h.u, nil
}

// lenient: a lenient client receives the partially filled value with no error; a strict client the error.
func Lenient(run *ev.Run) {
	ln, err := net.Listen("tcp", "127.0.0.1:0")
	if err != nil {
		run.Inconclusive("listen: " + err.Error())
		return
	}
	var body string
	srv := &http.Server{Handler: http.HandlerFunc(func(w http.ResponseWriter, r *http.Request) {
		w.Header().Set("X-RestLi-Protocol-Version", "2.0.0")
		w.Header().Set("Content-Type", "application/json")
		w.Write([]byte(body))
	})}
	go srv.Serve(ln)
	defer srv.Close()
	base, _ := url.Parse("http://" + ln.Addr().String())
	cases := []struct {
		body    string
		missing []string
		a, b    string
		wrapped bool
	}{
		{`{"a":"x","b":"y"}`, nil, "x", "y", false},
		{`{"a":"x"}`, []string{"b"}, "x", "", false},
		{`{"zz":1,"b":"y","c":"z"}`, []string{"a"}, "", "y", false},
		{`{}`, []string{"a", "b"}, "", "", false},
		{`{"a":null,"b":"y"}`, []string{"a"}, "", "y", false},
	}
	for _, strict := range []bool{false, true} {
		for _, c := range cases {
			run.Eval(1)
			run.Count("lenient_strict_calls", 1)
			body = c.body
			cl := &restli.Client{Client: http.DefaultClient, HostnameResolver: hostResolver{base}, StrictResponseDeserialization: strict}
			v, err := restli.Get[*pair](cl, context.Background(), restli.ResourcePathString("/things/1"), nil)
			desc := map[string]any{"strict": strict, "response_body": c.body, "expected_missing": c.missing}
			if err != nil {
				desc["error"] = err.Error()
			}
			mf, isMissing := err.(*restlicodec.MissingRequiredFieldsError)
			switch {
			case !strict && err != nil:
				run.Violation(GENERATION+"/client/lenient-client-returned-error", desc)
			case strict && len(c.missing) == 0 && err != nil:
				run.Violation(GENERATION+"/client/strict-client-error-on-complete-response", desc)
			case strict && len(c.missing) > 0 && (!isMissing || len(mf.Fields) != len(c.missing)):
				run.Violation(GENERATION+"/client/strict-client-did-not-report-missing-fields", desc)
			case v == nil || v.A != c.a || v.B != c.b:
				desc["value"] = v
				run.Violation(GENERATION+"/client/partially-filled-value-lost", desc)
			default:
				run.Distinct("client|" + c.body + "|" + map[bool]string{true: "strict", false: "lenient"}[strict])
			}
		}
	}
}
