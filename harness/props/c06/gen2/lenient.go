package gen2

import (
	"context"
	"net"
	"net/http"
	"net/url"

	"github.com/PapaCharlie/go-restli/v2/restli"
	"github.com/PapaCharlie/go-restli/v2/restlicodec"

	"verifh/ev"
)

// pair is a hand-written record with two required fields and one optional field.
type pair struct {
	A, B string
	C    *string
}


func (p *pair) NewInstance() *pair { return new(pair) }
func (p *pair) MarshalRestLi(w restlicodec.Writer) error {
	return w.WriteMap(func(kw func(string) restlicodec.Writer) error {
		kw("a").WriteString(p.A)
		kw("b").WriteString(p.B)
		return nil
	})
}
func (p *pair) UnmarshalRestLi(r restlicodec.Reader) error {
	return r.ReadRecord(pairRequired, func(r restlicodec.Reader, field string) (err error) {
		switch field {
		case "a":
			p.A, err = r.ReadString()
		case "b":
			p.B, err = r.ReadString()
		case "c":
			p.C = new(string)
			*p.C, err = r.ReadString()
		default:
			err = r.Skip()
		}
		return err
	})
}

type hostResolver struct{ u *url.URL }

func (h hostResolver) ResolveHostnameAndContextForQuery(string, *url.URL) (*url.URL, error) {
	return h.u, nil
}

// lenient: a lenient client receives the partially filled value with no error; a strict client the error.
func Lenient(run *ev.Run) {
	ln, err := net.Listen("tcp", "127.0.0.1:0")
	if err != nil {
		run.Inconclusive("listen: " + err.Error())
		return
	}
	var body string
	srv := &http.Server{Handler: http.HandlerFunc(func(w http.ResponseWriter, r *http.Request) {
		w.Header().Set("X-RestLi-Protocol-Version", "2.0.0")
		w.Header().Set("Content-Type", "application/json")
		w.Write([]byte(body))
	})}
	go srv.Serve(ln)
	defer srv.Close()
	base, _ := url.Parse("http://" + ln.Addr().String())
	cases := []struct {
		body    string
		missing []string
		a, b    string
		wrapped bool
	}{
		{`{"a":"x","b":"y"}`, nil, "x", "y", false},
		{`{"a":"x"}`, []string{"b"}, "x", "", false},
		{`{"zz":1,"b":"y","c":"z"}`, []string{"a"}, "", "y", false},
		{`{}`, []string{"a", "b"}, "", "", false},
		{`{"a":null,"b":"y"}`, []string{"a"}, "", "y", false},
	}
	for _, strict := range []bool{false, true} {
		for _, c := range cases {
			run.Eval(1)
			run.Count("lenient_strict_calls", 1)
			body = c.body
			cl := &restli.Client{Client: http.DefaultClient, HostnameResolver: hostResolver{base}, StrictResponseDeserialization: strict}
			v, err := restli.Get[*pair](cl, context.Background(), restli.ResourcePathString("/things/1"), nil)
			desc := map[string]any{"strict": strict, "response_body": c.body, "expected_missing": c.missing}
			if err != nil {
				desc["error"] = err.Error()
			}
			mf, isMissing := err.(*restlicodec.MissingRequiredFieldsError)
			switch {
			case !strict && err != nil:
				run.Violation(GENERATION+"/client/lenient-client-returned-error", desc)
			case strict && len(c.missing) == 0 && err != nil:
				run.Violation(GENERATION+"/client/strict-client-error-on-complete-response", desc)
			case strict && len(c.missing) > 0 && (!isMissing || len(mf.Fields) != len(c.missing)):
				run.Violation(GENERATION+"/client/strict-client-did-not-report-missing-fields", desc)
			case v == nil || v.A != c.a || v.B != c.b:
				desc["value"] = v
				run.Violation(GENERATION+"/client/partially-filled-value-lost", desc)
			default:
				run.Distinct("client|" + c.body + "|" + map[bool]string{true: "strict", false: "lenient"}[strict])
			}
		}
	}
}

func showPairs(ps []*pair) string {
	out := ""
	for _, p := range ps {
		if p == nil {
			out += "<nil>;"
		} else {
			out += p.A + "," + p.B + ";"
		}
	}
	return out
}

// LenientEnvelopes: the same for responses that wrap entities: finder results with and without metadata, get_all and
// batch_get. A lenient client receives every entity that was decoded, partially filled where fields were missing.
func LenientEnvelopes(run *ev.Run) {
	ln, err := net.Listen("tcp", "127.0.0.1:0")
	if err != nil {
		run.Inconclusive("listen: " + err.Error())
		return
	}
	var body string
	srv := &http.Server{Handler: http.HandlerFunc(func(w http.ResponseWriter, r *http.Request) {
		w.Header().Set("X-RestLi-Protocol-Version", "2.0.0")
		w.Header().Set("Content-Type", "application/json")
		w.Write([]byte(body))
	})}
	go srv.Serve(ln)
	defer srv.Close()
	base, _ := url.Parse("http://" + ln.Addr().String())
	const paging = `"paging":{"count":10,"start":0,"links":[]}`
	cases := []struct {
		kind     string
		body     string
		missing  int
		elements string // A,B; per element (batch: results of k1, k2)
		metadata string
	}{
		{"finder-with-metadata", `{"elements":[{"a":"x","b":"y"},{"a":"x2","b":"y2"}],"metadata":{"a":"m","b":"n"},` + paging + `}`, 0, "x,y;x2,y2;", "m,n;"},
		{"finder-with-metadata", `{"elements":[{"a":"x","b":"y"},{"a":"x2"}],"metadata":{"a":"m","b":"n"},` + paging + `}`, 1, "x,y;x2,;", "m,n;"},
		{"finder-with-metadata", `{"metadata":{"a":"m"},"zz":{"q":1},"elements":[{"a":"x","b":"y"}],` + paging + `}`, 1, "x,y;", "m,;"},
		{"finder-with-metadata", `{` + paging + `,"metadata":{"b":"n"},"elements":[{"b":"y"},{"a":"x2","b":"y2"}]}`, 2, ",y;x2,y2;", ",n;"},
		{"finder", `{"elements":[{"a":"x","b":"y"},{"a":"x2","b":"y2"}],` + paging + `}`, 0, "x,y;x2,y2;", ""},
		{"finder", `{"elements":[{"a":"x"},{"zz":1,"b":"y2"}],` + paging + `}`, 2, "x,;,y2;", ""},
		{"get_all", `{` + paging + `,"elements":[{"a":"x","b":"y"},{"b":"y2"}]}`, 1, "x,y;,y2;", ""},
		{"action", `{"value":{"a":"x","b":"y"}}`, 0, "x,y;", ""},
		{"action", `{"value":{"a":"x"}}`, 1, "x,;", ""},
		{"action", `{"zz":[1,{"q":2}],"value":{"zz":1,"b":"y"}}`, 1, ",y;", ""},
		{"batch_get", `{"results":{"k1":{"a":"x","b":"y"},"k2":{"a":"x2","b":"y2"}},"statuses":{},"errors":{}}`, 0, "x,y;x2,y2;", ""},
		{"batch_get", `{"results":{"k1":{"a":"x"},"k2":{"a":"x2","b":"y2"}},"statuses":{},"errors":{}}`, 1, "x,;x2,y2;", ""},
		{"batch_get", `{"errors":{},"statuses":{},"results":{"k2":{"b":"y2"},"k1":{"a":"x","b":"y"}}}`, 1, "x,y;,y2;", ""},
	}
	for _, strict := range []bool{false, true} {
		for _, c := range cases {
			run.Eval(1)
			run.Count("lenient_strict_envelope_calls", 1)
			body = c.body
			cl := &restli.Client{Client: http.DefaultClient, HostnameResolver: hostResolver{base}, StrictResponseDeserialization: strict}
			rp := restli.ResourcePathString("/things")
			var elements, metadata string
			var err error
			got := false
			switch c.kind {
			case "finder-with-metadata":
				res, e := restli.FindWithMetadata[*pair, *pair](cl, context.Background(), rp, restli.QueryParamsString("q=f"))
				err = e
				if res != nil {
					got, elements, metadata = true, showPairs(res.Elements), showPairs([]*pair{res.Metadata})
				}
			case "finder":
				res, e := restli.Find[*pair](cl, context.Background(), rp, restli.QueryParamsString("q=f"))
				err = e
				if res != nil {
					got, elements = true, showPairs(res.Elements)
				}
			case "get_all":
				res, e := restli.GetAll[*pair](cl, context.Background(), rp, nil)
				err = e
				if res != nil {
					got, elements = true, showPairs(res.Elements)
				}
			case "action":
				res, e := restli.DoActionRequestWithResults[*pair](cl, context.Background(), rp, restli.QueryParamsString("action=act"), &pair{A: "p", B: "q"},
					func(r restlicodec.Reader) (*pair, error) {
						p := new(pair)
						return p, p.UnmarshalRestLi(r)
					})
				err = e
				if res != nil {
					got, elements = true, showPairs([]*pair{res})
				}
			case "batch_get":
				res, e := restli.BatchGet[string, *pair](cl, context.Background(), rp, []string{"k1", "k2"}, nil)
				err = e
				if res != nil {
					got, elements = true, showPairs([]*pair{res.Results["k1"], res.Results["k2"]})
				}
			}
			desc := map[string]any{"generation": GENERATION, "call": c.kind, "strict": strict, "response_body": c.body, "expected_missing_fields": c.missing,
				"expected_entities": c.elements, "expected_metadata": c.metadata, "entities": elements, "metadata": metadata, "got_result": got}
			if err != nil {
				desc["error"] = err.Error()
			}
			mf, isMissing := err.(*restlicodec.MissingRequiredFieldsError)
			mode := map[bool]string{true: "strict", false: "lenient"}[strict]
			switch {
			case !strict && err != nil:
				run.Violation(GENERATION+"/client/"+c.kind+"/lenient-client-returned-error", desc)
			case strict && c.missing == 0 && err != nil:
				run.Violation(GENERATION+"/client/"+c.kind+"/strict-client-error-on-complete-response", desc)
			case strict && c.missing > 0 && (!isMissing || len(mf.Fields) != c.missing):
				run.Violation(GENERATION+"/client/"+c.kind+"/strict-client-did-not-report-missing-fields", desc)
			case (!strict || c.missing == 0) && (!got || elements != c.elements || metadata != c.metadata):
				run.Violation(GENERATION+"/client/"+c.kind+"/partially-filled-value-lost", desc)
			default:
				run.Distinct("client|" + c.kind + "|" + c.body + "|" + mode)
			}
		}
	}
}

