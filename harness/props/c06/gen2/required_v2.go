package gen2

import "github.com/PapaCharlie/go-restli/v2/restlicodec"

var requiredVW = restlicodec.NewRequiredFields().Add("v", "w")

var pairRequired = restlicodec.NewRequiredFields().Add("a", "b")

var requiredElements = restlicodec.NewRequiredFields().Add("elements")

// exclusion probe (excl.go): Outer{id, child, items}; Inner{id, name}
var exclOuterRequired = restlicodec.NewRequiredFields().Add("id", "child", "items")

var exclInnerRequired = restlicodec.NewRequiredFields().Add("id", "name")
