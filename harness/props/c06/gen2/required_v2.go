package gen2

import "github.com/PapaCharlie/go-restli/v2/restlicodec"

var requiredVW = restlicodec.NewRequiredFields().Add("v", "w")

var pairRequired = restlicodec.NewRequiredFields().Add("a", "b")

var requiredElements = restlicodec.NewRequiredFields().Add("elements")
