// C06 — required-field accounting and unknown-field tolerance when decoding.
//
// Reference-model monitor: documents derived from valid encodings (field deletions at any depth, explicit
// nulls, key permutation, injected unknown members) are decoded by the four reader kinds (JSON, ROR2, query
// parameters, untyped Go value); the reported missing-field set, the error kind and the partially filled
// value must equal what the independent missing-field calculator predicts.
package main

import (
	"verifh/ev"
	"verifh/props/c06/gen1"
	"verifh/props/c06/gen2"
)

func main() {
	run := ev.Start("C06")
	defer run.Guard()
	gen2.Run(run)
	gen1.Run(run)
	gen2.Lenient(run) // lenient / strict client over HTTP
	gen1.Lenient(run)
	gen2.LenientEnvelopes(run)
	gen1.LenientEnvelopes(run)
	run.Set("generations", []string{"v2", "root"})
	run.Finish()
}
