// Codec-level half of the C07 driver (writers / readers with exclusion specs); props/c07/gen1 is derived from this file.
package gen2

import (
	"reflect"
	"fmt"
	"math/rand"
	"sort"
	"strings"

	"github.com/PapaCharlie/go-restli/v2/restlicodec"

	"verifh/bridge"
	codec "verifh/codec"
	"verifh/corpus"
	"verifh/ev"
	all "verifh/gen/all"
	"verifh/model"
	"verifh/refcodec"
)

const GENERATION = "v2"

func trunc(s string) string {
	if len(s) > 300 {
		return s[:300] + "..."
	}
	return s
}

// collectPaths lists the key paths that occur in a value (fields, map keys, union aliases; "*" for array items).
func collectPaths(s *corpus.Schema, t corpus.TypeExpr, v *model.Value, prefix []string, out *[][]string, depth int) {
	if v == nil || depth > 4 {
		return
	}
	et, td := model.Resolve(s, t)
	add := func(k string) []string {
		p := append(append([]string{}, prefix...), k)
		*out = append(*out, p)
		return p
	}
	switch v.Kind {
	case model.KArray:
		if len(v.Elems) > 0 {
			p := append(append([]string{}, prefix...), "*")
			for _, e := range v.Elems {
				collectPaths(s, *et.Array, e, p, out, depth+1)
			}
		}
	case model.KMap:
		keys := make([]string, 0, len(v.Entries))
		for k := range v.Entries {
			keys = append(keys, k)
		}
		sort.Strings(keys) // the case list must not depend on Go's map iteration order
		for _, k := range keys {
			collectPaths(s, *et.Map, v.Entries[k], add(k), out, depth+1)
		}
		if len(v.Entries) > 0 {
			add("*")
		}
	case model.KUnion:
		if td != nil && v.Alias != "" {
			for _, m := range td.Members {
				if m.Alias == v.Alias {
					// a spec never ends at a union member alias (excluding the only member leaves an invalid union)
					collectPaths(s, m.Type, v.Member, append(append([]string{}, prefix...), m.Alias), out, depth+1)
				}
			}
		}
	case model.KRecord:
		rt := td
		if td.Kind == "complexkey" {
			rt = s.Lookup(td.Key)
		}
		for _, f := range s.AllFields(rt) {
			if fv := v.Fields[f.Name]; fv != nil {
				collectPaths(s, f.Type, fv, add(f.Name), out, depth+1)
			} else if !f.Optional && f.Default == nil {
				add(f.Name)
			}
		}
	}
}

// injectSlashKeys gives maps of v an entry whose key reads like a path: next to an entry k whose value has a member c,
// an entry "k/c" is added. A spec naming k/c below the map is about the member c of entry k, never about the entry "k/c".
func injectSlashKeys(v *model.Value) bool {
	if v == nil {
		return false
	}
	done := false
	switch v.Kind {
	case model.KMap:
		keys := make([]string, 0, len(v.Entries))
		for k := range v.Entries {
			keys = append(keys, k)
		}
		sort.Strings(keys)
		for _, k := range keys {
			e := v.Entries[k]
			if injectSlashKeys(e) {
				done = true
			}
			if e == nil || strings.ContainsAny(k, "/*") || k == "" {
				continue
			}
			var child string
			switch e.Kind {
			case model.KRecord:
				names := make([]string, 0, len(e.Fields))
				for n := range e.Fields {
					names = append(names, n)
				}
				sort.Strings(names)
				if len(names) > 0 {
					child = names[0]
				}
			case model.KMap:
				sub := make([]string, 0, len(e.Entries))
				for n := range e.Entries {
					sub = append(sub, n)
				}
				sort.Strings(sub)
				if len(sub) > 0 && !strings.ContainsAny(sub[0], "/*") && sub[0] != "" {
					child = sub[0]
				}
			}
			if child != "" {
				if _, taken := v.Entries[k+"/"+child]; !taken {
					v.Entries[k+"/"+child] = model.Clone(e)
					done = true
				}
			}
			// and an entry whose key starts like a patch operator without being one
			if !strings.HasPrefix(k, "$") {
				if _, taken := v.Entries["$"+k]; !taken {
					v.Entries["$"+k] = model.Clone(e)
					done = true
				}
			}
		}
	case model.KArray:
		for _, e := range v.Elems {
			if injectSlashKeys(e) {
				done = true
			}
		}
	case model.KRecord:
		names := make([]string, 0, len(v.Fields))
		for n := range v.Fields {
			names = append(names, n)
		}
		sort.Strings(names)
		for _, n := range names {
			if injectSlashKeys(v.Fields[n]) {
				done = true
			}
		}
	case model.KUnion:
		done = injectSlashKeys(v.Member)
	}
	return done
}

func validSpecPath(p []string) bool {
	for _, seg := range p {
		if seg == "" || strings.ContainsAny(seg, "/") || seg == "$set" || seg == "$delete" {
			return false
		}
	}
	return len(p) > 0 && len(p) <= 4
}

func specText(spec [][]string) []string {
	var out []string
	for _, p := range spec {
		out = append(out, strings.Join(p, "/"))
	}
	sort.Strings(out)
	return out
}

func wildcardify(p []string, rng *rand.Rand) []string {
	c := append([]string{}, p...)
	if c[len(c)-1] == "*" {
		return c // "all entries of this map": generalising an earlier segment could make the last "*" stand for array items
	}
	if len(c) > 1 && rng.Intn(3) == 0 {
		c[rng.Intn(len(c)-1)] = "*" // never the last segment: a terminal wildcard on array items is left unspecified
	}
	return c
}

func codecLevel(run *ev.Run, set *bridge.Set, rng *rand.Rand, perType int) {
	s := set.Schema
	g := model.NewGen(s, rng)
	g.Hostile = 0.05
	g.MaxElems = 3
	for _, td := range s.Types {
		if td.Kind != "record" {
			continue
		}
		full := td.FullName()
		t := corpus.R(full)
		for i := 0; i < perType; i++ {
			v := g.Value(t, 0)
			if i%3 == 1 && injectSlashKeys(v) {
				run.Count("values_with_slash_twin_keys", 1)
			}
			var paths [][]string
			collectPaths(s, t, v, nil, &paths, 0)
			var usable [][]string
			for _, p := range paths {
				if validSpecPath(p) { // a terminal "*" only ever stands for the entries of a map here (collectPaths never ends a path at array items)
					usable = append(usable, p)
				}
			}
			for k := 0; k < 6; k++ {
				var spec [][]string
				n := 1 + rng.Intn(3)
				for j := 0; j < n; j++ {
					switch {
					case len(usable) > 0 && rng.Intn(5) != 0:
						spec = append(spec, wildcardify(usable[rng.Intn(len(usable))], rng))
					default:
						spec = append(spec, []string{"noSuchField", "x"}[:1+rng.Intn(2)])
					}
				}
				texts := specText(spec)
				ps := restlicodec.NewPathSpec(texts...)
				want := refcodec.Prune(s, t, v, texts)
				carries := !model.Equal(want, v)
				desc := map[string]any{"generation": GENERATION, "set": set.Name, "type": full, "spec": texts, "value": trunc(model.Show(v)), "expected_pruned": trunc(model.Show(want))}
				shape := specShape(spec)
				// ---- writer side
				p, err := codec.BuildGo(set, full, v)
				if err != nil {
					run.Inconclusive("bridge: " + err.Error())
					continue
				}
				for _, wf := range []struct {
					name string
					w    restlicodec.Writer
					json bool
				}{
					{"json", restlicodec.NewCompactJsonWriterWithExcludedFields(ps), true},
					{"json-pretty", restlicodec.NewPrettyJsonWriterWithExcludedFields(ps), true},
					{"ror2-header", restlicodec.NewRor2HeaderWriterWithExcludedFields(ps), false},
				} {
					run.Eval(1)
					run.Count("writer_cases", 1)
					doc, err := codec.EncodeWith(wf.w, p)
					if err != nil {
						desc["error"] = err.Error()
						run.Violation(GENERATION+"/writer/"+wf.name+"/error/"+shape, desc)
						continue
					}
					var got *model.Value
					if wf.json {
						got, err = refcodec.DecodeJSON(s, t, []byte(doc), refcodec.DecodeOpts{})
					} else {
						got, err = refcodec.DecodeROR2(s, t, doc, refcodec.Header, refcodec.DecodeOpts{})
					}
					desc["output"] = trunc(doc)
					if err != nil {
						desc["error"] = err.Error()
						run.Violation(GENERATION+"/writer/"+wf.name+"/output-unparsable/"+shape, desc)
						continue
					}
					if d := model.Diff(want, got, ""); d != "" {
						desc["detail"] = d
						kind := "dropped-too-much"
						if strings.Contains(d, "vs <absent>") == false && leaked(want, got) {
							kind = "excluded-value-leaked"
						}
						run.Violation(GENERATION+"/writer/"+wf.name+"/"+kind+"/"+shape, desc)
						continue
					}
					if carries {
						run.Distinct(fmt.Sprintf("w|%s|%s|%v", full, wf.name, texts))
					}
				}
				// ---- reader side
				for _, rf := range []string{"json", "ror2", "untyped", "json+nulls", "untyped+nulls", "json-in-envelope", "untyped-in-envelope"} {
					for _, pruned := range []bool{false, true} {
						src := v
						if pruned {
							src = want
						}
						tree := refcodec.ToTree(s, t, src)
						if strings.HasSuffix(rf, "+nulls") {
							// explicit nulls (absent optional fields and an unknown member spelled as null) denote the same value
							if !injectNulls(s, t, tree, rng) {
								continue
							}
						}
						var r restlicodec.Reader
						var doc string
						inEnvelope := strings.HasSuffix(rf, "-in-envelope")
						switch strings.TrimSuffix(rf, "+nulls") {
						case "json-in-envelope":
							// the entity of a batch_create: {"elements":[entity]}, the spec applies below the two envelope levels
							doc = refcodec.TreeJSON(map[string]any{"elements": []any{tree}}, rng)
							r, err = restlicodec.NewJsonReaderWithExcludedFields([]byte(doc), ps, 2)
						case "untyped-in-envelope":
							wrapped := map[string]any{"elements": []any{tree}}
							doc = fmt.Sprint(wrapped)
							r = restlicodec.NewInterfaceReaderWithExcludedFields(wrapped, ps, 2)
						case "json":
							doc = refcodec.TreeJSON(tree, rng)
							r, err = restlicodec.NewJsonReaderWithExcludedFields([]byte(doc), ps, 0)
						case "ror2":
							doc = refcodec.TreeROR2(tree, refcodec.Header, rng)
							r, err = restlicodec.NewRor2ReaderWithExcludedFields(doc, ps, 0)
						default:
							doc = fmt.Sprint(tree)
							r = restlicodec.NewInterfaceReaderWithExcludedFields(tree, ps, 0)
						}
						if err != nil {
							continue
						}
						run.Eval(1)
						run.Count("reader_cases", 1)
						q := set.New(full)
						var derr error
						if inEnvelope {
							derr = decodeInEnvelope(r, q)
						} else {
							_, derr = codec.DecodeWith(r, q)
						}
						rd := map[string]any{"generation": GENERATION, "set": set.Name, "type": full, "spec": texts, "reader": rf, "document": trunc(doc), "document_carries_excluded_value": carries && !pruned}
						_, isExcl := derr.(restlicodec.ExcludedFieldError)
						if derr != nil {
							rd["error"] = derr.Error()
						}
						switch {
						case derr != nil && isPanic(derr):
							run.Violation(GENERATION+"/reader/"+rf+"/panic/"+shape, rd)
						case carries && !pruned && !isExcl:
							run.Violation(GENERATION+"/reader/"+rf+"/excluded-value-accepted/"+shape, rd)
						case (!carries || pruned) && derr != nil:
							if _, miss := codec.IsMissingFields(derr); miss {
								run.Violation(GENERATION+"/reader/"+rf+"/excluded-required-field-reported-missing/"+shape, rd)
							} else {
								run.Violation(GENERATION+"/reader/"+rf+"/clean-document-rejected/"+shape, rd)
							}
						case derr == nil:
							got, err := set.Read(q.Elem(), t)
							exp := refcodec.Zeroize(s, t, refcodec.FillDefaults(s, t, src))
							if err == nil {
								if d := model.Diff(exp, got, ""); d != "" {
									rd["detail"] = d
									run.Violation(GENERATION+"/reader/"+rf+"/value-differs/"+shape, rd)
									continue
								}
							}
							run.Distinct(fmt.Sprintf("r|%s|%s|%v|%v", full, rf, texts, pruned))
						default:
							run.Distinct(fmt.Sprintf("r|%s|%s|%v|rejected", full, rf, texts))
						}
					}
				}
				if i == 0 && k == 0 {
					run.Sample(desc)
				}
			}
		}
	}
}

// decodeInEnvelope reads {"elements":[entity]} the way the batch_create adapter does.
func decodeInEnvelope(r restlicodec.Reader, ptr reflect.Value) (err error) {
	defer func() {
		if p := recover(); p != nil {
			err = &codec.PanicError{Value: fmt.Sprint(p)}
		}
	}()
	u, ok := ptr.Interface().(restlicodec.Unmarshaler)
	if !ok {
		return fmt.Errorf("%s is not an Unmarshaler", ptr.Type())
	}
	return r.ReadRecord(requiredElements, func(r restlicodec.Reader, field string) error {
		if field == "elements" {
			return r.ReadArray(func(r restlicodec.Reader) error { return u.UnmarshalRestLi(r) })
		}
		return r.Skip()
	})
}

func isPanic(err error) bool { _, ok := err.(*codec.PanicError); return ok }

// leaked: got has something want has not.
func leaked(want, got *model.Value) bool {
	return model.Diff(want, got, "") != "" && !strings.Contains(model.Diff(got, want, ""), "vs <absent>") || strings.Contains(model.Diff(want, got, ""), "<absent> vs")
}

func specShape(spec [][]string) string {
	depth, wild := 0, false
	for _, p := range spec {
		if len(p) > depth {
			depth = len(p)
		}
		for _, seg := range p {
			if seg == "*" {
				wild = true
			}
		}
	}
	s := fmt.Sprintf("%d-paths+depth-%d", len(spec), depth)
	if wild {
		s += "+wildcard"
	}
	return s
}

// ---------------------------------------------------------------------------------------------
// wire level

// CodecLevel runs the codec-level monitor over every generated schema set of this generation.
func CodecLevel(run *ev.Run, rng *rand.Rand, perType int) {
	for _, set := range all.Sets {
		if err := set.SelfCheck(model.NewGen(set.Schema, rand.New(rand.NewSource(run.Seed+7))), 5); err != nil {
			run.Inconclusive("bridge self-check failed: " + err.Error())
			return
		}
		codecLevel(run, set, rng, perType)
	}
}

// injectNulls adds "field": null members for absent optional fields of the records inside tree (and one unknown member
// with a null value per record); it reports whether it added any.
func injectNulls(s *corpus.Schema, t corpus.TypeExpr, tree any, rng *rand.Rand) bool {
	et, td := model.Resolve(s, t)
	added := false
	switch x := tree.(type) {
	case map[string]any:
		switch {
		case td != nil && (td.Kind == "record" || td.Kind == "complexkey"):
			rt := td
			if td.Kind == "complexkey" {
				rt = s.Lookup(td.Key)
			}
			for _, f := range s.AllFields(rt) {
				if sub, ok := x[f.Name]; ok {
					if injectNulls(s, f.Type, sub, rng) {
						added = true
					}
				} else if (f.Optional || f.Default != nil) && rng.Intn(2) == 0 {
					x[f.Name] = nil
					added = true
				}
			}
			if rng.Intn(2) == 0 {
				x["aaNullMember"] = nil // sorts / shuffles in front of most field names
				added = true
			}
		case td != nil && td.Kind == "union":
			for _, m := range td.Members {
				if sub, ok := x[m.Alias]; ok && injectNulls(s, m.Type, sub, rng) {
					added = true
				}
			}
		case et.Map != nil:
			for _, sub := range x {
				if injectNulls(s, *et.Map, sub, rng) {
					added = true
				}
			}
		}
	case []any:
		if et.Array != nil {
			for _, sub := range x {
				if injectNulls(s, *et.Array, sub, rng) {
					added = true
				}
			}
		}
	}
	return added
}
