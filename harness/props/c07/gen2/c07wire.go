// Wire-level half of the C07 driver (generated clients and servers with readOnly / createOnly annotations); derived to gen1.
package gen2

import (
	"sort"
	"bytes"
	"fmt"
	"io"
	"math/rand"
	"net/http"
	"strings"

	"verifh/bridge"
	"verifh/corpus"
	"verifh/ev"
	all "verifh/gen/all"
	"verifh/model"
	"verifh/refcodec"
	rig "verifh/rig"
)

func bodyCarries(tree any, path []string) bool {
	if len(path) == 0 {
		return true
	}
	switch x := tree.(type) {
	case map[string]any:
		if path[0] == "*" {
			for _, v := range x {
				if bodyCarries(v, path[1:]) {
					return true
				}
			}
			return false
		}
		v, ok := x[path[0]]
		if !ok || v == nil {
			return false
		}
		return bodyCarries(v, path[1:])
	case []any:
		for _, v := range x {
			if bodyCarries(v, path) {
				return true
			}
		}
	}
	return false
}

func wireLevel(run *ev.Run, set *bridge.Set, rng *rand.Rand, perMethod int) {
	srv, err := rig.NewServer(set, "bare", nil)
	if err != nil {
		run.Inconclusive("server: " + err.Error())
		return
	}
	defer srv.Close()
	cl := rig.NewClient(set, "http://"+srv.Addr, 0, false)
	g := model.NewGen(set.Schema, rng)
	g.Hostile = 0.1
	g.MaxElems = 3
	// resource code answers every request with a well-formed outcome (requests are made one at a time)
	srng := rand.New(rand.NewSource(99))
	sg := model.NewGen(set.Schema, srng)
	sg.Hostile = 0
	srv.SetScript(func(obs *rig.Observation) *rig.Outcome {
		ep := srv.Endpoints[obs.Call.Resource]
		for i := range ep.Res.Methods {
			if ep.Res.Methods[i].Name == obs.Call.Method {
				return ep.GenOutcome(&ep.Res.Methods[i], obs.Call, sg, srng)
			}
		}
		return nil
	})
	n := 0
	for _, res := range set.Schema.Resources {
		if len(res.ReadOnly)+len(res.CreateOnly) == 0 {
			continue
		}
		ep := srv.Endpoints[res.Namespace]
		s := set.Schema
		schemaT := *res.Schema
		_, std := model.Resolve(s, schemaT)
		for mi := range res.Methods {
			m := &res.Methods[mi]
			excl := ep.ExcludedFor(m.Name)
			if m.Kind != "REST_METHOD" || excl == nil {
				continue
			}
			var exclPaths [][]string
			for _, e := range excl {
				exclPaths = append(exclPaths, strings.Split(e, "/"))
			}
			isPatch := strings.Contains(m.Name, "partial_update")
			for i := 0; i < perMethod; i++ {
				n++
				id := fmt.Sprintf("c07-%d", n)
				call := ep.GenCall(m, g, rng)
				// make sure the entities carry every excluded field (so that there is something to strip)
				fillAll := func(v *model.Value) {
					if v == nil {
						return
					}
					full := g.Value(schemaT, 0)
					for _, f := range s.AllFields(std) {
						if v.Fields[f.Name] == nil && full.Fields[f.Name] != nil {
							v.Fields[f.Name] = full.Fields[f.Name]
						}
					}
					if a := v.Fields["audit"]; a == nil && std.Name == "Thing" {
						v.Fields["audit"] = &model.Value{Kind: model.KRecord, Fields: map[string]*model.Value{"by": model.String("x"), "at": model.Int64(5)}}
					}
				}
				fillAll(call.Entity)
				for _, e := range call.Entities {
					fillAll(e)
				}
				for _, e := range call.ByKey {
					fillAll(e)
				}
				if isPatch {
					// (3) a partial update touching an excluded field must fail on the client before anything is sent
					var setOfParent []string
					touch := func(p *bridge.Patch) {
						e := exclPaths[i%len(exclPaths)]
						f := e[0]
						var fld *corpus.Field
						for _, x := range s.AllFields(std) {
							if x.Name == f {
								x := x
								fld = &x
							}
						}
						_, wholeTd := model.Resolve(s, fld.Type)
						wholeRecord := wholeTd != nil && wholeTd.Kind == "record" && fld.Type.Ref != ""
						switch {
						case len(e) == 1 && wholeRecord && (i/len(exclPaths))%2 == 0:
							// reach the excluded record-typed field through a nested partial update
							np := bridge.NewPatch()
							for _, x := range s.AllFields(wholeTd) {
								np.Set[x.Name] = g.Value(x.Type, 1)
								break
							}
							delete(p.Set, f)
							delete(p.Delete, f)
							p.Nested[f] = np
						case len(e) == 1:
							delete(p.Nested, f)
							delete(p.Delete, f)
							p.Set[f] = g.Value(fld.Type, 1)
						case len(e) > 1 && (i/len(exclPaths))%2 == 1:
							// the excluded sub-field inside a $set of its whole parent record: like an update, the client may
							// leave it out, but it must not transmit it
							_, ftd := model.Resolve(s, fld.Type)
							parent := g.Value(fld.Type, 1)
							for _, x := range s.AllFields(ftd) {
								if x.Name == e[1] {
									parent.Fields[x.Name] = g.Value(x.Type, 1)
								}
							}
							delete(p.Nested, f)
							delete(p.Delete, f)
							p.Set[f] = parent
							setOfParent = e
						default:
							_, ftd := model.Resolve(s, fld.Type)
							np := bridge.NewPatch()
							for _, x := range s.AllFields(ftd) {
								if x.Name == e[1] {
									np.Set[x.Name] = g.Value(x.Type, 1)
								}
							}
							delete(p.Set, f)
							delete(p.Delete, f)
							p.Nested[f] = np
						}
					}
					if call.Patch != nil {
						touch(call.Patch)
					}
					for _, p := range call.PatchByKey {
						touch(p)
					}
					if call.Patch == nil && len(call.PatchByKey) == 0 {
						continue
					}
					run.Eval(1)
					run.Count("wire.patch_touching_excluded", 1)
					got, wire, err := cl.Invoke(res, m, call, id)
					obs := srv.Take(id)
					desc := map[string]any{"generation": GENERATION, "resource": res.Namespace, "method": m.Name, "excluded": excl, "call": call.Show(), "wire_exchanges": len(wire), "invocations": len(obs)}
					if err != nil {
						run.Inconclusive("rig: " + err.Error())
						continue
					}
					desc["client_result"] = got.Show()
					switch {
					case setOfParent != nil && len(wire) == 1 && !strings.Contains(wire[0].Body, `"`+setOfParent[1]+`":`):
						// sent without the excluded sub-field (the occurrence test is textual: sub-field names of the kitchen
						// sink annotations - "at" - do not occur elsewhere in these bodies)
						run.Count("wire.set_of_parent_pruned", 1)
						run.Distinct("wire|patch-set-of-parent|" + res.Namespace + "|" + m.Name)
					case len(wire) != 0:
						desc["request_body"] = trunc(wire[0].Body)
						run.Violation(GENERATION+"/wire/"+m.Name+"/patch-touching-excluded-field-was-sent", desc)
					case got.Err == nil:
						run.Violation(GENERATION+"/wire/"+m.Name+"/patch-touching-excluded-field-no-client-error", desc)
					default:
						run.Distinct("wire|patch|" + res.Namespace + "|" + m.Name)
					}
					continue
				}
				// (1)(2) what the generated client transmits
				run.Eval(1)
				run.Count("wire.client_requests", 1)
				_, wire, err := cl.Invoke(res, m, call, id)
				srv.Take(id)
				if err != nil {
					run.Inconclusive("rig: " + err.Error())
					continue
				}
				desc := map[string]any{"generation": GENERATION, "resource": res.Namespace, "method": m.Name, "excluded": excl, "call": call.Show()}
				if len(wire) != 1 {
					desc["wire_exchanges"] = len(wire)
					run.Violation(GENERATION+"/wire/"+m.Name+"/client-sent-nothing", desc)
					continue
				}
				desc["request_body"] = trunc(wire[0].Body)
				tree, perr := refcodec.ParseJSON([]byte(wire[0].Body))
				if perr != nil {
					run.Violation(GENERATION+"/wire/"+m.Name+"/request-body-not-json", desc)
					continue
				}
				// unwrap envelopes
				var entities []any
				switch m.Name {
				case "batch_create":
					if mm, ok := tree.(map[string]any); ok {
						if a, ok := mm["elements"].([]any); ok {
							entities = a
						}
					}
				case "batch_update":
					if mm, ok := tree.(map[string]any); ok {
						if e, ok := mm["entities"].(map[string]any); ok {
							for _, v := range e {
								entities = append(entities, v)
							}
						}
					}
				default:
					entities = []any{tree}
				}
				bad := ""
				for _, e := range entities {
					for _, p := range exclPaths {
						if bodyCarries(e, p) {
							bad = strings.Join(p, "/")
						}
					}
				}
				// ... and nothing else: every entity the caller supplied must arrive, equal to its reference prune
				var supplied []*model.Value
				switch {
				case call.Entity != nil:
					supplied = []*model.Value{call.Entity}
				case len(call.Entities) > 0:
					supplied = call.Entities
				default:
					for _, e := range call.ByKey {
						supplied = append(supplied, e)
					}
				}
				lost := ""
				if len(supplied) != len(entities) {
					lost = fmt.Sprintf("%d entities supplied, %d on the wire", len(supplied), len(entities))
				} else {
					var wantTexts, gotTexts []string
					for _, v := range supplied {
						wantTexts = append(wantTexts, model.Show(refcodec.FillDefaults(s, schemaT, refcodec.Prune(s, schemaT, v, excl))))
					}
					for _, e := range entities {
						gv, derr := refcodec.FromTree(s, schemaT, e, refcodec.DecodeOpts{}, "")
						if derr != nil {
							gotTexts = append(gotTexts, "UNREADABLE: "+derr.Error())
							continue
						}
						gotTexts = append(gotTexts, model.Show(refcodec.FillDefaults(s, schemaT, gv)))
					}
					sort.Strings(wantTexts)
					sort.Strings(gotTexts)
					for k := range wantTexts {
						if wantTexts[k] != gotTexts[k] {
							lost = "an entity on the wire differs from the pruned entity: " + trunc(gotTexts[k]) + " vs " + trunc(wantTexts[k])
							break
						}
					}
				}
				switch {
				case bad != "":
					desc["transmitted_excluded_field"] = bad
					run.Violation(GENERATION+"/wire/"+m.Name+"/client-transmitted-excluded-field", desc)
				case lost != "":
					desc["detail"] = lost
					run.Violation(GENERATION+"/wire/"+m.Name+"/client-dropped-or-changed-more-than-the-excluded-fields", desc)
				case len(entities) > 0:
					run.Distinct("wire|client|" + res.Namespace + "|" + m.Name)
				}
			}
			// (4) raw requests carrying an excluded field must be answered 400 without invoking resource code
			for i := 0; i < perMethod; i++ {
				for _, p := range exclPaths {
					n++
					id := fmt.Sprintf("c07raw-%d", n)
					verb, target, body := rawRequest(set, ep, res, m, p, g, rng)
					if verb == "" {
						continue
					}
					run.Eval(1)
					run.Count("wire.raw_requests", 1)
					req, _ := http.NewRequest(verb, "http://"+srv.Addr+target, bytes.NewReader([]byte(body)))
					req.Header.Set("X-RestLi-Method", m.Name)
					req.Header.Set("X-RestLi-Protocol-Version", "2.0.0")
					req.Header.Set("Content-Type", "application/json")
					req.Header.Set("X-Verif-Req", id)
					resp, err := http.DefaultClient.Do(req)
					desc := map[string]any{"generation": GENERATION, "resource": res.Namespace, "method": m.Name, "excluded_path": strings.Join(p, "/"), "request": verb + " " + target, "body": trunc(body)}
					if err != nil {
						desc["error"] = err.Error()
						run.Violation(GENERATION+"/wire/"+m.Name+"/raw/no-response", desc)
						continue
					}
					rb, _ := io.ReadAll(resp.Body)
					resp.Body.Close()
					obs := srv.Take(id)
					desc["status"], desc["response"], desc["invocations"] = resp.StatusCode, trunc(string(rb)), len(obs)
					switch {
					case len(obs) != 0:
						run.Violation(GENERATION+"/wire/"+m.Name+"/raw/resource-invoked-with-excluded-field/"+pathShape(p), desc)
					case resp.StatusCode != 400:
						run.Violation(GENERATION+"/wire/"+m.Name+"/raw/status-not-400/"+pathShape(p), desc)
					default:
						run.Distinct("wire|raw|" + res.Namespace + "|" + m.Name + "|" + strings.Join(p, "/"))
					}
				}
			}
		}
	}
}

func pathShape(p []string) string {
	if len(p) == 1 {
		return "top-level-field"
	}
	return "nested-field"
}

// rawRequest builds a conforming request for method m whose body carries a value at the excluded path p.
func rawRequest(set *bridge.Set, ep *rig.Endpoint, res *corpus.Resource, m *corpus.MethodSpec, p []string, g *model.Gen, rng *rand.Rand) (verb, target, body string) {
	s := set.Schema
	schemaT := *res.Schema
	_, std := model.Resolve(s, schemaT)
	entity := func() any {
		v := g.Value(schemaT, 0)
		// force the excluded path to be present
		cur := v
		ctd := std
		for i, seg := range p {
			var fld *corpus.Field
			for _, x := range s.AllFields(ctd) {
				if x.Name == seg {
					x := x
					fld = &x
				}
			}
			if fld == nil {
				return nil
			}
			if cur.Fields[seg] == nil || i < len(p)-1 {
				cur.Fields[seg] = g.Value(fld.Type, 0)
			}
			if i < len(p)-1 {
				cur = cur.Fields[seg]
				_, ctd = model.Resolve(s, fld.Type)
				if ctd == nil || cur.Kind != model.KRecord {
					return nil
				}
			}
		}
		return refcodec.ToTree(s, schemaT, v)
	}
	patch := func() any {
		// {"patch": {"$set": {field: value}}} or nested {"patch": {field: {"$set": {sub: value}}}}
		var fld *corpus.Field
		for _, x := range s.AllFields(std) {
			if x.Name == p[0] {
				x := x
				fld = &x
			}
		}
		if fld == nil {
			return nil
		}
		if len(p) == 1 {
			return map[string]any{"patch": map[string]any{"$set": map[string]any{p[0]: refcodec.ToTree(s, fld.Type, g.Value(fld.Type, 1))}}}
		}
		_, ftd := model.Resolve(s, fld.Type)
		for _, x := range s.AllFields(ftd) {
			if x.Name == p[1] {
				if rng.Intn(2) == 0 {
					// the excluded sub-field travels inside a $set of its whole parent record
					parent := g.Value(fld.Type, 1)
					parent.Fields[p[1]] = g.Value(x.Type, 1)
					return map[string]any{"patch": map[string]any{"$set": map[string]any{p[0]: refcodec.ToTree(s, fld.Type, parent)}}}
				}
				return map[string]any{"patch": map[string]any{p[0]: map[string]any{"$set": map[string]any{p[1]: refcodec.ToTree(s, x.Type, g.Value(x.Type, 1))}}}}
			}
		}
		return nil
	}
	last := res.Segments[len(res.Segments)-1]
	base := "/" + last.Name
	keyed := base + "/k1"
	if last.Key == nil {
		keyed = base
	} else if last.Key.Ref != "" && strings.HasSuffix(last.Key.Ref, "CK") {
		keyed = base + "/(a:x,b:1)"
	}
	if len(res.Segments) != 1 {
		return "", "", ""
	}
	var tree any
	switch m.Name {
	case "create":
		verb, target, tree = "POST", base, entity()
	case "update":
		verb, target, tree = "PUT", keyed, entity()
	case "partial_update":
		verb, target, tree = "POST", keyed, patch()
	case "batch_create":
		e := entity()
		if e == nil {
			return "", "", ""
		}
		verb, target, tree = "POST", base, map[string]any{"elements": []any{e}}
	case "batch_update":
		e := entity()
		if e == nil {
			return "", "", ""
		}
		id := "k1"
		if strings.Contains(keyed, "(") {
			id = "(a:x,b:1)"
		}
		verb, target, tree = "PUT", base+"?ids=List("+id+")", map[string]any{"entities": map[string]any{id: e}}
	case "batch_partial_update":
		e := patch()
		if e == nil {
			return "", "", ""
		}
		id := "k1"
		if strings.Contains(keyed, "(") {
			id = "(a:x,b:1)"
		}
		verb, target, tree = "POST", base+"?ids=List("+id+")", map[string]any{"entities": map[string]any{id: e}}
	default:
		return "", "", ""
	}
	if tree == nil {
		return "", "", ""
	}
	return verb, target, refcodec.TreeJSON(tree, rng)
}

// WireLevel runs the wire-level monitor on the kitchen-sink bindings of this generation.
func WireLevel(run *ev.Run, rng *rand.Rand, perMethod int) {
	if len(all.Sets) == 0 || all.Sets[0].Name != "ks" {
		run.Inconclusive(GENERATION + ": kitchen sink bindings missing")
		return
	}
	wireLevel(run, all.Sets[0], rng, perMethod)
}
