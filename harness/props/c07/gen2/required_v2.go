package gen2

import "github.com/PapaCharlie/go-restli/v2/restlicodec"

var requiredElements = restlicodec.NewRequiredFields().Add("elements")
