// C07 — read-only / create-only field exclusion is exact on both encode and decode.
//
// Codec level: for exclusion specs P (sets of slash-separated paths with wildcards) and values v, the output of
// a writer built WithExcludedFields(P) must denote exactly prune(v, P) (reference matcher), and a reader built
// WithExcludedFields(P) must reject a document iff it carries a value at a matching path, without reporting
// excluded required fields as missing.  Wire level: through generated bindings with readOnly / createOnly
// annotations, the tapped request bodies must not carry excluded fields, a partial update touching one must
// fail before anything is sent, and raw requests carrying one must get 400 without an invocation.
package main

import (
	"math/rand"

	"verifh/ev"
	"verifh/props/c07/gen1"
	"verifh/props/c07/gen2"
)

func main() {
	run := ev.Start("C07")
	defer run.Guard()
	run.Rule("codec level: (record type, value, exclusion spec of 1-3 paths of depth <= 4 drawn from the key paths occurring in the value, with wildcards in non-final positions, plus non-occurring names) -> writers WithExcludedFields (JSON compact/pretty, ROR2) must emit exactly prune(value, spec); " +
		"readers WithExcludedFields (JSON, ROR2, untyped) must reject the unpruned document iff it carries a value at a matching path and accept the pruned one without reporting excluded required fields; " +
		"wire level: annotated kitchen-sink resources x {create, batch_create, update, batch_update, partial_update, batch_partial_update}: tapped client bodies, client-side failure of patches touching excluded fields, raw requests carrying excluded fields -> 400 and no invocation. distinct = distinct (type/resource, spec/method, side)")
	run.Assume("a wildcard as the last segment applied to array items is left unspecified (specs are drawn with wildcards in non-final positions only)", "both generations: the root module through types-only bindings written by its own generator from the same schema sets")
	rng := rand.New(rand.NewSource(run.Seed + 77))
	gen2.CodecLevel(run, rng, run.Pick(8, 80))
	gen1.CodecLevel(run, rand.New(rand.NewSource(run.Seed+77)), run.Pick(8, 80))
	gen2.WireLevel(run, rng, run.Pick(10, 100))
	gen1.WireLevel(run, rand.New(rand.NewSource(run.Seed+78)), run.Pick(10, 100))
	run.Set("generations", []string{"v2", "root"})
	run.Require("writer_cases", 500)
	run.Require("reader_cases", 500)
	run.Require("wire.client_requests", 20)
	run.Require("wire.raw_requests", 20)
	run.Require("wire.patch_touching_excluded", 10)
	run.Finish()
}
