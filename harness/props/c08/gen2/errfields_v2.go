package gen2

import (
	"fmt"

	common "github.com/PapaCharlie/go-restli/v2/restlidata/generated/com/linkedin/restli/common"

	rig "verifh/rig"
)

func snapshot(er *common.ErrorResponse) common.ErrorResponse {
	c := common.ErrorResponse{}
	cp32 := func(p *int32) *int32 {
		if p == nil {
			return nil
		}
		v := *p
		return &v
	}
	cps := func(p *string) *string {
		if p == nil {
			return nil
		}
		v := *p
		return &v
	}
	c.Status, c.ServiceErrorCode = cp32(er.Status), cp32(er.ServiceErrorCode)
	c.Code, c.Message, c.DocUrl, c.RequestId, c.ExceptionClass, c.StackTrace, c.ErrorDetailType = cps(er.Code), cps(er.Message), cps(er.DocUrl), cps(er.RequestId), cps(er.ExceptionClass), cps(er.StackTrace), cps(er.ErrorDetailType)
	return c
}

func showErr(er *common.ErrorResponse) string {
	d := func(p *string) string {
		if p == nil {
			return "<nil>"
		}
		return *p
	}
	st := "<nil>"
	if er.Status != nil {
		st = fmt.Sprint(*er.Status)
	}
	return fmt.Sprintf("status=%s message=%s code=%s exceptionClass=%s", st, d(er.Message), d(er.Code), d(er.ExceptionClass))
}

// errDiff: every field the resource set must arrive equal; unset status / message may be defaulted.
func errDiff(sent *common.ErrorResponse, got *rig.ErrInfo) string {
	eq32 := func(a, b *int32) bool { return a == nil || (b != nil && *a == *b) }
	eqS := func(a, b *string) bool { return a == nil || (b != nil && *a == *b) }
	switch {
	case !eq32(sent.Status, got.Status):
		return "status"
	case !eqS(sent.Message, got.Message):
		return "message"
	case !eqS(sent.Code, got.Code) || (sent.Code == nil && got.Code != nil):
		return "code"
	case !eq32(sent.ServiceErrorCode, got.ServiceErrorCode) || (sent.ServiceErrorCode == nil && got.ServiceErrorCode != nil):
		return "serviceErrorCode"
	case !eqS(sent.ExceptionClass, got.ExceptionClass) || (sent.ExceptionClass == nil && got.ExceptionClass != nil):
		return "exceptionClass"
	case !eqS(sent.DocUrl, got.DocUrl) || (sent.DocUrl == nil && got.DocUrl != nil):
		return "docUrl"
	}
	return ""
}

