// Package gen2 runs the C08 outcome table on the hand-written resource kit, which exists for both module generations
// (props/c08/gen1 is derived from this file): every method kind x scripted outcome of resource code, observed on the
// wire and through the library's generic client functions, plus a snapshot comparison of the error object the resource
// returned.  The generated-bindings table in props/c08/main.go is v2 only; this one reaches the root module's handler.
package gen2

import (
	"encoding/json"
	"errors"
	"fmt"
	"net"
	"net/http"
	"net/url"
	"strings"

	common "github.com/PapaCharlie/go-restli/v2/restlidata/generated/com/linkedin/restli/common"

	"verifh/ev"
	kit "verifh/props/hw/gen2"
)

const GENERATION = "v2"

func p32(v int32) *int32   { return &v }
func ps(v string) *string { return &v }

func errSubset(mask int) *common.ErrorResponse {
	e := &common.ErrorResponse{}
	if mask&1 != 0 {
		e.Status = p32([]int32{400, 404, 409, 422, 500, 503}[mask%6])
	}
	if mask&2 != 0 {
		e.Message = ps(fmt.Sprintf("message %d with \"quotes\" and é 100%%", mask))
	}
	if mask&4 != 0 {
		e.ExceptionClass = ps("com.example.Boom")
	}
	if mask&8 != 0 {
		e.StackTrace = ps("at x\n\tat y")
	}
	return e
}

func show(e *common.ErrorResponse) string {
	d := func(p *string) string {
		if p == nil {
			return "<nil>"
		}
		return *p
	}
	st := "<nil>"
	if e.Status != nil {
		st = fmt.Sprint(*e.Status)
	}
	return fmt.Sprintf("status=%s message=%s exceptionClass=%s stackTrace=%s", st, d(e.Message), d(e.ExceptionClass), d(e.StackTrace))
}

type methodCase struct {
	kind          string
	defaultStatus int
	returnsEntity bool
	call          func(t *kit.Typed) (*kit.Wire, error)
}

func trunc(s string) string {
	if len(s) > 500 {
		return s[:500] + "..."
	}
	return s
}

// RunKit runs the table; mounting is "bare", "prefixed", "bare+filters" or "bare+strict" (a client with strict response deserialization).
func RunKit(run *ev.Run, mounting string) {
	rec := &kit.Recorder{}
	s := kit.NewServer(nil)
	if mounting == "bare+filters" {
		// well-behaved filters (their PostRequest returns nil) must not change any outcome
		s = kit.NewServer(kit.NewFilters([]string{"pass", "ctx", "pass"}, &kit.FilterLog{}))
	}
	prefix := ""
	if mounting == "prefixed" {
		prefix = "/api/v1"
		s = kit.NewPrefixedServer(prefix, nil)
	}
	kit.Register(s, kit.ResourceSpec{Segments: []kit.Segment{{Name: "things", IsCollection: true}},
		Methods: []string{"get", "create", "update", "partial_update", "delete", "get_all", "batch_get", "batch_delete", "batch_update", "batch_partial_update", "batch_create"},
		Finders: []string{"search"}, Actions: []kit.ActionSpec{{Name: "poke", OnEntity: true}, {Name: "sum"}}}, rec)
	kit.Register(s, kit.ResourceSpec{Segments: []kit.Segment{{Name: "single"}}, Methods: []string{"get", "update", "partial_update", "delete"}, Actions: []kit.ActionSpec{{Name: "reset"}}}, rec)
	ln, err := net.Listen("tcp", "127.0.0.1:0")
	if err != nil {
		run.Inconclusive("listen: " + err.Error())
		return
	}
	var logBuf strings.Builder
	srv := &http.Server{Handler: s.Handler(), ErrorLog: nil}
	_ = logBuf
	go srv.Serve(ln)
	defer srv.Close()
	base, _ := url.Parse("http://" + ln.Addr().String() + prefix)
	body := []byte(`{"v":1}`)
	q := "p=1"
	methods := []methodCase{
		{"get", 200, true, func(t *kit.Typed) (*kit.Wire, error) { _, w, e := t.Get("things", "/things/k1", &q); return w, e }},
		{"simple-get", 200, true, func(t *kit.Typed) (*kit.Wire, error) { _, w, e := t.Get("single", "/single", nil); return w, e }},
		{"get_all", 200, false, func(t *kit.Typed) (*kit.Wire, error) { _, w, e := t.GetAll("things", "/things", nil); return w, e }},
		{"finder", 200, false, func(t *kit.Typed) (*kit.Wire, error) { _, w, e := t.Find("things", "/things", "q=search&x=1"); return w, e }},
		{"create", 201, false, func(t *kit.Typed) (*kit.Wire, error) { _, _, w, e := t.Create("things", "/things", body); return w, e }},
		{"update", 204, false, func(t *kit.Typed) (*kit.Wire, error) { return t.Update("things", "/things/k1", body) }},
		{"simple-update", 204, false, func(t *kit.Typed) (*kit.Wire, error) { return t.Update("single", "/single", body) }},
		{"partial_update", 204, false, func(t *kit.Typed) (*kit.Wire, error) {
			return t.PartialUpdate("things", "/things/k1", []byte(`{"patch":{"$set":{"v":2}}}`))
		}},
		{"delete", 204, false, func(t *kit.Typed) (*kit.Wire, error) { return t.Delete("things", "/things/k1") }},
		{"batch_get", 200, false, func(t *kit.Typed) (*kit.Wire, error) { _, w, e := t.BatchGet("things", "/things", []string{"a", "b"}); return w, e }},
		{"batch_delete", 200, false, func(t *kit.Typed) (*kit.Wire, error) { _, w, e := t.BatchDelete("things", "/things", []string{"a", "b"}); return w, e }},
		{"batch_update", 200, false, func(t *kit.Typed) (*kit.Wire, error) {
			_, w, e := t.BatchUpdate("things", "/things", map[string][]byte{"a": body, "b": body})
			return w, e
		}},
		{"batch_create", 200, false, func(t *kit.Typed) (*kit.Wire, error) { _, w, e := t.BatchCreate("things", "/things", [][]byte{body, body}); return w, e }},
		{"action", 200, false, func(t *kit.Typed) (*kit.Wire, error) { _, w, e := t.Action("things", "/things", "sum", body); return w, e }},
		{"entity-action", 200, false, func(t *kit.Typed) (*kit.Wire, error) { _, w, e := t.Action("things", "/things/k1", "poke", body); return w, e }},
	}
	type outcome struct {
		name string
		mk   func() kit.Outcome
	}
	var outcomes []outcome
	outcomes = append(outcomes, outcome{"success", func() kit.Outcome { return kit.Outcome{} }})
	outcomes = append(outcomes, outcome{"success-overridden-status", func() kit.Outcome { return kit.Outcome{Status: 202} }})
	// a batch call in which every key failed is still a successful call: 200, per-key errors, empty results
	outcomes = append(outcomes, outcome{"success-every-batch-key-failed", func() kit.Outcome {
		return kit.Outcome{BatchErrors: map[string]*common.ErrorResponse{"a": {Status: p32(404), Message: ps("no a")}, "b": {Status: p32(500)}}}
	}})
	outcomes = append(outcomes, outcome{"typed-nil", func() kit.Outcome { return kit.Outcome{NilEntity: true} }})
	outcomes = append(outcomes, outcome{"plain-error", func() kit.Outcome { return kit.Outcome{Err: errors.New("disk 100% full: \"sda\" é")} }})
	outcomes = append(outcomes, outcome{"panic", func() kit.Outcome { return kit.Outcome{DoPanic: true, Panic: "something went wrong 50%"} }})
	outcomes = append(outcomes, outcome{"unserializable-entity", func() kit.Outcome { return kit.Outcome{Unserializable: true} }})
	outcomes = append(outcomes, outcome{"panic-while-serializing", func() kit.Outcome { return kit.Outcome{Explode: true} }})
	// sizes: nothing in the statement allows an error to be cut short because it is long
	big := strings.Repeat("m", 70000) + " end-of-message"
	outcomes = append(outcomes, outcome{"error-response-large-message", func() kit.Outcome {
		return kit.Outcome{Err: &common.ErrorResponse{Status: p32(422), Message: ps(big), StackTrace: ps(strings.Repeat("at x.y(z)\n", 20000))}}
	}})
	outcomes = append(outcomes, outcome{"plain-error-large", func() kit.Outcome { return kit.Outcome{Err: errors.New(big)} }})
	// an error response is an error whatever its status says (seed C08m: a client that trusts a 2xx status line before
	// it looks at the error header delivers the error body as the result)
	outcomes = append(outcomes, outcome{"error-response-success-status", func() kit.Outcome {
		return kit.Outcome{Err: &common.ErrorResponse{Status: p32(202), Message: ps("accepted, but failed"), ExceptionClass: ps("com.example.Late")}}
	}})
	outcomes = append(outcomes, outcome{"error-response-status-200", func() kit.Outcome {
		return kit.Outcome{Err: &common.ErrorResponse{Status: p32(200), Message: ps("failed with 200")}}
	}})
	for mask := 0; mask < 16; mask++ {
		mask := mask
		outcomes = append(outcomes, outcome{fmt.Sprintf("error-response-%02d", mask), func() kit.Outcome { return kit.Outcome{Err: errSubset(mask)} }})
	}
	for _, m := range methods {
		for _, oc := range outcomes {
			o := oc.mk()
			var held *common.ErrorResponse
			var before common.ErrorResponse
			if er, ok := o.Err.(*common.ErrorResponse); ok {
				held = er
				before = *er
				if er.Status != nil {
					before.Status = p32(*er.Status)
				}
				if er.Message != nil {
					before.Message = ps(*er.Message)
				}
				if er.ExceptionClass != nil {
					before.ExceptionClass = ps(*er.ExceptionClass)
				}
				if er.StackTrace != nil {
					before.StackTrace = ps(*er.StackTrace)
				}
			}
			rec.Script = func(*kit.Invocation) kit.Outcome { return o }
			t := &kit.Typed{Base: base, Transport: &http.Transport{DisableKeepAlives: true}, Strict: mounting == "bare+strict"}
			w, err := m.call(t)
			inv := rec.Drain()
			run.Eval(1)
			run.Count(GENERATION+".kit.calls", 1)
			kind, cst, cmsg := kit.DescribeError(err)
			desc := map[string]any{"generation": GENERATION, "mounting": mounting, "method": m.kind, "outcome": oc.name, "client_error_kind": kind, "client_status": cst, "client_message": trunc(cmsg), "invocations": len(inv)}
			if w != nil {
				desc["wire"] = map[string]any{"status": w.Status, "error_header": w.RespHeader.Get("X-RestLi-Error-Response"), "body": trunc(w.RespBody), "transport_error": w.TransportErr}
			}
			ocName := oc.name
			if held != nil {
				ocName = "error-response:" + shape(&before)
			}
			sig := func(what string) string { return fmt.Sprintf("%s/kit/%s/%s/%s", GENERATION, m.kind, ocName, what) }
			if w == nil || w.TransportErr != "" || w.Status == 0 || kind == "url.Error" {
				run.Violation(sig("connection-crashed-or-no-response"), desc)
				continue
			}
			if len(inv) != 1 {
				run.Violation(sig("not-invoked-exactly-once"), desc)
				continue
			}
			hdr := strings.EqualFold(w.RespHeader.Get("X-RestLi-Error-Response"), "true")
			var wireErr struct {
				Status         *int32  `json:"status"`
				Message        *string `json:"message"`
				ExceptionClass *string `json:"exceptionClass"`
				StackTrace     *string `json:"stackTrace"`
			}
			switch {
			case strings.HasPrefix(oc.name, "success"):
				want := m.defaultStatus
				if oc.name == "success-overridden-status" {
					want = 202
				}
				switch {
				case hdr:
					run.Violation(sig("error-header-on-success"), desc)
				case err != nil:
					run.Violation(sig("client-error-on-success"), desc)
				case w.Status != want:
					desc["expected_status"] = want
					run.Violation(sig("wrong-success-status"), desc)
				default:
					run.Distinct(GENERATION + "|kit|" + m.kind + "|" + oc.name)
				}
			case held != nil:
				want := 500
				if before.Status != nil {
					want = int(*before.Status)
				}
				_ = json.Unmarshal([]byte(w.RespBody), &wireErr)
				eqS := func(a, b *string) bool { return a == nil || (b != nil && *a == *b) }
				switch {
				case w.Status != want:
					desc["expected_status"] = want
					run.Violation(sig("wrong-http-status"), desc)
				case !hdr:
					run.Violation(sig("error-header-missing"), desc)
				case kind != "restli.Error":
					run.Violation(sig("client-did-not-get-restli-error"), desc)
				case before.Status != nil && cst != int(*before.Status), before.Message != nil && cmsg != *before.Message, !eqS(before.ExceptionClass, wireErr.ExceptionClass), !eqS(before.StackTrace, wireErr.StackTrace),
					before.ExceptionClass == nil && wireErr.ExceptionClass != nil:
					run.Violation(sig("error-fields-differ"), desc)
				default:
					run.Distinct(GENERATION + "|kit|" + m.kind + "|" + ocName)
				}
				if show(&before) != show(held) {
					desc["error_object_before"], desc["error_object_after"] = show(&before), show(held)
					run.Violation(fmt.Sprintf("%s/kit/error-object-modified/%s", GENERATION, shape(&before)), desc)
				}
				run.Count(GENERATION+".kit.error_object_snapshots", 1)
			default:
				text := map[string]string{"plain-error": "disk 100% full: \"sda\" é", "panic": "something went wrong 50%", "unserializable-entity": "cannot be serialized", "plain-error-large": big}[oc.name]
				switch {
				case oc.name == "typed-nil" && !m.returnsEntity,
					(oc.name == "unserializable-entity" || oc.name == "panic-while-serializing") && !m.returnsEntity && m.kind != "get_all" && m.kind != "finder":
					run.Count("observed_only.outcome_needs_an_entity_result", 1)
				case w.Status < 400:
					run.Violation(sig("success-status-for-failure"), desc)
				case !hdr || kind != "restli.Error":
					run.Violation(sig("not-an-error-response"), desc)
				case text != "" && !strings.Contains(cmsg, text):
					desc["expected_message_to_contain"] = text
					run.Violation(sig("message-lost"), desc)
				default:
					run.Distinct(GENERATION + "|kit|" + m.kind + "|" + oc.name)
				}
			}
		}
	}
}

func shape(e *common.ErrorResponse) string {
	var f []string
	if e.Status != nil {
		f = append(f, "status")
	}
	if e.Message != nil {
		f = append(f, "message")
	}
	if len(f) == 0 {
		return "no-status-no-message"
	}
	return strings.Join(f, "+")
}
