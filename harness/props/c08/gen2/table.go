// Outcome table of the C08 driver on generated bindings (and the shared-error-object race child); derived to gen1.
package gen2

import (
	"errors"
	"fmt"
	"io"
	"log"
	"math/rand"
	"os"
	"os/exec"
	"path/filepath"
	"reflect"
	"strings"
	"sync"

	common "github.com/PapaCharlie/go-restli/v2/restlidata/generated/com/linkedin/restli/common"

	"verifh/corpus"
	"verifh/ev"
	all "verifh/gen/all"
	"verifh/model"
	rig "verifh/rig"
)


type scenario struct {
	name  string
	build func(ep *rig.Endpoint, m *corpus.MethodSpec, call *rig.Call, g *model.Gen, rng *rand.Rand) *rig.Outcome
}

func errInfoSubset(mask int) *rig.ErrInfo {
	ei := &rig.ErrInfo{}
	if mask&1 != 0 {
		ei.Status = p32([]int32{400, 404, 409, 422, 500, 503}[mask%6])
	}
	if mask&2 != 0 {
		ei.Message = ps(fmt.Sprintf("message %d with \"quotes\" and é", mask))
	}
	if mask&4 != 0 {
		ei.Code = ps("CODE_X")
	}
	if mask&8 != 0 {
		ei.ServiceErrorCode = p32(4711)
	}
	if mask&16 != 0 {
		ei.ExceptionClass = ps("com.example.Boom")
	}
	if mask&32 != 0 {
		ei.DocUrl = ps("https://example.com/doc?x=1")
	}
	return ei
}

func defaultStatus(m *corpus.MethodSpec) int {
	switch {
	case m.Kind == "REST_METHOD" && m.Name == "create":
		return 201
	case m.Kind == "REST_METHOD" && (m.Name == "update" || m.Name == "delete" || (m.Name == "partial_update" && !m.ReturnEntity)):
		return 204
	}
	return 200
}

// Functional runs the outcome table on the kitchen-sink bindings of this generation.
func Functional(run *ev.Run, mounting string, rng *rand.Rand) {
	if len(all.Sets) == 0 || all.Sets[0].Name != "ks" {
		run.Inconclusive(GENERATION + ": kitchen sink bindings missing")
		return
	}
	set := all.Sets[0]
	srv, err := rig.NewServer(set, mounting, nil)
	if err != nil {
		run.Inconclusive("server: " + err.Error())
		return
	}
	defer srv.Close()
	cl := rig.NewClient(set, "http://"+srv.Addr+srv.Prefix, 0, false)
	var mu sync.Mutex
	scripted := map[string]*rig.Outcome{}
	srv.SetScript(func(obs *rig.Observation) *rig.Outcome {
		mu.Lock()
		defer mu.Unlock()
		return scripted[obs.Call.ReqID]
	})
	g := model.NewGen(set.Schema, rng)
	g.Hostile = 0.05
	g.MaxElems = 2
	g.MaxDepth = 2
	n := 0
	masks := []int{}
	for mask := 0; mask < 64; mask++ {
		masks = append(masks, mask)
	}
	seenKind := map[string]bool{}
	for _, res := range set.Schema.Resources {
		ep := srv.Endpoints[res.Namespace]
		for mi := range res.Methods {
			m := &res.Methods[mi]
			kind := m.Name
			if m.Kind != "REST_METHOD" {
				kind = strings.ToLower(m.Kind)
				if m.OnEntity {
					kind = "entity-" + kind
				}
			}
			if m.ReturnEntity {
				kind += "+return-entity"
			}
			full := !seenKind[kind] || run.Thorough()
			seenKind[kind] = true
			type sc struct {
				name string
				o    func(call *rig.Call) *rig.Outcome
			}
			var scs []sc
			scs = append(scs, sc{"success", func(c *rig.Call) *rig.Outcome { return ep.GenOutcome(m, c, g, rng) }})
			scs = append(scs, sc{"success-overridden-status", func(c *rig.Call) *rig.Outcome {
				o := ep.GenOutcome(m, c, g, rng)
				o.Status = 202
				return o
			}})
			scs = append(scs, sc{"typed-nil", func(c *rig.Call) *rig.Outcome { return &rig.Outcome{NilEntity: true} }})
			scs = append(scs, sc{"plain-error", func(c *rig.Call) *rig.Outcome { return &rig.Outcome{PlainError: "disk 100% full: \"sda\" é"} }})
			scs = append(scs, sc{"panic-string", func(c *rig.Call) *rig.Outcome { return &rig.Outcome{Panic: "something went wrong 50%"} }})
			step := 9
			if full {
				step = 1
			}
			for i := 0; i < 64; i += step {
				mask := (i + mi) % 64
				scs = append(scs, sc{fmt.Sprintf("error-response-%02d", mask), func(c *rig.Call) *rig.Outcome {
					er := errInfoSubset(mask).Response()
					return &rig.Outcome{RawErr: er}
				}})
			}
			for _, sc := range scs {
				n++
				id := fmt.Sprintf("c08-%s-%d", mounting, n)
				call := ep.GenCall(m, g, rng)
				if keyUnfit(call) {
					continue
				}
				out := sc.o(call)
				if createdIDUnfit(out) {
					// a created id with control characters or surrounding white space cannot travel in the id / Location
					// response headers at all (HTTP forbids it); C02 observes those, this table leaves them out
					continue
				}
				var held *common.ErrorResponse
				var before common.ErrorResponse
				if er, ok := out.RawErr.(*common.ErrorResponse); ok {
					held, before = er, snapshot(er)
				}
				mu.Lock()
				scripted[id] = out
				mu.Unlock()
				run.Eval(1)
				run.Count("calls", 1)
				got, wire, err := cl.Invoke(res, m, call, id)
				obs := srv.Take(id)
				srvLog := srv.TakeErrLog()
				mu.Lock()
				delete(scripted, id)
				mu.Unlock()
				if err != nil {
					run.Inconclusive("rig: " + err.Error())
					continue
				}
				desc := map[string]any{"generation": GENERATION, "mounting": mounting, "method": res.Namespace + "." + m.Name, "outcome": sc.name, "client_result": got.Show(), "invocations": len(obs)}
				var w *rig.Wire
				if len(wire) > 0 {
					w = wire[0]
					desc["wire"] = map[string]any{"status": w.Status, "error_header": w.RespHeader.Get("X-RestLi-Error-Response"), "body": trunc(w.RespBody), "transport_error": w.TransportErr, "content_length": w.RespHeader.Get("Content-Length")}
				}
				sig := func(kind string) string {
					oc := sc.name
					if strings.HasPrefix(oc, "error-response") {
						oc = "error-response:" + errShape(held)
					}
					return fmt.Sprintf(GENERATION+"/%s/%s/%s", methodKind(m), oc, kind)
				}
				if len(obs) != 1 || w == nil {
					run.Violation(sig("not-invoked-exactly-once"), desc)
					continue
				}
				if strings.Contains(srvLog, "panic serving") {
					desc["server_log"] = trunc(srvLog)
					run.Violation(sig("connection-crashed-by-panic"), desc)
					continue
				}
				if w.TransportErr != "" || w.Status == 0 {
					run.Violation(sig("transport-failure"), desc)
					continue
				}
				if cln := w.RespHeader.Get("Content-Length"); cln != "" && cln != fmt.Sprint(len(w.RespBody)) {
					run.Violation(sig("truncated-body"), desc)
					continue
				}
				hdr := strings.ToLower(w.RespHeader.Get("X-RestLi-Error-Response")) == "true"
				isErrResult := got.Err != nil
				switch {
				case strings.HasPrefix(sc.name, "success"):
					want := defaultStatus(m)
					if sc.name == "success-overridden-status" && !(m.Kind == "REST_METHOD" && m.Name == "create") {
						want = 202
					}
					if sc.name == "success-overridden-status" && m.Name == "create" {
						want = out.Status
					}
					if m.Name == "create" && sc.name == "success" && out.Status != 0 {
						want = out.Status
					}
					switch {
					case hdr:
						run.Violation(sig("error-header-on-success"), desc)
					case isErrResult:
						run.Violation(sig("client-error-on-success"), desc)
					case w.Status != want:
						desc["expected_status"] = want
						run.Violation(sig("wrong-success-status"), desc)
					default:
						run.Distinct(methodKind(m) + "|" + sc.name)
					}
				case strings.HasPrefix(sc.name, "error-response"):
					want := 500
					if held.Status != nil {
						want = int(*held.Status)
					}
					switch {
					case w.Status != want:
						desc["expected_status"] = want
						run.Violation(sig("wrong-http-status"), desc)
					case !hdr:
						run.Violation(sig("error-header-missing"), desc)
					case !isErrResult || got.Err.Kind != "restli.Error":
						run.Violation(sig("client-did-not-get-restli-error"), desc)
					default:
						if d := errDiff(&before, got.Err); d != "" {
							desc["detail"] = d
							run.Violation(sig("error-fields-differ"), desc)
						} else {
							run.Distinct(methodKind(m) + "|" + sc.name)
						}
					}
				default: // plain error, panic, typed nil
					text := map[string]string{"plain-error": "disk 100% full: \"sda\" é", "panic-string": "something went wrong 50%"}[sc.name]
					msg := ""
					if got.Err != nil && got.Err.Message != nil {
						msg = *got.Err.Message
					}
					switch {
					case sc.name == "typed-nil" && !returnsValue(m):
						// nothing to be nil: the method has no entity to return; it behaves like success
						run.Count("observed_only.typed_nil_without_result", 1)
					case w.Status < 400:
						run.Violation(sig("success-status-for-failure"), desc)
					case !hdr || !isErrResult || got.Err.Kind != "restli.Error":
						run.Violation(sig("not-an-error-response"), desc)
					case text != "" && !strings.Contains(msg, text):
						desc["expected_message_to_contain"] = text
						run.Violation(sig("message-lost"), desc)
					default:
						run.Distinct(methodKind(m) + "|" + sc.name)
					}
				}
				if held != nil {
					run.Count("error_object_snapshots", 1)
					if !reflect.DeepEqual(before, *held) {
						desc["error_object_before"], desc["error_object_after"] = showErr(&before), showErr(held)
						run.Violation(fmt.Sprintf(GENERATION+"/error-object-modified/%s", errShape(&before)), desc)
					}
				}
				if n%211 == 0 {
					run.Sample(desc)
				}
				out.Release()
			}
		}
	}
}

func returnsValue(m *corpus.MethodSpec) bool {
	switch {
	case m.Kind == "FINDER":
		return true
	case m.Kind == "ACTION":
		return false // action results are values, not entities
	}
	switch m.Name {
	case "get", "get_all", "create", "batch_get", "batch_update", "batch_delete", "batch_partial_update":
		return true
	case "partial_update":
		return m.ReturnEntity
	}
	return false
}

func methodKind(m *corpus.MethodSpec) string {
	switch m.Kind {
	case "FINDER":
		return "finder"
	case "ACTION":
		return "action"
	}
	if m.ReturnEntity {
		return m.Name + "+return-entity"
	}
	return m.Name
}

func errShape(er *common.ErrorResponse) string {
	if er == nil {
		return "?"
	}
	var f []string
	if er.Status != nil {
		f = append(f, "status")
	}
	if er.Message != nil {
		f = append(f, "message")
	}
	if len(f) == 0 {
		return "no-status-no-message"
	}
	return strings.Join(f, "+")
}

func keyUnfit(c *rig.Call) bool {
	bad := false
	var walk func(v *model.Value)
	walk = func(v *model.Value) {
		if v == nil {
			return
		}
		switch v.Kind {
		case model.KString, model.KBytes:
			for _, r := range v.S {
				if r < 0x20 || r == 0x7f || r == '/' {
					bad = true
				}
			}
			if v.S == "." || v.S == ".." {
				bad = true
			}
		case model.KRecord:
			for _, f := range v.Fields {
				walk(f)
			}
		}
	}
	for _, k := range c.ParentKeys {
		walk(k)
	}
	walk(c.Key)
	for _, k := range c.Keys {
		walk(k)
	}
	for _, k := range c.KeyOf {
		walk(k)
	}
	return bad
}

func createdIDUnfit(o *rig.Outcome) bool {
	bad := false
	var walk func(v *model.Value)
	walk = func(v *model.Value) {
		if v == nil {
			return
		}
		switch v.Kind {
		case model.KString, model.KBytes, model.KFixed:
			for _, r := range v.S {
				if r < 0x20 || r == 0x7f {
					bad = true
				}
			}
			if v.S != strings.TrimSpace(v.S) {
				bad = true
			}
		case model.KRecord:
			for _, f := range v.Fields {
				walk(f)
			}
		}
	}
	walk(o.CreatedID)
	for _, c := range o.Created {
		walk(c.ID)
	}
	return bad
}

// ---------------------------------------------------------------------------------------------
// shared error object under the race detector (child process, reports parsed from log files)

func SharedObjectRace(run *ev.Run) {
	self, _ := os.Executable()
	dir := filepath.Join(os.Getenv("VERIF_WORK_DIR"), "race-c08")
	if os.Getenv("VERIF_WORK_DIR") == "" {
		dir = filepath.Join(os.TempDir(), "race-c08")
	}
	_ = os.MkdirAll(dir, 0o755)
	for rep := 0; rep < run.Pick(2, 6); rep++ {
		cmd := exec.Command(self, "--race-child-"+GENERATION)
		cmd.Env = append(os.Environ(), "GORACE=halt_on_error=0 log_path="+filepath.Join(dir, fmt.Sprintf("race%d", rep)), fmt.Sprintf("GOMAXPROCS=%d", []int{4, 16, 2}[rep%3]))
		out, err := cmd.CombinedOutput()
		lines := strings.Split(strings.TrimSpace(string(out)), "\n")
		last := lines[len(lines)-1]
		var reqs, modified int
		fmt.Sscanf(last, "RACE-CHILD requests=%d modified=%d", &reqs, &modified)
		run.Eval(reqs)
		run.Count("race.requests", reqs)
		if reqs == 0 {
			run.Inconclusive(fmt.Sprintf("race child produced no requests (err=%v, output=%s)", err, trunc(string(out))))
			continue
		}
		if modified > 0 {
			run.Violation(GENERATION+"/error-object-modified/shared-between-requests", map[string]any{"detail": "the shared ErrorResponse differs from its snapshot after concurrent requests", "child_output": last})
		}
		for _, r := range ev.ParseRaceLogs(filepath.Join(dir, fmt.Sprintf("race%d.*", rep)), "go-restli") {
			run.Count("race.reports", 1)
			run.Violation(GENERATION+"/race/"+r.Pair, map[string]any{"race_report": trunc(r.Text), "functions": r.Functions})
		}
		run.Distinct(fmt.Sprintf("race-child|%d", rep))
	}
}

// Child runs the race child when this process was started as one for this generation (true = handled).
func Child() bool {
	if len(os.Args) >= 2 && os.Args[1] == "--race-child-"+GENERATION {
		raceChild()
		return true
	}
	return false
}

func raceChild() {
	log.SetOutput(io.Discard)
	set := all.Sets[0]
	srv, err := rig.NewServer(set, "bare", nil, "ks.things", "ks.longs")
	if err != nil {
		fmt.Println("RACE-CHILD requests=0 modified=0", err)
		return
	}
	defer srv.Close()
	// shared error objects: one with everything set, one with only a message, one with only a status
	shared := []*common.ErrorResponse{
		{Status: p32(409), Message: ps("conflict")},
		{Status: p32(404)},
		{Message: ps("no status")},
		{Status: p32(503), Message: ps("busy"), ExceptionClass: ps("X")},
	}
	var before []common.ErrorResponse
	for _, s := range shared {
		before = append(before, snapshot(s))
	}
	plain := errors.New("shared plain error")
	srv.SetScript(func(obs *rig.Observation) *rig.Outcome {
		var n int
		fmt.Sscanf(obs.Call.ReqID, "r%d", &n)
		if n%5 == 4 {
			return &rig.Outcome{RawErr: plain}
		}
		return &rig.Outcome{RawErr: shared[n%len(shared)]}
	})
	res := set.Schema.Resources[0]
	ep := srv.Endpoints[res.Namespace]
	var getM, delM *corpus.MethodSpec
	for i := range res.Methods {
		if res.Methods[i].Name == "get" {
			getM = &res.Methods[i]
		}
		if res.Methods[i].Name == "delete" {
			delM = &res.Methods[i]
		}
	}
	var wg sync.WaitGroup
	total := 0
	var tmu sync.Mutex
	for w := 0; w < 16; w++ {
		wg.Add(1)
		go func(w int) {
			defer wg.Done()
			cl := rig.NewClient(set, "http://"+srv.Addr, 0, false)
			rng := rand.New(rand.NewSource(int64(w)))
			g := model.NewGen(set.Schema, rng)
			g.Hostile = 0
			for i := 0; i < 60; i++ {
				m := getM
				if i%2 == 1 {
					m = delM
				}
				call := ep.GenCall(m, g, rng)
				_, _, _ = cl.Invoke(res, m, call, fmt.Sprintf("r%d", w*1000+i))
				tmu.Lock()
				total++
				tmu.Unlock()
			}
		}(w)
	}
	wg.Wait()
	modified := 0
	for i, s := range shared {
		if !reflect.DeepEqual(before[i], *s) {
			modified++
		}
	}
	fmt.Printf("RACE-CHILD requests=%d modified=%d\n", total, modified)
}
