// C08 — error and status propagation from resource code to the calling client.
//
// Outcome-table monitor: every method kind of the generated kitchen-sink resources is driven with scripted
// outcomes (value, typed nil, ErrorResponse with every subset of fields, plain error, panics, overridden
// status) over real loopback HTTP; the wire tap and the generated client's result are compared with what the
// statement prescribes.  The error objects held by resource code are deep-compared before / after, and a
// concurrent phase (race detector, child process) shares one error object between requests.
package main

import (
	"io"
	"log"
	"math/rand"

	"verifh/ev"
	c08g1 "verifh/props/c08/gen1"
	c08g2 "verifh/props/c08/gen2"
)

func main() {
	if c08g2.Child() || c08g1.Child() {
		return
	}
	log.SetOutput(io.Discard) // the library logs every recovered panic of resource code to the default logger
	run := ev.Start("C08")
	defer run.Guard()
	run.Rule("case = (generated resource method, scripted outcome, mounting): outcomes = success (default and overridden status), typed nil without error, ErrorResponse with each of the 64 subsets of {status, message, code, serviceErrorCode, exceptionClass, docUrl}, plain error, panic(string), panic(error), nil-dereference panic; " +
		"the tapped HTTP status / error header / body and the generated client's result are compared with the statement's table; the ErrorResponse object returned by resource code is deep-compared with a snapshot taken before the call; " +
		"a child process under the race detector serves concurrent requests that all return one shared error object. distinct = distinct (method kind, outcome kind)")
	run.Assume("fields the resource left unset on an ErrorResponse may be defaulted for the client (status from the HTTP status, message free); fields it set must arrive equal", "both generations (the root ErrorResponse has only status / message / exceptionClass / stackTrace, so its 64 subsets collapse); the same table also runs on the hand-written kit (15 method kinds x 23 outcomes x 2 mountings)")
	rng := rand.New(rand.NewSource(run.Seed + 8))
	rngRoot := rand.New(rand.NewSource(run.Seed + 8))
	for _, mounting := range []string{"bare", "mux", "prefixed"} {
		c08g2.Functional(run, mounting, rng)
		c08g1.Functional(run, mounting, rngRoot)
	}
	for _, mounting := range []string{"bare", "prefixed", "bare+filters", "bare+strict"} {
		c08g2.RunKit(run, mounting)
		c08g1.RunKit(run, mounting)
	}
	c08g2.SharedObjectRace(run)
	c08g1.SharedObjectRace(run)
	run.Set("generations", []string{"v2", "root"})
	run.Require("calls", 300)
	run.Require("error_object_snapshots", 50)
	run.Require("race.requests", 100)
	run.Require("root.kit.calls", 200)
	run.Require("v2.kit.calls", 200)
	run.Finish()
}

