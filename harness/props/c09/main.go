// C09 — deterministic, canonical serialization (v2).
//
// Byte-equality monitor: equal abstract values must serialize to identical bytes across repeated encodes,
// across Go values built with different insertion orders and nil/empty containers, after unrelated (including
// failing) earlier use of the library, and across fresh processes; an order-aware token scan checks that
// object keys, query parameters and batch ids are emitted in ascending order.
package main

import (
	"crypto/sha256"
	"encoding/hex"
	"fmt"
	"math/rand"
	"os"
	"os/exec"
	"sort"
	"strconv"
	"strings"
	"sync"

	"github.com/PapaCharlie/go-restli/v2/restli/batchkeyset"
	"github.com/PapaCharlie/go-restli/v2/restlicodec"

	"verifh/bridge"
	"verifh/codec"
	"verifh/corpus"
	"verifh/ev"
	"verifh/gen/all"
	kst "verifh/gen/ks/ks/kt"
	"verifh/model"
	"verifh/refcodec"
)

type tcase struct {
	set  *bridge.Set
	full string
	v    *model.Value
}

// caseList is PRNG-determined: the same seed gives the same values in every process.
func caseList(seed int64, perType int) []tcase {
	rng := rand.New(rand.NewSource(seed))
	var out []tcase
	for _, set := range all.Sets {
		g := model.NewGen(set.Schema, rng)
		g.Hostile = 0.25
		g.MaxElems = 6
		for _, td := range set.Schema.Types {
			for i := 0; i < perType; i++ {
				v := g.Value(corpus.R(td.FullName()), 0)
				out = append(out, tcase{set, td.FullName(), v})
				if i == 1 {
					// the same value with one map grown beyond a thousand entries (writers that buffer map entries)
					if big := model.Clone(v); model.GrowFirstMap(big, 1030+len(out)%100) {
						out = append(out, tcase{set, td.FullName(), big})
					}
				}
				if i == 2 {
					// keys beyond the basic multilingual plane, next to keys from its last rows: byte order and UTF-16 code
					// unit order disagree here, and several keys share a lead surrogate
					astral := []string{"\U0001F600", "\U0001F602", "\U0001F44D", "\U0001F600a", "\U0001F600\U0001F602", "\uE000", "\uFFFD", "\uFF5E", "\U00010000", "\U0010FFFF"}
					if av := model.Clone(v); model.AddKeysToFirstMap(av, astral) {
						out = append(out, tcase{set, td.FullName(), av})
					}
				}
			}
		}
	}
	return out
}

func encodeAll(c tcase, emptyAsNil bool) ([]string, error) {
	c.set.EmptyAsNil = emptyAsNil
	p, err := codec.BuildGo(c.set, c.full, c.v)
	c.set.EmptyAsNil = false
	if err != nil {
		return nil, err
	}
	var out []string
	for _, f := range codec.Formats {
		doc, err := codec.Encode(f, p)
		if err != nil {
			doc = "ERROR: " + err.Error()
		}
		out = append(out, doc)
	}
	return out, nil
}

func digestOf(cases []tcase) string {
	h := sha256.New()
	for _, c := range cases {
		docs, err := encodeAll(c, false)
		if err != nil {
			continue
		}
		for _, d := range docs {
			h.Write([]byte(d))
			h.Write([]byte{0})
		}
	}
	return hex.EncodeToString(h.Sum(nil))
}

// poison performs serializations that fail half-way (illegal enum constant / union with no member inside maps
// and arrays), so that any buffer that is recycled dirty would show up in the next outputs.
func poison(set *bridge.Set) {
	if set.Name != "ks" {
		return
	}
	bad := model.Simplest(set.Schema, corpus.R("ks.kt.Containers"), 0)
	bad.Fields["ms"] = &model.Value{Kind: model.KMap, Entries: map[string]*model.Value{"LEAKED-KEY-1": model.String("LEAKED-VALUE-1"), "LEAKED-KEY-2": model.String("LEAKED-VALUE-2")}}
	bad.Fields["mc"] = &model.Value{Kind: model.KMap, Entries: map[string]*model.Value{"a": {Kind: model.KEnum, S: "RED"}, "zz": {Kind: model.KEnum, EnumOrd: 99}}}
	bad.Fields["mu"] = &model.Value{Kind: model.KMap, Entries: map[string]*model.Value{"LEAKED-U": {Kind: model.KUnion}}}
	p, err := codec.BuildGo(set, "ks.kt.Containers", bad)
	if err != nil {
		return
	}
	for _, f := range codec.Formats {
		_, _ = codec.Encode(f, p)
	}
}

func ascending(keys []string) bool { return sort.StringsAreSorted(keys) }

func trunc(s string) string {
	if len(s) > 300 {
		return s[:300] + "..."
	}
	return s
}

func main() {
	if len(os.Args) == 4 && os.Args[1] == "--digest" {
		var seed int64
		var per int
		fmt.Sscan(os.Args[2], &seed)
		fmt.Sscan(os.Args[3], &per)
		fmt.Println("DIGEST", digestOf(caseList(seed, per)))
		return
	}
	run := ev.Start("C09")
	defer run.Guard()
	run.Rule("case = (type, value, format): the value is built K times (fresh Go maps, permuted insertion, nil vs empty containers) and encoded R times each, before and after deliberately failing serializations; all encodings of one case must be byte-identical; " +
		"every emitted document is token-scanned: keys of every JSON / ROR2 object ascending, query parameters ascending by name, batch ids ascending by encoded form; the whole case list is re-encoded in fresh child processes and the digests compared. " +
		"distinct = distinct (type, format) with at least one map of >= 2 entries or a record of >= 2 fields in the value")
	run.Assume("order is checked on decoded key strings in byte order", "v2 only (the property is v2-only)")
	perType := run.Pick(25, 200)
	repeats := run.Pick(4, 8)
	cases := caseList(run.Seed, perType)
	for _, set := range all.Sets {
		if err := set.SelfCheck(model.NewGen(set.Schema, rand.New(rand.NewSource(run.Seed+7))), 5); err != nil {
			run.Inconclusive("bridge self-check failed: " + err.Error())
			run.Finish()
		}
	}
	baseline := make([][]string, len(cases))
	for i, c := range cases {
		docs, err := encodeAll(c, false)
		if err != nil {
			run.Inconclusive("bridge build: " + err.Error())
			continue
		}
		baseline[i] = docs
	}
	for pass := 0; pass < repeats; pass++ {
		for i, c := range cases {
			if baseline[i] == nil {
				continue
			}
			if pass%2 == 1 {
				poison(c.set)
			}
			docs, err := encodeAll(c, pass%3 == 2)
			if err != nil {
				continue
			}
			for fi, d := range docs {
				run.Eval(1)
				if d != baseline[i][fi] {
					kind := "repeat-encode-differs"
					if pass%2 == 1 {
						kind = "differs-after-failed-serialization"
					}
					if pass%3 == 2 && pass%2 == 0 {
						kind = "nil-vs-empty-container-differs"
					}
					run.Violation("v2/"+codec.Formats[fi].Name+"/"+kind, map[string]any{"type": c.full, "format": codec.Formats[fi].Name, "pass": pass, "value": trunc(model.Show(c.v)), "first": trunc(baseline[i][fi]), "now": trunc(d)})
				}
			}
		}
	}
	// order scan
	for i, c := range cases {
		if baseline[i] == nil {
			continue
		}
		for fi, f := range codec.Formats {
			d := baseline[i][fi]
			if strings.HasPrefix(d, "ERROR") {
				continue
			}
			var orders [][]string
			var err error
			if f.JSON {
				orders, err = refcodec.JSONKeyOrders([]byte(d))
			} else {
				fl := refcodec.Header
				if f.Name == "ror2-path" {
					fl = refcodec.Path
				} else if f.Name == "ror2-query" {
					fl = refcodec.Query
				}
				orders, err = refcodec.ROR2KeyOrders(d, fl)
			}
			run.Eval(1)
			run.Count("order_scans", 1)
			if err != nil {
				run.Violation("v2/"+f.Name+"/output-not-scannable", map[string]any{"type": c.full, "document": trunc(d), "error": err.Error()})
				continue
			}
			big := false
			for _, keys := range orders {
				if len(keys) >= 2 {
					big = true
				}
				if !ascending(keys) {
					run.Violation("v2/"+f.Name+"/keys-not-ascending", map[string]any{"type": c.full, "format": f.Name, "keys": keys, "document": trunc(d)})
					break
				}
			}
			if big {
				run.Distinct(c.full + "|" + f.Name)
			}
			if i%997 == 0 && fi == 2 {
				run.Sample(map[string]any{"type": c.full, "format": f.Name, "document": trunc(d), "key_orders": orders})
			}
		}
	}
	excludedWriters(run, cases, rand.New(rand.NewSource(run.Seed+19)))
	queryParamsAndBatchIds(run, rand.New(rand.NewSource(run.Seed+9)))
	sharedKeySet(run, rand.New(rand.NewSource(run.Seed+29)))
	// fresh processes
	self, _ := os.Executable()
	want := digestOf(cases)
	for i := 0; i < run.Pick(4, 16); i++ {
		run.Eval(1)
		cmd := exec.Command(self, "--digest", fmt.Sprint(run.Seed), fmt.Sprint(perType))
		cmd.Env = append(os.Environ(), fmt.Sprintf("GOMAXPROCS=%d", 1+i%8))
		out, err := cmd.Output()
		if err != nil {
			run.Inconclusive("digest child failed: " + err.Error())
			continue
		}
		got := strings.TrimSpace(strings.TrimPrefix(strings.TrimSpace(string(out)), "DIGEST"))
		run.Count("fresh_process_digests", 1)
		if got != want {
			run.Violation("v2/differs-between-processes", map[string]any{"parent_digest": want, "child_digest": got})
		}
	}
	run.Set("cases", len(cases))
	run.Set("generations", []string{"v2"})
	run.Require("order_scans", 1000)
	run.Require("fresh_process_digests", 3)
	run.Require("query_param_cases", 50)
	run.Require("excluded_writer_cases", 200)
	run.Require("batch_id_cases", 50)
	run.Require("shared_key_set_encodes", 30)
	run.Finish()
}

// queryParamsAndBatchIds: parameter order and batch key order must not matter and must come out ascending.
// excludedWriters repeats the byte-equality and key-order checks for writers configured with an exclusion spec (the
// writers of update / create requests): leaving fields out must not disturb the order or the determinism of the rest.
func excludedWriters(run *ev.Run, cases []tcase, rng *rand.Rand) {
	type wf struct {
		name string
		json bool
		mk   func(spec restlicodec.PathSpec) restlicodec.Writer
	}
	writers := []wf{
		{"json-compact+excluded", true, func(p restlicodec.PathSpec) restlicodec.Writer {
			return restlicodec.NewCompactJsonWriterWithExcludedFields(p)
		}},
		{"json-pretty+excluded", true, func(p restlicodec.PathSpec) restlicodec.Writer {
			return restlicodec.NewPrettyJsonWriterWithExcludedFields(p)
		}},
		{"ror2-header+excluded", false, func(p restlicodec.PathSpec) restlicodec.Writer {
			return restlicodec.NewRor2HeaderWriterWithExcludedFields(p)
		}},
	}
	for _, c := range cases {
		if c.v == nil || (c.v.Kind != model.KRecord && c.v.Kind != model.KMap) {
			continue
		}
		members := c.v.Fields
		if c.v.Kind == model.KMap {
			members = c.v.Entries
		}
		var names []string
		for n := range members {
			if n != "" && !strings.ContainsAny(n, "/*$") {
				names = append(names, n)
			}
		}
		if len(names) < 3 {
			continue
		}
		sort.Strings(names)
		// every single present member in turn would be ideal; one or two drawn per case keep the cost linear
		var specs [][]string
		specs = append(specs, []string{names[rng.Intn(len(names)-1)]})
		specs = append(specs, []string{names[0], names[len(names)/2]})
		for _, sp := range specs {
			for _, w := range writers {
				var docs []string
				failed := false
				for rep := 0; rep < 3; rep++ {
					ptr, err := codec.BuildGo(c.set, c.full, c.v)
					if err != nil {
						failed = true
						break
					}
					d, err := codec.EncodeWith(w.mk(restlicodec.NewPathSpec(sp...)), ptr)
					if err != nil {
						failed = true
						break
					}
					docs = append(docs, d)
				}
				if failed {
					continue
				}
				run.Eval(1)
				run.Count("excluded_writer_cases", 1)
				desc := map[string]any{"type": c.full, "format": w.name, "excluded": sp, "value": trunc(model.Show(c.v)), "document": trunc(docs[0])}
				if docs[0] != docs[1] || docs[1] != docs[2] {
					desc["other_encoding"] = trunc(docs[1] + "  |  " + docs[2])
					run.Violation("v2/"+w.name+"/differs-between-encodings", desc)
					continue
				}
				var orders [][]string
				var err error
				if w.json {
					orders, err = refcodec.JSONKeyOrders([]byte(docs[0]))
				} else {
					orders, err = refcodec.ROR2KeyOrders(docs[0], refcodec.Header)
				}
				if err != nil {
					desc["error"] = err.Error()
					run.Violation("v2/"+w.name+"/output-not-scannable", desc)
					continue
				}
				ok := true
				for _, keys := range orders {
					if !ascending(keys) {
						desc["keys"] = keys
						run.Violation("v2/"+w.name+"/keys-not-ascending", desc)
						ok = false
						break
					}
				}
				if ok {
					run.Distinct(c.full + "|" + w.name)
				}
			}
		}
	}
}

func queryParamsAndBatchIds(run *ev.Run, rng *rand.Rand) {
	names := []string{"q", "start", "count", "ids", "z", "a", "Z", "a_b", "a.b", "fields", "metadata", "m10", "m2"}
	for n := 0; n < run.Pick(200, 2000); n++ {
		k := 2 + rng.Intn(6)
		perm := rng.Perm(len(names))[:k]
		vals := map[string]string{}
		for _, i := range perm {
			vals[names[i]] = model.HostileStrings[rng.Intn(len(model.HostileStrings))]
		}
		build := func(order []int) (string, error) {
			return restlicodec.BuildQueryParams(func(w func(string) restlicodec.Writer) error {
				for _, i := range order {
					w(names[i]).WriteString(vals[names[i]])
				}
				return nil
			})
		}
		first, err := build(perm)
		run.Eval(1)
		run.Count("query_param_cases", 1)
		if err != nil {
			continue
		}
		for r := 0; r < 4; r++ {
			p2 := append([]int{}, perm...)
			rng.Shuffle(len(p2), func(i, j int) { p2[i], p2[j] = p2[j], p2[i] })
			again, _ := build(p2)
			if again != first {
				run.Violation("v2/query-params/order-dependent", map[string]any{"first": trunc(first), "again": trunc(again)})
			}
		}
		var got []string
		for _, part := range strings.Split(first, "&") {
			got = append(got, strings.SplitN(part, "=", 2)[0])
		}
		if !ascending(got) {
			run.Violation("v2/query-params/not-ascending", map[string]any{"query": trunc(first), "names": got})
		} else {
			run.Distinct("qp|" + strings.Join(got, ","))
		}
	}
	// batch ids: string keys, int64 keys, complex keys; through EncodeQueryParams and through Encode (the path used
	// when a batch method declares additional query parameters)
	ksSet := all.Sets[0]
	for n := 0; n < run.Pick(150, 1500); n++ {
		k := 2 + rng.Intn(6)
		var skeys []string
		seen := map[string]bool{}
		for len(skeys) < k {
			s := model.HostileStrings[rng.Intn(len(model.HostileStrings))] + fmt.Sprint(rng.Intn(3))
			if !seen[s] {
				seen[s] = true
				skeys = append(skeys, s)
			}
		}
		if n%4 == 3 {
			// long ids (seed C09m: a writer finalized once per key that hands out its buffer without copying it only
			// reuses buffers beyond the first 128-byte chunk).  Chosen by position: no PRNG draw moves.
			for i := range skeys {
				skeys[i] += strings.Repeat("p", 140+30*(i%2))
			}
			run.Count("batch_id_long_key_cases", 1)
		}
		g := model.NewGen(ksSet.Schema, rng)
		var ckeys []*kst.CK
		cseen := map[string]bool{}
		for len(ckeys) < k {
			v := g.Value(corpus.R("ks.kt.CK"), 0)
			id := model.Show(v.Fields["a"]) + "|" + model.Show(v.Fields["b"])
			if cseen[id] {
				continue
			}
			cseen[id] = true
			p, err := codec.BuildGo(ksSet, "ks.kt.CK", v)
			if err != nil {
				break
			}
			ckeys = append(ckeys, p.Interface().(*kst.CK))
		}
		check := func(kind string, encode func(order []int) (string, string, error)) {
			run.Eval(1)
			run.Count("batch_id_cases", 1)
			order := rng.Perm(k)
			a1, b1, err := encode(order)
			if err != nil {
				return
			}
			for r := 0; r < 3; r++ {
				rng.Shuffle(len(order), func(i, j int) { order[i], order[j] = order[j], order[i] })
				a2, b2, _ := encode(order)
				if a2 != a1 {
					run.Violation("v2/batch-ids/"+kind+"/EncodeQueryParams-order-dependent", map[string]any{"first": trunc(a1), "again": trunc(a2)})
				}
				if b2 != b1 {
					run.Violation("v2/batch-ids/"+kind+"/Encode-order-dependent", map[string]any{"first": trunc(b1), "again": trunc(b2)})
				}
			}
			for which, q := range map[string]string{"EncodeQueryParams": a1, "Encode": b1} {
				ids := idList(q)
				if ids == nil || !ascending(ids) {
					run.Violation("v2/batch-ids/"+kind+"/"+which+"-not-ascending", map[string]any{"query": trunc(q), "ids": ids})
				}
				// conservation: k pairwise different keys give k pairwise different ids
				dup := len(ids) != k
				for i := 1; i < len(ids); i++ {
					dup = dup || ids[i] == ids[i-1]
				}
				if ids != nil && ascending(ids) && dup {
					run.Violation("v2/batch-ids/"+kind+"/"+which+"-ids-lost-or-repeated", map[string]any{"query": trunc(q), "keys": k, "ids": len(ids)})
				}
			}
			run.Distinct(fmt.Sprintf("ids|%s|%d", kind, k))
		}
		check("string", func(order []int) (string, string, error) {
			set := batchkeyset.NewBatchKeySet[string]()
			for n, i := range order {
				if err := set.AddKey(skeys[i]); err != nil {
					return "", "", err
				}
				if order[0]%2 == 0 && (n == 0 || n == len(order)/2) {
					// a set that was already encoded (a request built, then more keys added for the next one)
					_, _ = set.EncodeQueryParams()
				}
			}
			a, err := set.EncodeQueryParams()
			if err != nil {
				return "", "", err
			}
			// conservation against one-key sets (where nothing can be shared between keys): same ids
			var alone []string
			for _, s := range skeys {
				one := batchkeyset.NewBatchKeySet[string]()
				_ = one.AddKey(s)
				q, err := one.EncodeQueryParams()
				if l := idList(q); err == nil && len(l) == 1 {
					alone = append(alone, l[0])
				}
			}
			sort.Strings(alone)
			if got := idList(a); len(alone) == k && got != nil && strings.Join(got, "\x00") != strings.Join(alone, "\x00") {
				run.Violation("v2/batch-ids/string/ids-differ-from-one-key-encodings", map[string]any{"query": trunc(a), "alone": trunc(strings.Join(alone, ","))})
			}
			run.Count("batch_id_conservation_checks", 1)
			b, err := restlicodec.BuildQueryParams(func(w func(string) restlicodec.Writer) error {
				w("zparam").WriteString("x")
				w("aparam").WriteInt32(1)
				return set.Encode(w)
			})
			return a, b, err
		})
		if len(ckeys) == k {
			check("complexkey", func(order []int) (string, string, error) {
				set := batchkeyset.NewBatchKeySet[*kst.CK]()
				for n, i := range order {
					if err := set.AddKey(ckeys[i]); err != nil {
						return "", "", err
					}
					if order[0]%2 == 1 && (n == 0 || n == len(order)/2) {
						_, _ = restlicodec.BuildQueryParams(func(w func(string) restlicodec.Writer) error { return set.Encode(w) })
					}
				}
				a, err := set.EncodeQueryParams()
				if err != nil {
					return "", "", err
				}
				b, err := restlicodec.BuildQueryParams(func(w func(string) restlicodec.Writer) error {
					w("zparam").WriteString("x")
					return set.Encode(w)
				})
				return a, b, err
			})
		}
	}
}

// sharedKeySet: building the query is a read-only use of a key set, so several goroutines may do it at once (a client
// retrying or fanning out one batch) and must all get the canonical bytes.
func sharedKeySet(run *ev.Run, rng *rand.Rand) {
	const n = 20000
	mk := func(order []int) batchkeyset.BatchKeySet[*kst.CK] {
		set := batchkeyset.NewBatchKeySet[*kst.CK]()
		for _, i := range order {
			_ = set.AddKey(&kst.CK{KeyPart: kst.KeyPart{A: strconv.FormatUint(uint64(i+1)*0x9E3779B97F4A7C15, 36), B: int64(i % 3)}})
		}
		return set
	}
	canonical, err := mk(rng.Perm(n)).EncodeQueryParams()
	if err != nil {
		run.Inconclusive("key set: " + err.Error())
		return
	}
	for round := 0; round < run.Pick(5, 25); round++ {
		set := mk(rng.Perm(n))
		const readers = 8
		out := make([]string, readers)
		start := make(chan struct{})
		var wg sync.WaitGroup
		for g := 0; g < readers; g++ {
			wg.Add(1)
			go func(g int) {
				defer wg.Done()
				<-start
				if g%2 == 0 {
					out[g], _ = set.EncodeQueryParams()
				} else {
					q, _ := restlicodec.BuildQueryParams(func(w func(string) restlicodec.Writer) error { return set.Encode(w) })
					out[g] = q
				}
			}(g)
		}
		close(start)
		wg.Wait()
		for g, q := range out {
			run.Eval(1)
			run.Count("shared_key_set_encodes", 1)
			if q != canonical {
				ids := idList(q)
				run.Violation("v2/batch-ids/complexkey/concurrent-encode-of-one-key-set-not-canonical", map[string]any{"goroutine": g, "keys": n, "ids_in_output": len(ids), "ascending": ids != nil && ascending(ids), "output": trunc(q), "canonical": trunc(canonical)})
				break
			}
		}
	}
	run.Distinct("ids|complexkey|shared-set")
}

// idList extracts the still-encoded items of the ids=List(...) parameter (top-level commas only).
func idList(query string) []string {
	for _, part := range strings.Split(query, "&") {
		if strings.HasPrefix(part, "ids=List(") && strings.HasSuffix(part, ")") {
			body := part[len("ids=List(") : len(part)-1]
			if body == "" {
				return []string{}
			}
			var out []string
			depth, start := 0, 0
			for i := 0; i < len(body); i++ {
				switch body[i] {
				case '(':
					depth++
				case ')':
					depth--
				case ',':
					if depth == 0 {
						out = append(out, body[start:i])
						start = i + 1
					}
				}
			}
			return append(out, body[start:])
		}
	}
	return nil
}
