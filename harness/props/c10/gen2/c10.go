// Generation-specific body of the C10 driver; props/c10/gen1 is derived from this file (derive.sh).
package gen2

import (
	"math"
	"crypto/sha256"
	"encoding/hex"
	"fmt"
	"math/rand"
	"os"
	"os/exec"
	"reflect"
	"sort"
	"strings"

	"github.com/PapaCharlie/go-restli/v2/fnv1a"

	"verifh/bridge"
	codec "verifh/codec"
	"verifh/corpus"
	"verifh/ev"
	all "verifh/gen/all"
	"verifh/model"
)

const GENERATION = "v2"

type member struct {
	go_   reflect.Value
	v     *model.Value
	label string
	// eqBase: must compare Equal to the base value
	eqBase bool
	// neBase: must compare not-Equal to the base value
	neBase bool
}

func callBool(recv reflect.Value, method string, arg reflect.Value) (res bool, err error) {
	defer func() {
		if r := recover(); r != nil {
			err = fmt.Errorf("PANIC in %s: %v", method, r)
		}
	}()
	m := recv.MethodByName(method)
	if !m.IsValid() {
		return false, fmt.Errorf("no method %s on %s", method, recv.Type())
	}
	if m.Type().In(0).Kind() != reflect.Ptr {
		arg = arg.Elem()
	}
	return m.Call([]reflect.Value{arg})[0].Bool(), nil
}

func callHash(recv reflect.Value, method string) (h string, err error) {
	defer func() {
		if r := recover(); r != nil {
			err = fmt.Errorf("PANIC in %s: %v", method, r)
		}
	}()
	m := recv.MethodByName(method)
	if !m.IsValid() {
		return "", fmt.Errorf("no method %s on %s", method, recv.Type())
	}
	return fmt.Sprint(m.Call(nil)[0].Interface()), nil
}

// useHash does what a caller composing a larger hash does with a returned Hash: it folds more data into it. The
// returned accumulator is the caller's; the hashed value must not notice.
func useHash(recv reflect.Value, method string) {
	defer func() { _ = recover() }()
	m := recv.MethodByName(method)
	if !m.IsValid() {
		return
	}
	h := m.Call(nil)[0]
	if add := h.MethodByName("AddString"); add.IsValid() {
		add.Call([]reflect.Value{reflect.ValueOf("folded in by the caller")})
	}
	if add := h.MethodByName("AddInt64"); add.IsValid() {
		add.Call([]reflect.Value{reflect.ValueOf(int64(0x5eed))})
	}
}

func trunc(s string) string {
	if len(s) > 300 {
		return s[:300] + "..."
	}
	return s
}

// digest computes the hash digest of a PRNG-determined value list (used for the cross-process purity check).
func digest(seed int64) string {
	h := sha256.New()
	rng := rand.New(rand.NewSource(seed))
	for _, set := range all.Sets {
		g := model.NewGen(set.Schema, rng)
		for _, td := range set.Schema.Types {
			for i := 0; i < 5; i++ {
				v := g.Value(corpus.R(td.FullName()), 0)
				p, err := codec.BuildGo(set, td.FullName(), v)
				if err != nil {
					continue
				}
				hs, _ := callHash(p, "ComputeHash")
				fmt.Fprintf(h, "%s=%s;", td.FullName(), hs)
			}
		}
	}
	return hex.EncodeToString(h.Sum(nil))
}

// Child answers the digest request of a parent process of the same generation (true = handled).
func Child() bool {
	if len(os.Args) == 3 && os.Args[1] == "--digest-"+GENERATION {
		var seed int64
		fmt.Sscan(os.Args[2], &seed)
		fmt.Println("DIGEST", digest(seed))
		return true
	}
	return false
}

// collidingKeys holds pairs of distinct strings whose 32-bit FNV-1a hashes are equal, from the zero start value and from
// the standard offset basis (found by search through the library's own hash, as an adversary would).
var collidingKeys = func() [][2]string {
	out := [][2]string{{"a", "\x00a"}} // a leading NUL does not move a zero accumulator
	for _, zero := range []bool{true, false} {
		first := map[uint32]string{}
		found := 0
		for i := 0; i < 600000 && found < 4; i++ {
			k := "k" + fmt.Sprintf("%x", uint64(i+1)*0x9E3779B97F4A7C15)
			h := fnv1a.NewHash()
			if zero {
				h = fnv1a.ZeroHash()
			}
			h.AddString(k)
			key := uint32(h.MapKey())
			if prev, ok := first[key]; ok && prev != k {
				out = append(out, [2]string{prev, k})
				found++
			} else {
				first[key] = k
			}
		}
	}
	return out
}()

// injectCollidingKeys rewrites maps of v that hold at least two different values so that two of them sit under keys
// with colliding hashes; it reports whether anything was rewritten.
func injectCollidingKeys(v *model.Value, rng *rand.Rand) bool {
	if v == nil {
		return false
	}
	done := false
	switch v.Kind {
	case model.KMap:
		keys := make([]string, 0, len(v.Entries))
		for k := range v.Entries {
			keys = append(keys, k)
		}
		sort.Strings(keys)
		for i := 0; i < len(keys) && !done; i++ {
			for j := i + 1; j < len(keys) && !done; j++ {
				if !model.Equal(v.Entries[keys[i]], v.Entries[keys[j]]) {
					pair := collidingKeys[rng.Intn(len(collidingKeys))]
					if _, taken := v.Entries[pair[0]]; taken {
						continue
					}
					if _, taken := v.Entries[pair[1]]; taken {
						continue
					}
					v.Entries[pair[0]], v.Entries[pair[1]] = v.Entries[keys[i]], v.Entries[keys[j]]
					delete(v.Entries, keys[i])
					delete(v.Entries, keys[j])
					done = true
				}
			}
		}
		for _, k := range keys {
			if e, ok := v.Entries[k]; ok && injectCollidingKeys(e, rng) {
				done = true
			}
		}
	case model.KArray:
		for _, e := range v.Elems {
			if injectCollidingKeys(e, rng) {
				done = true
			}
		}
	case model.KRecord:
		names := make([]string, 0, len(v.Fields))
		for k := range v.Fields {
			names = append(names, k)
		}
		sort.Strings(names)
		for _, k := range names {
			if injectCollidingKeys(v.Fields[k], rng) {
				done = true
			}
		}
	case model.KUnion:
		done = injectCollidingKeys(v.Member, rng)
	}
	return done
}

func Run(run *ev.Run) {
	run.Rule("for every generated type and base value a: pool = {a, rebuilt copy (fresh maps), nil-for-empty copy, JSON round-tripped copy, every single-position mutation of a}; checks on every ordered pair of the pool: symmetry, Equals=>hash equality, " +
		"copies Equal to a with equal hashes, mutants that change the abstract value not Equal to a, +0/-0 mutants Equal with equal hashes, reflexivity (NaN-free), transitivity on sampled triples; complex keys additionally with ComplexKeyEquals / ComputeComplexKeyHash; " +
		"hash digests of a PRNG-determined value list compared between the parent and fresh child processes. distinct = distinct (type, mutation kind) pairs; non-trivial = pool holds at least one mutation")
	run.Assume("Equals is only claimed for valid values (enum constants within range, unions with exactly one member)", "both generations: the root module through types-only bindings written by its own generator from the same schema sets")
	rng := rand.New(rand.NewSource(run.Seed + 10))
	perType := run.Pick(40, 400)
	for _, set := range all.Sets {
		if err := set.SelfCheck(model.NewGen(set.Schema, rand.New(rand.NewSource(run.Seed+7))), 10); err != nil {
			run.Inconclusive("bridge self-check failed on set " + set.Name + ": " + err.Error())
			return
		}
	}
	for _, set := range all.Sets {
		s := set.Schema
		g := model.NewGen(s, rng)
		for _, td := range s.Types {
			full := td.FullName()
			t := corpus.R(full)
			isCK := td.Kind == "complexkey"
			// the hash of "no value" (a nil record pointer, an enum holding no declared constant) is a value's hash too:
			// it stays what it is however callers go on using the Hash they were handed
			if td.Kind == "record" || td.Kind == "enum" {
				none := reflect.Zero(set.New(full).Type())
				if td.Kind == "enum" {
					none = set.New(full) // pointer to the zero enum (the unknown constant)
				}
				if h1, err := callHash(none, "ComputeHash"); err == nil {
					run.Eval(1)
					run.Count("no_value_hash_probes", 1)
					useHash(none, "ComputeHash")
					h2, _ := callHash(none, "ComputeHash")
					useHash(none, "ComputeHash")
					h3, _ := callHash(none, "ComputeHash")
					if h1 != h2 || h2 != h3 {
						run.Violation(GENERATION+"/hash/not-repeatable/no-value", map[string]any{"generation": GENERATION, "set": set.Name, "type": full, "kind": td.Kind,
							"first": h1, "after_the_caller_used_the_returned_hash": h2, "again": h3})
					}
				}
			}
			for i := 0; i < perType; i++ {
				a := g.Value(t, 0)
				checkPool(run, set, full, t, a, isCK, rng)
				// the same value with its maps grown beyond 16 entries (hashing a large map takes another path than a small one)
				if c := model.Clone(a); i%8 == 1 && growMaps(c, 17+rng.Intn(30)) {
					run.Count("values_with_large_maps", 1)
					checkPool(run, set, full, t, c, isCK, rng)
				}
				// the same value with NaNs of two different bit patterns in every float position: whether such values are
				// Equal is not claimed, but if they are their hashes must agree
				if x, y := model.Clone(a), model.Clone(a); i%8 == 2 && setFloats(x, math.NaN()) > 0 {
					setFloats(y, math.Float64frombits(0xFFF8000000000000))
					run.Count("values_with_nan_pairs", 1)
					checkNaNPair(run, set, full, x, y)
				}
				// the same value with map keys whose 32-bit hashes collide (keys are unique, their hashes are not)
				if c := model.Clone(a); i%4 == 0 && injectCollidingKeys(c, rng) {
					run.Count("values_with_colliding_map_keys", 1)
					checkPool(run, set, full, t, c, isCK, rng)
				}
			}
		}
	}
	// cross-process purity
	self, _ := os.Executable()
	want := digest(run.Seed)
	for i := 0; i < run.Pick(3, 8); i++ {
		run.Eval(1)
		cmd := exec.Command(self, "--digest-"+GENERATION, fmt.Sprint(run.Seed))
		cmd.Env = append(os.Environ(), fmt.Sprintf("GOMAXPROCS=%d", 1+i*3))
		out, err := cmd.Output()
		got := strings.TrimSpace(strings.TrimPrefix(strings.TrimSpace(string(out)), "DIGEST"))
		if err != nil {
			run.Inconclusive("digest child failed: " + err.Error())
			continue
		}
		run.Count("cross_process_digests", 1)
		if got != want {
			run.Violation(GENERATION+"/hash/differs-between-processes", map[string]any{"parent": want, "child": got})
		}
	}
	run.Require("pairs_checked", 5000)
	run.Require("values_with_colliding_map_keys", 20)
	run.Require("values_with_large_maps", 10)
	run.Require("no_value_hash_probes", 10)
	run.Require("values_with_nan_pairs", 10)
	run.Require("cross_process_digests", 2)
}

// growMaps duplicates the first entry of every non-empty map of v under fresh keys until the map has n entries.
func growMaps(v *model.Value, n int) bool {
	if v == nil {
		return false
	}
	done := false
	switch v.Kind {
	case model.KMap:
		keys := make([]string, 0, len(v.Entries))
		for k := range v.Entries {
			keys = append(keys, k)
		}
		sort.Strings(keys)
		for _, k := range keys {
			if growMaps(v.Entries[k], n) {
				done = true
			}
		}
		if len(keys) > 0 {
			for i := 0; len(v.Entries) < n; i++ {
				v.Entries[fmt.Sprintf("grown-%03d", i)] = model.Clone(v.Entries[keys[i%len(keys)]])
			}
			done = true
		}
	case model.KArray:
		for _, e := range v.Elems {
			if growMaps(e, n) {
				done = true
			}
		}
	case model.KRecord:
		for _, k := range sortedFieldNames(v) {
			if growMaps(v.Fields[k], n) {
				done = true
			}
		}
	case model.KUnion:
		done = growMaps(v.Member, n)
	}
	return done
}

func sortedFieldNames(v *model.Value) []string {
	names := make([]string, 0, len(v.Fields))
	for k := range v.Fields {
		names = append(names, k)
	}
	sort.Strings(names)
	return names
}

// setFloats overwrites every float / double of v (map keys aside) and returns how many there were.
func setFloats(v *model.Value, f float64) int {
	if v == nil {
		return 0
	}
	n := 0
	switch v.Kind {
	case model.KFloat32, model.KFloat64:
		v.F = f
		return 1
	case model.KMap:
		for _, e := range v.Entries {
			n += setFloats(e, f)
		}
	case model.KArray:
		for _, e := range v.Elems {
			n += setFloats(e, f)
		}
	case model.KRecord:
		for _, e := range v.Fields {
			n += setFloats(e, f)
		}
	case model.KUnion:
		n += setFloats(v.Member, f)
	}
	return n
}

// checkNaNPair: x and y differ only in the bit pattern of their NaNs.
func checkNaNPair(run *ev.Run, set *bridge.Set, full string, x, y *model.Value) {
	px, err1 := codec.BuildGo(set, full, x)
	py, err2 := codec.BuildGo(set, full, y)
	if err1 != nil || err2 != nil {
		run.Inconclusive(fmt.Sprint("bridge build: ", err1, err2))
		return
	}
	run.Eval(1)
	for _, pr := range [][2]reflect.Value{{px, py}, {py, px}} {
		e, err := callBool(pr[0], "Equals", pr[1])
		if err != nil {
			run.Violation(GENERATION+"/equals/"+errKind(err), map[string]any{"type": full, "error": err.Error(), "left": trunc(model.Show(x)), "right": trunc(model.Show(y))})
			return
		}
		run.Count("pairs_checked", 1)
		h0, _ := callHash(pr[0], "ComputeHash")
		h1, _ := callHash(pr[1], "ComputeHash")
		if e && h0 != h1 {
			run.Violation(GENERATION+"/hash/equal-values-different-hashes/nan-bit-patterns", map[string]any{"generation": GENERATION, "set": set.Name, "type": full,
				"left_value": trunc(model.Show(x)), "right_value": trunc(model.Show(y)), "left_hash": h0, "right_hash": h1, "detail": "the two values differ only in the bit pattern of their NaNs and compare Equal"})
			return
		}
	}
	run.Distinct(full + "|nan-bit-patterns")
}

func checkPool(run *ev.Run, set *bridge.Set, full string, t corpus.TypeExpr, a *model.Value, isCK bool, rng *rand.Rand) {
	s := set.Schema
	build := func(v *model.Value, emptyAsNil bool) (reflect.Value, bool) {
		set.EmptyAsNil = emptyAsNil
		p, err := codec.BuildGo(set, full, v)
		set.EmptyAsNil = false
		if err != nil {
			run.Inconclusive("bridge build: " + err.Error())
			return p, false
		}
		return p, true
	}
	base, ok := build(a, false)
	if !ok {
		return
	}
	nanFree := !model.HasNaN(a)
	pool := []member{{base, a, "base", false, false}}
	if c, ok := build(a, false); ok {
		pool = append(pool, member{c, a, "rebuilt", true, false})
	}
	if c, ok := build(a, true); ok {
		pool = append(pool, member{c, a, "nil-for-empty", true, false})
	}
	if doc, err := codec.Encode(codec.FormatByName("json-compact"), base); err == nil && nanFree {
		if q, err := codec.Decode(codec.FormatByName("json-compact"), set, full, doc); err == nil {
			// the round-tripped copy has defaults filled in: it is a pool member, Equal to base only if nothing was filled
			w, _ := set.Read(q.Elem(), t)
			pool = append(pool, member{q, w, "round-tripped", model.Equal(w, a), false})
		}
	}
	// a shallow copy whose first non-empty array field is a shorter view of the SAME backing array (what b.Items =
	// a.Items[:n-1] produces): it differs from a by one element and must not compare equal
	if _, td := model.Resolve(s, t); td != nil && td.Kind == "record" && a.Kind == model.KRecord {
		for _, f := range s.AllFields(td) {
			fv := a.Fields[f.Name]
			if fv == nil || fv.Kind != model.KArray || len(fv.Elems) < 2 {
				continue
			}
			cp := reflect.New(base.Elem().Type())
			cp.Elem().Set(base.Elem())
			gf := cp.Elem().FieldByName(corpus.GoFieldName(f.Name))
			ok := false
			switch {
			case gf.IsValid() && gf.Kind() == reflect.Slice && gf.Len() >= 2 && gf.CanSet():
				gf.Set(gf.Slice(0, gf.Len()-1))
				ok = true
			case gf.IsValid() && gf.Kind() == reflect.Ptr && !gf.IsNil() && gf.Elem().Kind() == reflect.Slice && gf.Elem().Len() >= 2 && gf.CanSet():
				short := reflect.New(gf.Elem().Type())
				short.Elem().Set(gf.Elem().Slice(0, gf.Elem().Len()-1))
				gf.Set(short)
				ok = true
			}
			if ok {
				mv := model.Clone(a)
				mv.Fields[f.Name].Elems = mv.Fields[f.Name].Elems[:len(fv.Elems)-1]
				pool = append(pool, member{cp, mv, "mutation:field/aliased-array-view-shorter", false, true})
				run.Count("aliased_array_views", 1)
			}
			break
		}
	}
	muts := model.Mutations(s, t, a)
	if len(muts) > 40 {
		rng.Shuffle(len(muts), func(i, j int) { muts[i], muts[j] = muts[j], muts[i] })
		muts = muts[:40]
	}
	for _, m := range muts {
		if c, ok := build(m.Value, false); ok {
			pool = append(pool, member{c, m.Value, "mutation:" + m.Kind, m.SameUnderEquals, !m.SameUnderEquals})
		}
	}
	desc := func(x, y member) map[string]any {
		return map[string]any{"generation": GENERATION, "set": set.Name, "type": full, "left": x.label, "right": y.label, "left_value": trunc(model.Show(x.v)), "right_value": trunc(model.Show(y.v))}
	}
	kindOf := func(m member) string {
		k := strings.TrimPrefix(m.label, "mutation:")
		if i := strings.LastIndex(k, "/"); i >= 0 {
			return k[:strings.Index(k, "/")] + "/.../" + k[i+1:]
		}
		return k
	}
	hashes := make([]string, len(pool))
	for i, m := range pool {
		h, err := callHash(m.go_, "ComputeHash")
		if err != nil {
			run.Violation(GENERATION+"/hash/"+errKind(err), map[string]any{"type": full, "value": trunc(model.Show(m.v)), "error": err.Error()})
			return
		}
		hashes[i] = h
		// purity within the process (map iteration order differs from call to call; the caller keeps using the hash it got)
		useHash(m.go_, "ComputeHash")
		for rep := 0; rep < 6; rep++ {
			if h2, _ := callHash(m.go_, "ComputeHash"); h2 != h {
				run.Violation(GENERATION+"/hash/not-repeatable", desc(m, m))
				break
			}
		}
	}
	eq := make([][]bool, len(pool))
	for i := range pool {
		eq[i] = make([]bool, len(pool))
		for j := range pool {
			e, err := callBool(pool[i].go_, "Equals", pool[j].go_)
			if err != nil {
				run.Violation(GENERATION+"/equals/"+errKind(err), map[string]any{"type": full, "error": err.Error(), "left": trunc(model.Show(pool[i].v)), "right": trunc(model.Show(pool[j].v))})
				return
			}
			eq[i][j] = e
			run.Count("pairs_checked", 1)
		}
	}
	run.Eval(1)
	for i, x := range pool {
		if nanFree && !model.HasNaN(x.v) && !eq[i][i] {
			run.Violation(GENERATION+"/equals/not-reflexive/"+kindOf(x), desc(x, x))
		}
		for j, y := range pool {
			if eq[i][j] != eq[j][i] {
				run.Violation(GENERATION+"/equals/not-symmetric/"+kindOf(x)+"|"+kindOf(y), desc(x, y))
			}
			if eq[i][j] && hashes[i] != hashes[j] {
				d := desc(x, y)
				d["left_hash"], d["right_hash"] = hashes[i], hashes[j]
				run.Violation(GENERATION+"/hash/equal-values-different-hashes/"+kindOf(x)+"|"+kindOf(y), d)
			}
		}
		if i == 0 {
			continue
		}
		if nanFree && x.eqBase && !eq[0][i] {
			run.Violation(GENERATION+"/equals/copy-not-equal/"+kindOf(x), desc(pool[0], x))
		}
		if x.neBase && eq[0][i] {
			run.Violation(GENERATION+"/equals/changed-value-still-equal/"+kindOf(x), desc(pool[0], x))
		}
		if strings.HasPrefix(x.label, "mutation:") {
			run.Distinct(full + "|" + kindOf(x))
		}
	}
	// transitivity on sampled triples
	for n := 0; n < 60 && len(pool) > 2; n++ {
		i, j, k := rng.Intn(len(pool)), rng.Intn(len(pool)), rng.Intn(len(pool))
		if eq[i][j] && eq[j][k] && !eq[i][k] {
			d := desc(pool[i], pool[k])
			d["via"] = pool[j].label
			run.Violation(GENERATION+"/equals/not-transitive", d)
		}
	}
	if isCK {
		// complex keys: key part only
		for i, x := range pool {
			hx, err := callHash(x.go_, "ComputeComplexKeyHash")
			if err != nil {
				continue
			}
			for j, y := range pool {
				ce, err := callBool(x.go_, "ComplexKeyEquals", y.go_)
				if err != nil {
					continue
				}
				hy, _ := callHash(y.go_, "ComputeComplexKeyHash")
				keyPartEqual := model.Equal(stripParams(x.v), stripParams(y.v))
				if nanFree && !model.HasNaN(y.v) && keyPartEqual != ce && !strings.Contains(x.label+y.label, "zero-sign") {
					d := desc(x, y)
					d["ComplexKeyEquals"] = ce
					run.Violation(GENERATION+"/complexkey/equals-does-not-follow-key-part", d)
				}
				if ce && hx != hy {
					run.Violation(GENERATION+"/complexkey/equal-keys-different-hashes", desc(x, y))
				}
				_ = i
				_ = j
				run.Count("complexkey_pairs", 1)
			}
		}
	}
	if run.Counter("pairs_checked")%50000 < int64(len(pool)*len(pool)) {
		var labels []string
		for _, m := range pool {
			labels = append(labels, m.label)
		}
		sort.Strings(labels)
		if len(labels) > 12 {
			labels = labels[:12]
		}
		run.Sample(map[string]any{"type": full, "base": trunc(model.Show(a)), "pool_size": len(pool), "pool_members": labels})
	}
}

func stripParams(v *model.Value) *model.Value {
	c := model.Clone(v)
	if c != nil && c.Fields != nil {
		delete(c.Fields, "$params")
	}
	return c
}

func errKind(err error) string {
	if strings.HasPrefix(err.Error(), "PANIC") {
		return "panic"
	}
	return "error"
}
