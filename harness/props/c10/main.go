// C10 — Equals / hash contract of generated and key types.
//
// Relational monitor: for every generated type a pool is built around base values — the value, rebuilt copies
// (fresh map insertion order, nil vs empty containers), a round-tripped copy, and every single-position
// mutation — and the algebraic laws are evaluated on the real Equals / ComputeHash (and ComplexKeyEquals /
// ComputeComplexKeyHash): reflexivity, symmetry, transitivity, Equals => equal hashes, changed value => not
// Equal, hash purity within and across processes.
package main

import (
	"verifh/ev"
	"verifh/props/c10/gen1"
	"verifh/props/c10/gen2"
)

func main() {
	if gen2.Child() || gen1.Child() {
		return
	}
	run := ev.Start("C10")
	defer run.Guard()
	gen2.Run(run)
	gen1.Run(run)
	run.Set("generations", []string{"v2", "root"})
	run.Finish()
}
