// Generation-specific body of the C11 driver; props/c11/gen1 is derived from this file (derive.sh).
package gen2

import (
	"encoding/json"
	"fmt"
	"math/rand"
	"reflect"
	"sort"
	"strconv"
	"strings"

	"github.com/PapaCharlie/go-restli/v2/restlicodec"

	"verifh/bridge"
	codec "verifh/codec"
	"verifh/corpus"
	"verifh/ev"
	all "verifh/gen/all"
	"verifh/model"
	"verifh/refcodec"
)

const GENERATION = "v2"

func trunc(s string) string {
	if len(s) > 300 {
		return s[:300] + "..."
	}
	return s
}

func errText(err error) string {
	if err == nil {
		return ""
	}
	return err.Error()
}

func isPanic(err error) bool { _, ok := err.(*codec.PanicError); return ok }

// ---------------------------------------------------------------------------------------------
// unions

func unions(run *ev.Run, set *bridge.Set, td *corpus.TypeDef, rng *rand.Rand) {
	s := set.Schema
	full := td.FullName()
	n := len(td.Members)
	if n > 5 {
		n = 5
	}
	for mask := 0; mask < 1<<uint(n); mask++ {
		cnt := 0
		for i := 0; i < n; i++ {
			if mask&(1<<uint(i)) != 0 {
				cnt++
			}
		}
		legal := cnt == 1 || (cnt == 0 && td.HasNull)
		// encode direction: set the members through reflection
		p := set.New(full)
		tree := map[string]any{}
		for i := 0; i < n; i++ {
			if mask&(1<<uint(i)) != 0 {
				m := td.Members[i]
				v := model.Simplest(s, m.Type, 0)
				f := p.Elem().FieldByName(corpus.MemberGoName(m.Alias))
				if err := set.Build(f, m.Type, v); err != nil {
					run.Inconclusive("bridge: " + err.Error())
					return
				}
				tree[m.Alias] = refcodec.ToTree(s, m.Type, v)
			}
		}
		for _, f := range codec.Formats {
			run.Eval(1)
			run.Count("union_cases", 1)
			_, err := codec.Encode(f, p)
			desc := map[string]any{"generation": GENERATION, "set": set.Name, "type": full, "members_set": cnt, "mask": mask, "format": f.Name, "nullable": td.HasNull, "error": errText(err)}
			switch {
			case isPanic(err):
				run.Violation(GENERATION+"/union/encode/panic", desc)
			case legal && err != nil:
				run.Violation(fmt.Sprintf(GENERATION+"/union/encode/valid-rejected/%d-members-set", cnt), desc)
			case !legal && err == nil:
				run.Violation(fmt.Sprintf(GENERATION+"/union/encode/invalid-emitted/%s", countClass(cnt)), desc)
			default:
				run.Distinct(fmt.Sprintf("union|enc|%s|%d|%s", full, mask, f.Name))
			}
			if f.Name == "json-pretty" {
				continue
			}
			// decode direction: document carrying the same member subset
			var doc string
			if f.JSON {
				doc = refcodec.TreeJSON(tree, rng)
			} else {
				fl := refcodec.Header
				if f.Name == "ror2-path" {
					fl = refcodec.Path
				} else if f.Name == "ror2-query" {
					fl = refcodec.Query
				}
				doc = refcodec.TreeROR2(tree, fl, rng)
			}
			run.Eval(1)
			q, err := codec.Decode(f, set, full, doc)
			desc = map[string]any{"generation": GENERATION, "set": set.Name, "type": full, "members_in_document": cnt, "format": f.Name, "nullable": td.HasNull, "document": trunc(doc), "error": errText(err)}
			switch {
			case isPanic(err):
				run.Violation(GENERATION+"/union/decode/panic", desc)
			case legal && err != nil:
				run.Violation(fmt.Sprintf(GENERATION+"/union/decode/valid-rejected/%d-members", cnt), desc)
			case !legal && err == nil:
				got, _ := set.Read(q.Elem(), corpus.R(full))
				desc["decoded"] = model.Show(got)
				run.Violation(fmt.Sprintf(GENERATION+"/union/decode/invalid-accepted/%s", countClass(cnt)), desc)
			default:
				run.Distinct(fmt.Sprintf("union|dec|%s|%d|%s", full, mask, f.Name))
			}
		}
	}
	// documents whose only entry names a member the union does not declare: for a union that must carry exactly one
	// member this is not a value of the type, whatever shape the stranger's value has
	if td.HasNull {
		return
	}
	declared := map[string]bool{}
	for _, m := range td.Members {
		declared[m.Alias] = true
	}
	for _, alias := range []string{"long", "int", "string", "Int", "STRING", "string ", "com.example.Nope", "ks.kt.NoSuchType", "$params", ""} {
		if declared[alias] {
			continue
		}
		for vi, val := range []any{"1", "text", map[string]any{"a": "1", "b": map[string]any{}}, []any{"1", "2"}} {
			for _, f := range []codec.Format{codec.FormatByName("json-compact"), codec.FormatByName("ror2-header")} {
				tree := map[string]any{alias: val}
				var doc string
				if f.JSON {
					doc = refcodec.TreeJSON(tree, rng)
				} else {
					doc = refcodec.TreeROR2(tree, refcodec.Header, rng)
				}
				run.Eval(1)
				run.Count("union_undeclared_member_cases", 1)
				q, err := codec.Decode(f, set, full, doc)
				desc := map[string]any{"generation": GENERATION, "set": set.Name, "type": full, "undeclared_member": alias, "format": f.Name, "document": trunc(doc), "error": errText(err)}
				switch {
				case isPanic(err):
					run.Violation(GENERATION+"/union/decode/panic", desc)
				case err == nil:
					got, _ := set.Read(q.Elem(), corpus.R(full))
					desc["decoded"] = model.Show(got)
					run.Violation(GENERATION+"/union/decode/invalid-accepted/only-an-undeclared-member", desc)
				default:
					run.Distinct(fmt.Sprintf("union|dec-undeclared|%s|%s|%d|%s", full, alias, vi, f.Name))
				}
			}
		}
	}
}

// enumFieldsOfRecords: an undeclared symbol read into an enum-typed FIELD (required, optional, or with a default) is
// the unknown value there too; in particular the field's default must not take its place.
func enumFieldsOfRecords(run *ev.Run, set *bridge.Set, td *corpus.TypeDef, rng *rand.Rand) {
	s := set.Schema
	full := td.FullName()
	g := model.NewGen(s, rng)
	for _, f := range s.AllFields(td) {
		_, ftd := model.Resolve(s, f.Type)
		if ftd == nil || ftd.Kind != "enum" || f.Type.Ref == "" {
			continue
		}
		base := g.Value(corpus.R(full), 0)
		tree, ok := refcodec.ToTree(s, corpus.R(full), base).(map[string]any)
		if !ok {
			continue
		}
		tree[f.Name] = "NOT_A_DECLARED_SYMBOL"
		for _, fm := range []codec.Format{codec.FormatByName("json-compact"), codec.FormatByName("ror2-header")} {
			var doc string
			if fm.JSON {
				doc = refcodec.TreeJSON(tree, rng)
			} else {
				doc = refcodec.TreeROR2(tree, refcodec.Header, rng)
			}
			run.Eval(1)
			run.Count("enum_field_cases", 1)
			q, err := codec.Decode(fm, set, full, doc)
			kind := "required"
			if f.Default != nil {
				kind = "defaulted"
			} else if f.Optional {
				kind = "optional"
			}
			desc := map[string]any{"generation": GENERATION, "set": set.Name, "type": full, "field": f.Name, "field_kind": kind, "format": fm.Name, "document": trunc(doc), "error": errText(err)}
			if isPanic(err) {
				run.Violation(GENERATION+"/enum/decode/panic", desc)
				continue
			}
			if err != nil {
				run.Count("observed_only.unknown_symbol_error", 1)
				continue
			}
			got, rerr := set.Read(q.Elem(), corpus.R(full))
			if rerr != nil || got == nil {
				continue
			}
			fv := got.Fields[f.Name]
			desc["decoded_field"] = model.Show(fv)
			if fv != nil && fv.Kind == model.KEnum && fv.S != "" {
				run.Violation(GENERATION+"/enum/decode/unknown-symbol-became-another-symbol/"+kind+"-field", desc)
			} else {
				run.Distinct(fmt.Sprintf("enum|field|%s|%s|%s", full, f.Name, fm.Name))
			}
		}
	}
}

func countClass(n int) string {
	switch {
	case n == 0:
		return "no-member"
	case n == 2:
		return "two-members"
	}
	return "several-members"
}

// ---------------------------------------------------------------------------------------------
// fixed and enums

func fixedAndEnums(run *ev.Run, set *bridge.Set, td *corpus.TypeDef) {
	full := td.FullName()
	switch td.Kind {
	case "fixed":
		for l := 0; l <= td.Size+2; l++ {
			for _, content := range []string{strings.Repeat("a", l), strings.Repeat("é", l)} { // é = one byte 0xE9 in the wire string form
				for _, f := range []codec.Format{codec.FormatByName("json-compact"), codec.FormatByName("ror2-header"), codec.FormatByName("ror2-query")} {
					var doc string
					if f.JSON {
						doc = refcodec.TreeJSON(content, nil)
					} else {
						doc = refcodec.TreeROR2(content, map[string]refcodec.Flavour{"ror2-header": refcodec.Header, "ror2-query": refcodec.Query}[f.Name], nil)
					}
					run.Eval(1)
					run.Count("fixed_cases", 1)
					q, err := codec.Decode(f, set, full, doc)
					desc := map[string]any{"generation": GENERATION, "type": full, "declared_size": td.Size, "length": l, "format": f.Name, "document": doc, "error": errText(err)}
					switch {
					case isPanic(err):
						run.Violation(GENERATION+"/fixed/decode/panic", desc)
					case l == td.Size && err != nil:
						run.Violation(GENERATION+"/fixed/decode/valid-rejected", desc)
					case l != td.Size && err == nil:
						got, _ := set.Read(q.Elem(), corpus.R(full))
						desc["decoded"] = model.Show(got)
						run.Violation(GENERATION+"/fixed/decode/wrong-length-accepted/"+lenClass(l, td.Size), desc)
					default:
						run.Distinct(fmt.Sprintf("fixed|%s|%d|%s", full, l, f.Name))
					}
				}
			}
		}
	case "enum":
		for ord := -1; ord <= len(td.Symbols)+2; ord++ {
			p := set.New(full)
			p.Elem().SetInt(int64(ord))
			legal := ord >= 1 && ord <= len(td.Symbols)
			for _, f := range codec.Formats {
				run.Eval(1)
				run.Count("enum_cases", 1)
				doc, err := codec.Encode(f, p)
				desc := map[string]any{"generation": GENERATION, "type": full, "constant": ord, "symbols": td.Symbols, "format": f.Name, "output": doc, "error": errText(err)}
				switch {
				case isPanic(err):
					run.Violation(GENERATION+"/enum/encode/panic", desc)
				case legal && err != nil:
					run.Violation(GENERATION+"/enum/encode/valid-rejected", desc)
				case !legal && err == nil:
					run.Violation(GENERATION+"/enum/encode/illegal-constant-emitted/"+ordClass(ord, len(td.Symbols)), desc)
				case legal:
					// the symbol written must be the declared one
					want := td.Symbols[ord-1]
					if !strings.Contains(doc, want) {
						run.Violation(GENERATION+"/enum/encode/wrong-symbol", desc)
					} else {
						run.Distinct(fmt.Sprintf("enum|enc|%s|%d|%s", full, ord, f.Name))
					}
				default:
					run.Distinct(fmt.Sprintf("enum|enc|%s|%d|%s", full, ord, f.Name))
				}
			}
		}
		var texts []string
		texts = append(texts, td.Symbols...)
		for _, sym := range td.Symbols {
			texts = append(texts, strings.ToLower(sym), sym+" ", " "+sym, sym+"X", sym[:len(sym)-1])
		}
		texts = append(texts, "", "$UNKNOWN$", "null", "0", "1", "UNKNOWN", "_unknown")
		for _, txt := range texts {
			want := ""
			for _, sym := range td.Symbols {
				if sym == txt {
					want = sym
				}
			}
			for _, f := range []codec.Format{codec.FormatByName("json-compact"), codec.FormatByName("ror2-header")} {
				var doc string
				if f.JSON {
					doc = refcodec.TreeJSON(txt, nil)
				} else {
					doc = refcodec.TreeROR2(txt, refcodec.Header, nil)
				}
				run.Eval(1)
				run.Count("enum_cases", 1)
				q, err := codec.Decode(f, set, full, doc)
				desc := map[string]any{"generation": GENERATION, "type": full, "text": txt, "symbols": td.Symbols, "format": f.Name, "error": errText(err)}
				if isPanic(err) {
					run.Violation(GENERATION+"/enum/decode/panic", desc)
					continue
				}
				if err != nil {
					if want != "" {
						run.Violation(GENERATION+"/enum/decode/declared-symbol-rejected", desc)
					} else {
						run.Count("observed_only.unknown_symbol_error", 1)
					}
					continue
				}
				got, _ := set.Read(q.Elem(), corpus.R(full))
				desc["decoded"] = model.Show(got)
				if got.S != want {
					if want == "" {
						run.Violation(GENERATION+"/enum/decode/unknown-symbol-became-another-symbol", desc)
					} else {
						run.Violation(GENERATION+"/enum/decode/wrong-symbol", desc)
					}
				} else {
					run.Distinct(fmt.Sprintf("enum|dec|%s|%s|%s", full, txt, f.Name))
				}
				// the same document read into a variable that already holds a declared symbol (a reused struct, the second
				// element decoded in place): the earlier symbol must not survive
				for _, prev := range []string{td.Symbols[0], td.Symbols[len(td.Symbols)-1]} {
					if prev == want {
						continue
					}
					held, berr := codec.BuildGo(set, full, &model.Value{Kind: model.KEnum, S: prev})
					r, rerr := f.NewReader(doc)
					if berr != nil || rerr != nil {
						continue
					}
					run.Eval(1)
					run.Count("enum_reused_receiver_cases", 1)
					_, err := codec.DecodeWith(r, held)
					desc := map[string]any{"generation": GENERATION, "type": full, "text": txt, "symbols": td.Symbols, "format": f.Name, "error": errText(err), "receiver_held": prev}
					if isPanic(err) {
						run.Violation(GENERATION+"/enum/decode/panic", desc)
						continue
					}
					if err != nil {
						continue // rejected: judged above on the fresh receiver
					}
					got, _ := set.Read(held.Elem(), corpus.R(full))
					desc["decoded"] = model.Show(got)
					if got.S != want {
						if got.S == prev {
							run.Violation(GENERATION+"/enum/decode/reused-receiver-keeps-earlier-symbol", desc)
						} else {
							run.Violation(GENERATION+"/enum/decode/reused-receiver-wrong-symbol", desc)
						}
					}
				}
			}
		}
	}
}

func lenClass(l, n int) string {
	switch {
	case l == 0:
		return "empty"
	case l < n:
		return "shorter"
	}
	return "longer"
}

func ordClass(o, n int) string {
	switch {
	case o < 0:
		return "negative"
	case o == 0:
		return "unknown-value-0"
	}
	return "above-range"
}

// ---------------------------------------------------------------------------------------------
// partial updates

type assign int

const (
	aNone assign = iota
	aDelete
	aSet
	aPatch
	aSetDelete
	aSetPatch
	aDeletePatch
	aSetDeletePatch
)

var assignNames = [...]string{"none", "delete", "set", "patch", "set+delete", "set+patch", "delete+patch", "set+delete+patch"}

type fieldInfo struct {
	f        corpus.Field
	isRecord bool
	optional bool
	rtd      *corpus.TypeDef
}

func fieldsOf(s *corpus.Schema, td *corpus.TypeDef) []fieldInfo {
	var out []fieldInfo
	for _, f := range s.AllFields(td) {
		_, ftd := model.Resolve(s, f.Type)
		isRec := ftd != nil && ftd.Kind == "record" && f.Type.Ref != ""
		out = append(out, fieldInfo{f, isRec, f.Optional || f.Default != nil, ftd})
	}
	return out
}

// patchTree is the reference encoding of a patch: {"$delete":[...], "$set":{...}, field: nested}.
func patchTree(s *corpus.Schema, td *corpus.TypeDef, p *bridge.Patch, extraDelete map[string][]string, path string) map[string]any {
	out := map[string]any{}
	var del []any
	var names []string
	for k := range p.Delete {
		names = append(names, k)
	}
	names = append(names, extraDelete[path]...)
	sort.Strings(names)
	for _, k := range names {
		del = append(del, k)
	}
	if len(del) > 0 {
		out["$delete"] = del
	}
	if len(p.Set) > 0 {
		set := map[string]any{}
		for _, fi := range fieldsOf(s, td) {
			if v := p.Set[fi.f.Name]; v != nil {
				set[fi.f.Name] = refcodec.ToTree(s, fi.f.Type, v)
			}
		}
		out["$set"] = set
	}
	for _, fi := range fieldsOf(s, td) {
		if np := p.Nested[fi.f.Name]; np != nil {
			out[fi.f.Name] = patchTree(s, fi.rtd, np, extraDelete, path+"/"+fi.f.Name)
		}
	}
	return out
}

// normalise a parsed JSON patch tree for comparison ($delete order is insignificant; numbers by text)
func normTree(t any) any {
	switch x := t.(type) {
	case map[string]any:
		c := map[string]any{}
		for k, v := range x {
			if k == "$delete" {
				if a, ok := v.([]any); ok {
					var ss []string
					for _, e := range a {
						ss = append(ss, fmt.Sprint(e))
					}
					sort.Strings(ss)
					c[k] = strings.Join(ss, "\x00")
					continue
				}
			}
			c[k] = normTree(v)
		}
		return c
	case []any:
		c := make([]any, len(x))
		for i, v := range x {
			c[i] = normTree(v)
		}
		return c
	case json.Number:
		// numbers by denotation: integers exactly, everything else at float32 precision (the narrowest float type)
		if _, err := strconv.ParseInt(string(x), 10, 64); err == nil {
			return string(x)
		}
		f, _ := strconv.ParseFloat(string(x), 64)
		return strconv.FormatFloat(float64(float32(f)), 'g', -1, 32)
	}
	return fmt.Sprint(t)
}

func genPatch(s *corpus.Schema, td *corpus.TypeDef, g *model.Gen, rng *rand.Rand, pick func(fi fieldInfo, depth int, path string) assign, depth int, path string, desc *[]string, illegal *[]string, excluded func(string) bool, required map[string][]string) *bridge.Patch {
	p := bridge.NewPatch()
	for _, fi := range fieldsOf(s, td) {
		a := pick(fi, depth, path+"/"+fi.f.Name)
		if a == aNone {
			continue
		}
		fpath := path + "/" + fi.f.Name
		*desc = append(*desc, fpath+"="+assignNames[a])
		touchesSet := a == aSet || a == aSetDelete || a == aSetPatch || a == aSetDeletePatch
		touchesDel := a == aDelete || a == aSetDelete || a == aDeletePatch || a == aSetDeletePatch
		touchesPatch := a == aPatch || a == aSetPatch || a == aDeletePatch || a == aSetDeletePatch
		if touchesPatch && !fi.isRecord {
			touchesPatch = false
			if a == aPatch {
				a = aSet
				touchesSet = true
			}
		}
		if excluded != nil && excluded(fpath) {
			*illegal = append(*illegal, "touches-excluded-field")
		}
		n := 0
		for _, b := range []bool{touchesSet, touchesDel, touchesPatch} {
			if b {
				n++
			}
		}
		if n > 1 {
			*illegal = append(*illegal, "conflict:"+assignNames[a])
		}
		if touchesSet {
			p.Set[fi.f.Name] = g.Value(fi.f.Type, 2)
		}
		if touchesDel {
			if fi.optional {
				p.Delete[fi.f.Name] = true
			} else {
				// not expressible in the Go type: only on the wire
				required[path] = append(required[path], fi.f.Name)
				*illegal = append(*illegal, "delete-required-field")
			}
		}
		if touchesPatch {
			p.Nested[fi.f.Name] = genPatch(s, fi.rtd, g, rng, pick, depth+1, fpath, desc, illegal, excluded, required)
		}
	}
	return p
}

// filled returns the patch with schema defaults filled into every $set value (decoding always does that).
func filled(s *corpus.Schema, td *corpus.TypeDef, p *bridge.Patch) *bridge.Patch {
	out := bridge.NewPatch()
	for _, fi := range fieldsOf(s, td) {
		if v := p.Set[fi.f.Name]; v != nil {
			out.Set[fi.f.Name] = refcodec.FillDefaults(s, fi.f.Type, v)
		}
		if p.Delete[fi.f.Name] {
			out.Delete[fi.f.Name] = true
		}
		if np := p.Nested[fi.f.Name]; np != nil {
			out.Nested[fi.f.Name] = filled(s, fi.rtd, np)
		}
	}
	return out
}

func partialUpdates(run *ev.Run, set *bridge.Set, td *corpus.TypeDef, rng *rand.Rand, budget int) {
	s := set.Schema
	full := td.FullName()
	if _, ok := set.Types[full+"#patch"]; !ok {
		return
	}
	fis := fieldsOf(s, td)
	g := model.NewGen(s, rng)
	g.Hostile = 0.1
	g.MaxDepth = 3
	choices := []assign{aNone, aDelete, aSet, aPatch, aSetDelete, aSetPatch, aDeletePatch, aSetDeletePatch}
	type plan struct {
		top     []assign // assignment of the top-level fields
		spec    []string // exclusion paths ("/a/b" form without leading slash in NewPathSpec)
		exhaust bool
		forced  map[string]assign // assignments fixed along a path ("/a/b/c" form)
	}
	var plans []plan
	nTop := len(fis)
	total := 1
	for i := 0; i < nTop && total <= 4096; i++ {
		total *= 4
	}
	if nTop > 0 && total <= 4096 {
		for code := 0; code < total; code++ {
			var a []assign
			c := code
			for i := 0; i < nTop; i++ {
				a = append(a, choices[c%4])
				c /= 4
			}
			plans = append(plans, plan{top: a, exhaust: true})
		}
	}
	// excluded fields three levels down, reached through two nested patches: the leaf is set (or deleted) although the
	// spec excludes it, and, as a control, a sibling path is excluded while the leaf is set
	deep := 0
	for ti, fi := range fis {
		if !fi.isRecord {
			continue
		}
		for _, mid := range fieldsOf(s, fi.rtd) {
			if !mid.isRecord {
				continue
			}
			for li, leaf := range fieldsOf(s, mid.rtd) {
				if deep >= 8 {
					break
				}
				deep++
				top := make([]assign, len(fis))
				top[ti] = aPatch
				leafPath := "/" + fi.f.Name + "/" + mid.f.Name + "/" + leaf.f.Name
				op := aSet
				if leaf.optional && li%2 == 1 {
					op = aDelete
				}
				forced := map[string]assign{"/" + fi.f.Name: aPatch, "/" + fi.f.Name + "/" + mid.f.Name: aPatch, leafPath: op}
				plans = append(plans, plan{top: top, spec: []string{leafPath[1:]}, forced: forced})
				plans = append(plans, plan{top: top, spec: []string{fi.f.Name + "/" + mid.f.Name + "/noSuchLeaf"}, forced: forced})
			}
		}
	}
	for i := 0; i < budget; i++ {
		var a []assign
		for range fis {
			if rng.Intn(10) == 0 {
				a = append(a, choices[4+rng.Intn(4)]) // a conflicting combination (two or all three operations)
			} else {
				a = append(a, choices[rng.Intn(4)])
			}
		}
		pl := plan{top: a}
		if rng.Intn(2) == 0 && nTop > 0 {
			k := 1 + rng.Intn(2)
			for j := 0; j < k; j++ {
				fi := fis[rng.Intn(nTop)]
				path := fi.f.Name
				if fi.isRecord && rng.Intn(2) == 0 {
					sub := fieldsOf(s, fi.rtd)
					if len(sub) > 0 {
						path += "/" + sub[rng.Intn(len(sub))].f.Name
					}
				}
				pl.spec = append(pl.spec, path)
			}
		}
		plans = append(plans, pl)
	}
	for pi, pl := range plans {
		var spec restlicodec.PathSpec
		exact := map[string]bool{}
		if len(pl.spec) > 0 {
			spec = restlicodec.NewPathSpec(pl.spec...)
			for _, p := range pl.spec {
				exact["/"+p] = true
			}
		}
		var excluded func(string) bool
		skipCase := false
		if spec != nil {
			excluded = func(path string) bool { return exact[path] }
		}
		var desc, illegal []string
		required := map[string][]string{}
		pick := func(fi fieldInfo, depth int, path string) assign {
			if a, ok := pl.forced[path]; ok {
				return a
			}
			if pl.forced != nil {
				return aNone // nothing but the forced path is touched
			}
			if depth == 0 {
				for i, x := range fis {
					if x.f.Name == fi.f.Name {
						return pl.top[i]
					}
				}
			}
			if depth >= 2 {
				return []assign{aNone, aSet, aDelete}[rng.Intn(3)]
			}
			return choices[rng.Intn(4)]
		}
		p := genPatch(s, td, g, rng, pick, 0, "", &desc, &illegal, excluded, required)
		// a $set of a record whose sub-field is excluded is left unspecified (the encoder omits the sub-field): skip
		for _, e := range pl.spec {
			parts := strings.Split(e, "/")
			if len(parts) == 2 {
				if _, ok := p.Set[parts[0]]; ok {
					skipCase = true
				}
			}
		}
		if skipCase {
			run.Count("observed_only.set_of_record_with_excluded_subfield", 1)
			continue
		}
		legal := len(illegal) == 0
		wireOnly := len(required) > 0
		sort.Strings(illegal)
		reason := "legal"
		if !legal {
			reason = illegal[0]
		}
		d := map[string]any{"generation": GENERATION, "set": set.Name, "type": full, "assignments": desc, "exclusion_spec": pl.spec, "expected": reason}
		refTree := map[string]any{"patch": patchTree(s, td, p, required, "")}
		// ---- encode direction (only what the Go type can express)
		if !wireOnly {
			run.Eval(1)
			run.Count("patch_cases.encode", 1)
			ptr, err := set.BuildPatch(full, p)
			if err != nil {
				run.Inconclusive("bridge patch: " + err.Error())
				continue
			}
			var w restlicodec.Writer
			if spec != nil {
				w = restlicodec.NewCompactJsonWriterWithExcludedFields(spec)
			} else {
				w = restlicodec.NewCompactJsonWriter()
			}
			doc, err := codec.EncodeWith(w, ptr)
			d["output"], d["error"] = trunc(doc), errText(err)
			switch {
			case isPanic(err):
				run.Violation(GENERATION+"/patch/encode/panic", d)
			case legal && err != nil:
				run.Violation(GENERATION+"/patch/encode/legal-rejected", d)
			case !legal && err == nil:
				run.Violation(GENERATION+"/patch/encode/illegal-emitted/"+reason, d)
			case legal:
				got, perr := refcodec.ParseJSON([]byte(doc))
				want, _ := refcodec.ParseJSON([]byte(refcodec.TreeJSON(refTree, nil)))
				if perr != nil || !reflect.DeepEqual(normTree(got), normTree(want)) {
					d["expected_document"] = trunc(refcodec.TreeJSON(refTree, nil))
					run.Violation(GENERATION+"/patch/encode/not-in-patch-shape", d)
				} else {
					// round trip through the library's own decoder
					q := set.New(full + "#patch")
					r, _ := restlicodec.NewJsonReader([]byte(doc))
					if _, err := codec.DecodeWith(r, q); err != nil {
						d["error"] = err.Error()
						run.Violation(GENERATION+"/patch/roundtrip/decode-error", d)
					} else if back, err := set.ReadPatch(q.Elem(), td); err != nil {
						run.Inconclusive("bridge read patch: " + err.Error())
					} else if diff := bridge.EqualPatch(filled(s, td, p), back); diff != "" {
						d["detail"] = diff
						run.Violation(GENERATION+"/patch/roundtrip/differs", d)
					} else {
						run.Distinct(fmt.Sprintf("patch|%s|%s|%v", full, strings.Join(desc, ","), pl.spec))
					}
				}
			default:
				run.Distinct(fmt.Sprintf("patch|%s|%s|%v", full, strings.Join(desc, ","), pl.spec))
			}
		}
		// ---- decode direction: the reference-encoded document
		run.Eval(1)
		run.Count("patch_cases.decode", 1)
		doc := refcodec.TreeJSON(refTree, rng)
		d = map[string]any{"generation": GENERATION, "set": set.Name, "type": full, "assignments": desc, "exclusion_spec": pl.spec, "expected": reason, "document": trunc(doc)}
		var r restlicodec.Reader
		var err error
		if spec != nil {
			r, err = restlicodec.NewJsonReaderWithExcludedFields([]byte(doc), spec, 1)
		} else {
			r, err = restlicodec.NewJsonReader([]byte(doc))
		}
		if err != nil {
			continue
		}
		q := set.New(full + "#patch")
		_, err = codec.DecodeWith(r, q)
		d["error"] = errText(err)
		switch {
		case isPanic(err):
			run.Violation(GENERATION+"/patch/decode/panic", d)
		case legal && err != nil:
			run.Violation(GENERATION+"/patch/decode/legal-rejected", d)
		case !legal && err == nil:
			run.Violation(GENERATION+"/patch/decode/illegal-accepted/"+reason, d)
		case legal:
			back, rerr := set.ReadPatch(q.Elem(), td)
			if rerr != nil {
				run.Inconclusive("bridge read patch: " + rerr.Error())
			} else if diff := bridge.EqualPatch(filled(s, td, p), back); diff != "" {
				d["detail"] = diff
				run.Violation(GENERATION+"/patch/decode/decoded-differently", d)
			} else if pi%200 == 3 {
				run.Sample(d)
			}
		}
	}
}

func Run(run *ev.Run) {
	run.Rule("unions: every subset of members set (<=5 members) x 5 formats, encode via reflection-built Go values, decode via documents carrying the same member subset; fixed: every length 0..n+2 (ASCII and one-byte-per-char content) x JSON/ROR2; " +
		"enums: every constant -1..n+2 on write, every declared / lower-cased / padded / truncated / unknown / empty text on read; partial updates: every assignment of {none, delete, set, nested patch} to the top-level fields when 4^fields <= 4096 (PRNG assignments otherwise and at deeper levels), " +
		"plus conflicting combinations and exclusion specs; legality is decided by the reference predicates. distinct = distinct (type, case) that were accepted/rejected as expected")
	run.Assume("decoding an unknown enum symbol may also return an error (observed only) but must never yield another symbol", "a $set of a whole record whose sub-field is excluded is left unspecified", "both generations: the root module through bindings written by its own generator from the same schema sets")
	rng := rand.New(rand.NewSource(run.Seed + 11))
	budget := run.Pick(60, 600)
	for _, set := range all.Sets {
		if err := set.SelfCheck(model.NewGen(set.Schema, rand.New(rand.NewSource(run.Seed+7))), 5); err != nil {
			run.Inconclusive("bridge self-check failed: " + err.Error())
			return
		}
		for _, td := range set.Schema.Types {
			switch td.Kind {
			case "union":
				unions(run, set, td, rng)
			case "fixed", "enum":
				fixedAndEnums(run, set, td)
			case "record":
				enumFieldsOfRecords(run, set, td, rng)
				// the partial-update legality rules are enforced by the patch package, which only the v2 module has:
				// for the root module that clause is not exercised (it has no checker to monitor)
				partialUpdates(run, set, td, rng, budget)
			}
		}
	}
	run.Require("union_cases", 100)
	run.Require("fixed_cases", 30)
	run.Require("enum_cases", 100)
	run.Require("patch_cases.encode", 500)
	run.Require("patch_cases.decode", 500)
}
