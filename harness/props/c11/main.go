// C11 — schema validity constraints are enforced when encoding and when decoding.
//
// Boundary monitor: for unions (every subset of members set), fixed (every length 0..n+2), enums (every
// constant -1..n+2 on write; declared / unknown / empty / case-variant symbols on read) and partial updates
// (every assignment of {none, delete, set, nested patch} to each field, recursively, with and without exclusion
// specs) the real generated code is run in both directions and must reject exactly the illegal cases; legal
// partial updates must come out in the protocol's patch / $set / $delete shape and round-trip.
package main

import (
	"verifh/ev"
	"verifh/props/c11/gen1"
	"verifh/props/c11/gen2"
)

func main() {
	run := ev.Start("C11")
	defer run.Guard()
	gen2.Run(run)
	gen1.Run(run)
	run.Set("generations", []string{"v2", "root"})
	run.Finish()
}
