// C12 — code generation is total, deterministic and yields compilable bindings.
//
// Monitor: the real generators of both generations (cmd/gen: v2, cmd/gen1: root module, built from the tree under test)
// are run as child processes on manifests emitted from the harness's schema grammar: the kitchen sink, PRNG-drawn
// "hard" sets (namespaces referring to each other in both directions, equal simple names in several namespaces,
// recursive records, complex keys, resources of every kind with random method subsets), one systematic probe per type
// constructor that puts it into every position (fields, includes, union members, action / finder parameters and
// results, keys, complex-key parts ...), and probes built around identifiers that are legal schema names but awkward in
// Go.  Observed per set and generation: exit status of three fresh generator processes (different GOMAXPROCS, working
// directory), byte equality of the three output trees, and `go build` of the generated packages against the runtime.
// The bindings checked into the repository are regenerated in a scratch copy and compared byte for byte (then, if
// different, as comment-free syntax trees).
package main

import (
	"bytes"
	"crypto/sha256"
	"encoding/hex"
	"fmt"
	"go/ast"
	"go/parser"
	"go/printer"
	"go/token"
	"io/fs"
	"math/rand"
	"os"
	"os/exec"
	"path/filepath"
	"regexp"
	"sort"
	"strings"
	"sync"

	"verifh/corpus"
	"verifh/ev"
)

// identifier probes that are run in every tier (the ones listed as open findings, so that their KNOWN-FINDING lines
// do not depend on the seed)
var alwaysProbed = map[string]bool{"namespace:go": true, "namespace:type": true, "namespace:func": true, "namespace:vendor": true, "namespace:main": true, "namespace:init": true, "namespace:r": true,
	"resource:type": true, "resource:go": true, "field:equals": true, "field:computeHash": true, "field:newInstance": true, "field:marshalRestLi": true, "field:unmarshalRestLi": true, "field:marshalFields": true,
	"key:bytes": true, "key:float32": true, "key:float64": true, "key:bool": true, "key:fixed": true, "key:typeref-bytes": true, "key:typeref-double": true}

type setSpec struct {
	name  string
	class string // kitchen | hard | probe:<constructor> | ident:<kind>:<text>
	build func(root string) *corpus.Schema
}

var (
	gen2Bin, gen1Bin, repo, workDir string
)

func trunc(s string) string {
	if len(s) > 1500 {
		return s[:1500] + "..."
	}
	return s
}

func treeHash(dir string) (map[string]string, error) {
	out := map[string]string{}
	err := filepath.WalkDir(dir, func(p string, d fs.DirEntry, err error) error {
		if err != nil || d.IsDir() {
			return err
		}
		data, err := os.ReadFile(p)
		if err != nil {
			return err
		}
		rel, _ := filepath.Rel(dir, p)
		if rel == "manifest.in.json" || rel == "gen.log" {
			return nil
		}
		h := sha256.Sum256(data)
		out[rel] = hex.EncodeToString(h[:])
		return nil
	})
	return out, err
}

func diffTrees(a, b map[string]string) []string {
	var out []string
	for k, v := range a {
		if w, ok := b[k]; !ok {
			out = append(out, "only in first: "+k)
		} else if v != w {
			out = append(out, "differs: "+k)
		}
	}
	for k := range b {
		if _, ok := a[k]; !ok {
			out = append(out, "only in second: "+k)
		}
	}
	sort.Strings(out)
	return out
}

var (
	posRe     = regexp.MustCompile(`^[^\s:]+\.go:\d+:\d+: `)
	digitsRe  = regexp.MustCompile(`\d+`)
	quotedRe  = regexp.MustCompile(`"[^"]*"`)
	identLike = regexp.MustCompile(`[A-Za-z_][A-Za-z0-9_]*`)
)

// classify turns the first compiler error into a stable class name.
func classify(out string) (class, first string) {
	if strings.Contains(out, "import cycle not allowed") {
		for _, line := range strings.Split(out, "\n") {
			if strings.Contains(line, "import cycle not allowed") {
				return "import-cycle", strings.TrimSpace(line)
			}
		}
	}
	for _, line := range strings.Split(out, "\n") {
		line = strings.TrimSpace(line)
		if line == "" || strings.HasPrefix(line, "#") || strings.HasPrefix(line, "package ") && strings.Contains(out, "import cycle") {
			if strings.Contains(line, "import cycle") {
				return "import-cycle", line
			}
			continue
		}
		first = line
		msg := posRe.ReplaceAllString(line, "")
		switch {
		case strings.Contains(msg, "import cycle"):
			return "import-cycle", first
		case strings.Contains(msg, "cannot refer to unexported method populateLocalDefaultValues"):
			return "unexported-populateLocalDefaultValues-of-embedded-record", first
		case strings.Contains(msg, "has no field or method"):
			return "missing-field-or-method", first
		case strings.Contains(msg, "func can only be compared to nil"):
			return "field-name-collides-with-generated-method", first
		case strings.Contains(msg, "is a program, not an importable package"):
			return "namespace-maps-to-package-main", first
		case strings.Contains(msg, "cannot import package as init"):
			return "namespace-maps-to-package-init", first
		case strings.Contains(msg, "must be imported as"):
			return "namespace-maps-to-vendor-directory", first
		case strings.HasPrefix(msg, "undefined: "):
			what := strings.TrimPrefix(msg, "undefined: ")
			if strings.HasPrefix(what, "restli.") || strings.HasPrefix(what, "restlicodec.") || strings.HasPrefix(what, "restlidata.") || strings.HasPrefix(what, "common.") {
				return "undefined:" + what, first
			}
			return "undefined-identifier", first
		case strings.Contains(msg, "redeclared"):
			return "redeclared", first
		case strings.Contains(msg, "field and method with the same name"):
			return "field-and-method-same-name", first
		case strings.Contains(msg, "duplicate"):
			return "duplicate-" + strings.Fields(strings.SplitN(msg, "duplicate ", 2)[1])[0], first
		case strings.Contains(msg, "declared and not used"):
			return "declared-and-not-used", first
		case strings.Contains(msg, "imported and not used"):
			return "imported-and-not-used", first
		case strings.Contains(msg, "does not satisfy comparable"):
			return "key-type-not-comparable", first
		case strings.Contains(msg, "use of internal package"):
			return "use-of-internal-package", first
		case strings.Contains(msg, "syntax error") || strings.Contains(msg, "expected "):
			return "syntax-error", first
		case strings.Contains(msg, "is not a type") || strings.Contains(msg, "is not an expression") || strings.Contains(msg, "not a package") || strings.Contains(msg, "undefined (type"):
			return "identifier-shadowed-or-misresolved", first
		case strings.Contains(msg, "cannot use"):
			return "type-mismatch", first
		case strings.Contains(msg, "missing return") || strings.Contains(msg, "too many arguments") || strings.Contains(msg, "not enough arguments") || strings.Contains(msg, "assignment mismatch"):
			return "arity-mismatch", first
		case strings.Contains(msg, "no required module provides package") || strings.Contains(msg, "is not in std") || strings.Contains(msg, "cannot find package") || strings.Contains(msg, "malformed import path") || strings.Contains(msg, "invalid import path"):
			return "unresolvable-import", first
		case strings.Contains(msg, "found packages") || strings.Contains(msg, "package name") || strings.Contains(msg, "expected package"):
			return "package-clause-conflict", first
		case strings.Contains(msg, "main is undeclared") || strings.Contains(msg, "main_main"):
			return "package-main-without-main", first
		}
		w := strings.Fields(identLike.ReplaceAllStringFunc(digitsRe.ReplaceAllString(quotedRe.ReplaceAllString(msg, "Q"), "N"), func(s string) string {
			if len(s) > 12 {
				return "ID"
			}
			return s
		}))
		if len(w) > 6 {
			w = w[:6]
		}
		return "other:" + strings.Join(w, "-"), first
	}
	return "unknown", strings.TrimSpace(out)
}

func classifyGenFailure(log string) string {
	lines := strings.Split(strings.TrimSpace(log), "\n")
	for _, l := range lines {
		if strings.Contains(l, "panic:") {
			return "panic"
		}
	}
	if strings.Contains(log, "Failed to write code file") {
		return "cannot-format-generated-code"
	}
	if strings.Contains(log, "Could not generate code for") {
		return "cannot-format-generated-code"
	}
	for _, l := range lines {
		if i := strings.Index(l, "go-restli:"); i >= 0 {
			msg := quotedRe.ReplaceAllString(l[i:], "Q")
			msg = digitsRe.ReplaceAllString(msg, "N")
			w := strings.Fields(msg)
			if len(w) > 7 {
				w = w[:7]
			}
			return strings.Join(w, "-")
		}
	}
	return "exit-nonzero"
}

type genResult struct {
	ok   bool
	log  string
	tree map[string]string
}

func runGenerator(gen string, outDir, pkgRoot, manifest string, variant int) genResult {
	_ = os.RemoveAll(outDir)
	_ = os.MkdirAll(filepath.Dir(outDir), 0o755)
	if variant == 4 {
		// this run regenerates into a directory that holds the output of an earlier, different schema revision: whatever
		// the generator owns there (any directory name, the generator writes "_internal" itself) must not survive
		suffix, manName := ".gr.go", "go-restli-manifest.gr.json"
		if gen != "v2" {
			manName = "parsed-specs.gr.json"
		}
		for _, stale := range []string{"_internal/old/Stale" + suffix, ".tmp/Stale" + suffix, "old/pkg/Stale" + suffix, "old/" + manName, "Stale" + suffix} {
			f := filepath.Join(outDir, stale)
			_ = os.MkdirAll(filepath.Dir(f), 0o755)
			_ = os.WriteFile(f, []byte("package stale // from an earlier revision\n"), 0o444)
		}
	}
	var cmd *exec.Cmd
	absOut, _ := filepath.Abs(outDir)
	absMan, _ := filepath.Abs(manifest)
	if gen == "v2" {
		cmd = exec.Command(gen2Bin, absOut, absMan, filepath.Join(repo, "v2/restlidata/generated/go-restli-manifest.gr.json"))
	} else {
		cmd = exec.Command(gen1Bin, absOut, pkgRoot, absMan)
	}
	cmd.Env = append(os.Environ(), fmt.Sprintf("GOMAXPROCS=%d", []int{1, 16, 3}[variant%3]), "TZ="+[]string{"UTC", "Asia/Tokyo", "America/Lima"}[variant%3])
	if variant%3 != 0 {
		cmd.Dir = os.TempDir()
	}
	out, err := cmd.CombinedOutput()
	res := genResult{ok: err == nil, log: string(out)}
	if res.ok {
		res.tree, _ = treeHash(outDir)
	}
	return res
}

func goBuild(pkgPattern string) (bool, string) {
	cmd := exec.Command("go", "build", pkgPattern)
	cmd.Dir = workDir
	out, err := cmd.CombinedOutput()
	return err == nil, string(out)
}

// oneSet runs the whole observation for one schema set and one generation; it returns the failure class ("" = held).
func oneSet(run *ev.Run, gen string, sp setSpec, report bool) (failure string, detail map[string]any) {
	rel := filepath.Join("c12", gen, sp.name)
	pkgRoot := "verifh/c12/" + gen + "/" + sp.name
	schema := sp.build(pkgRoot)
	man, err := schema.ManifestV2()
	if gen == "root" {
		// the root generator's front end flattens included records and spells paging as parameters
		man, err = schema.ManifestRoot()
	}
	if err != nil {
		run.Inconclusive("manifest emitter: " + err.Error())
		return "", nil
	}
	manDir := filepath.Join(workDir, "c12-manifests", gen)
	_ = os.MkdirAll(manDir, 0o755)
	manFile := filepath.Join(manDir, sp.name+".json")
	_ = os.WriteFile(manFile, man, 0o644)
	detail = map[string]any{"generation": gen, "set": sp.name, "class": sp.class, "types": len(schema.Types), "resources": len(schema.Resources)}
	outs := []string{filepath.Join(workDir, rel)}
	for _, suffix := range []string{"-b", "-c", "-d", "-e", "-f"} {
		outs = append(outs, filepath.Join(workDir, "c12-det", gen, sp.name+suffix))
	}
	var results []genResult
	for i, o := range outs {
		r := runGenerator(gen, o, pkgRoot, manFile, i)
		run.Count(gen+".generator_runs", 1)
		results = append(results, r)
		if !r.ok {
			detail["generator_output"] = trunc(r.log)
			detail["manifest"] = keepManifest(sp, gen, man)
			return "generator-failed/" + classifyGenFailure(r.log), detail
		}
	}
	// two types with the same simple name that were both moved to the conflictResolution package share one file name
	nameCount := map[string]int{}
	for _, t := range schema.Types {
		nameCount[t.Name]++
	}
	var overwritten []string
	for name, n := range nameCount {
		if _, ok := results[0].tree[filepath.Join("conflictResolution", name+".gr.go")]; ok && n > 1 {
			clashing := 0
			for rel := range results[0].tree {
				if filepath.Base(rel) == name+".gr.go" {
					clashing++
				}
			}
			if clashing < n {
				overwritten = append(overwritten, name)
			}
		}
	}
	sort.Strings(overwritten)
	if len(overwritten) > 0 {
		detail["types_sharing_one_file"] = overwritten
		detail["manifest"] = keepManifest(sp, gen, man)
		return "types-overwrite-each-other/same-simple-name-in-conflictResolution", detail
	}
	for i := 1; i < len(results); i++ {
		if d := diffTrees(results[0].tree, results[i].tree); len(d) > 0 {
			detail["tree_differences"] = d
			detail["manifest"] = keepManifest(sp, gen, man)
			return "nondeterministic-output", detail
		}
	}
	run.Count(gen+".files_generated", len(results[0].tree))
	for _, o := range outs[1:] {
		_ = os.RemoveAll(o)
	}
	ok, out := goBuild("./" + rel + "/...")
	run.Count(gen+".sets_compiled", 1)
	if !ok {
		class, first := classify(out)
		detail["first_error"] = first
		detail["compiler_output"] = trunc(out)
		detail["manifest"] = keepManifest(sp, gen, man)
		return "does-not-compile/" + class, detail
	}
	_ = os.RemoveAll(outs[0])
	return "", detail
}

func keepManifest(sp setSpec, gen string, man []byte) string {
	dir := filepath.Join(ev.Dir(), "replays")
	_ = os.MkdirAll(dir, 0o755)
	f := filepath.Join(dir, fmt.Sprintf("C12-%s-%s.manifest.json", gen, sp.name))
	_ = os.WriteFile(f, man, 0o644)
	return f
}

func main() {
	run := ev.Start("C12")
	defer run.Guard()
	run.Rule("case = (generation, schema set): kitchen sink, PRNG 'hard' sets (cyclic namespace references, equal simple names in several namespaces, recursion, complex keys, random resources), one probe per type constructor (31) in every position (18), identifier probes (legal schema names awkward in Go, observed only unless they are plain lower/upper-case words); per case six fresh generator processes (GOMAXPROCS 1/16/3, different working directory and TZ) must exit 0 and write byte-identical trees, and `go build` of the generated packages must succeed; the checked-in bindings (v2/restlidata/generated, v2/restlidata/PagingContext, root restlidata/*.gr.go) are regenerated in a scratch copy and must be byte-identical (or equal as comment-free syntax trees). distinct = distinct (generation, set class) that held")
	run.Assume("custom typerefs are not in the schema grammar (they need hand-written Go next to the generated code)", "a failing probe that puts one constructor in all positions is re-run position by position to attribute the failure")
	gen2Bin, gen1Bin, repo, workDir = os.Getenv("VERIF_GEN_BIN"), os.Getenv("VERIF_GEN1_BIN"), os.Getenv("VERIF_REPO"), ""
	workDir, _ = os.Getwd()
	if gen2Bin == "" || gen1Bin == "" || repo == "" {
		run.Inconclusive("generator binaries / repository location not provided by ./check")
		run.Finish()
	}
	var specs []setSpec
	specs = append(specs, setSpec{"ks", "kitchen", func(root string) *corpus.Schema {
		s := corpus.KitchenSink(root)
		corpus.AddKitchenResources(s)
		return s
	}})
	for i := 0; i < run.Pick(8, 200); i++ {
		i := i
		name := fmt.Sprintf("h%d", i)
		specs = append(specs, setSpec{name, "hard", func(root string) *corpus.Schema {
			return corpus.Hard(rand.New(rand.NewSource(run.Seed*7919+int64(i))), name, root, 14)
		}})
	}
	// sentinels: hard sets drawn from fixed generator seeds (not VERIF_SEED) that are known to need the cycle remediation
	// in an order-sensitive way (two overlapping cycles; a package-level cycle through unrelated types)
	for _, k := range []int64{7919 + 2, 7919 + 9, 7919 + 4, 7919*2 + 0, 7919 + 42, 7919 + 23} {
		k := k
		name := fmt.Sprintf("s%d", k)
		specs = append(specs, setSpec{name, "hard", func(root string) *corpus.Schema {
			return corpus.Hard(rand.New(rand.NewSource(k)), name, root, 14)
		}})
	}
	for i := 0; i < run.Pick(6, 80); i++ {
		i := i
		name := fmt.Sprintf("q%d", i)
		specs = append(specs, setSpec{name, "random", func(root string) *corpus.Schema {
			return corpus.Random(rand.New(rand.NewSource(run.Seed*104729+int64(i))), name, root, 12)
		}})
	}
	for ci := 0; ci < corpus.NumConstructors(); ci++ {
		ci := ci
		_, c, _ := corpus.Probe("x", "x", ci, nil)
		name := fmt.Sprintf("p%02d", ci)
		specs = append(specs, setSpec{name, "probe:" + c.Name, func(root string) *corpus.Schema {
			s, _, _ := corpus.Probe(name, root, ci, nil)
			return s
		}})
	}
	for v := 0; v < 4; v++ {
		v := v
		name := fmt.Sprintf("k%d", v)
		specs = append(specs, setSpec{name, "clash", func(root string) *corpus.Schema { return corpus.ClashProbe(name, root, v) }})
	}
	for i, p := range corpus.IdentProbes {
		if !run.Thorough() && (i+int(run.Seed))%3 != 0 && !alwaysProbed[p.Name] {
			continue
		}
		p := p
		name := fmt.Sprintf("i%03d", i)
		specs = append(specs, setSpec{name, "ident:" + p.Name, func(root string) *corpus.Schema { return corpus.IdentSchema(name, root, p) }})
	}
	type job struct {
		gen string
		sp  setSpec
	}
	var jobs []job
	for _, sp := range specs {
		for _, gen := range []string{"v2", "root"} {
			jobs = append(jobs, job{gen, sp})
		}
	}
	var wg sync.WaitGroup
	ch := make(chan job)
	var smu sync.Mutex
	samples := 0
	for w := 0; w < 6; w++ {
		wg.Add(1)
		go func() {
			defer wg.Done()
			for j := range ch {
				run.Eval(1)
				failure, detail := oneSet(run, j.gen, j.sp, true)
				classKind := strings.SplitN(j.sp.class, ":", 2)[0]
				if failure == "" {
					run.Distinct(j.gen + "|" + j.sp.class)
					run.Count(j.gen+"."+classKind+".held", 1)
					smu.Lock()
					if samples < 8 && detail != nil && (samples%2 == 0) == (j.gen == "v2") {
						samples++
						detail["outcome"] = "6 generator processes exit 0, identical trees, go build ok"
						run.Sample(detail)
					}
					smu.Unlock()
					continue
				}
				sig := j.gen + "/" + failure + "/" + classKind
				switch classKind {
				case "probe":
					// attribute to positions: re-run position by position
					var bad []string
					ci := 0
					fmt.Sscanf(j.sp.name, "p%d", &ci)
					for pi, pos := range corpus.ProbePositions {
						name := fmt.Sprintf("%sx%02d", j.sp.name, pi)
						sub := setSpec{name, j.sp.class + "@" + pos, func(root string) *corpus.Schema {
							s, _, _ := corpus.Probe(name, root, ci, []string{pos})
							return s
						}}
						if _, _, used := corpus.Probe(name, "x", ci, []string{pos}); len(used) == 0 {
							continue
						}
						run.Eval(1)
						f2, d2 := oneSet(run, j.gen, sub, false)
						if f2 != "" {
							bad = append(bad, pos)
							run.Violation(j.gen+"/"+f2+"/"+j.sp.class+"@"+pos, d2)
						}
					}
					if len(bad) == 0 {
						detail["note"] = "fails only with all positions together"
						run.Violation(sig+"/"+strings.SplitN(j.sp.class, ":", 2)[1], detail)
					}
				case "ident":
					run.Violation(j.gen+"/"+failure+"/"+j.sp.class, detail)
				default:
					run.Violation(sig, detail)
				}
			}
		}()
	}
	for _, j := range jobs {
		ch <- j
	}
	close(ch)
	wg.Wait()
	customTyperefs(run)
	checkedIn(run)
	run.Require("v2.custom_typeref_builds", 2)
	run.Require("v2.sets_compiled", 20)
	run.Require("root.sets_compiled", 20)
	run.Require("checked_in.files_compared", 10)
	run.Finish()
}

// ---------------------------------------------------------------------------------------------
// custom typerefs (v2): a hand-written Go type beside the generated code stands for a typeref; a second schema set is
// generated against the manifest the first generation wrote

const temperatureSource = `package units

import (
	"errors"
	"strings"

	"github.com/PapaCharlie/go-restli/v2/fnv1a"
)

// Temperature is hand written: it replaces the typeref units.Temperature (string on the wire, e.g. "21.5C").
type Temperature struct {
	Value string
	Unit  byte
}

func MarshalTemperature(t Temperature) (string, error) {
	if t.Unit == 0 {
		return "", errors.New("temperature without a unit")
	}
	return t.Value + string(t.Unit), nil
}

func UnmarshalTemperature(s string) (Temperature, error) {
	if s == "" || !strings.ContainsAny(s[len(s)-1:], "CFK") {
		return Temperature{}, errors.New("not a temperature: " + s)
	}
	return Temperature{s[:len(s)-1], s[len(s)-1]}, nil
}

func ComputeHashTemperature(t Temperature) fnv1a.Hash { return fnv1a.HashString(t.Value + string(t.Unit)) }

func EqualsTemperature(a, b Temperature) bool { return a == b }
`

func customTyperefs(run *ev.Run) {
	gen := "v2"
	temp, plain := corpus.R("units.Temperature"), corpus.R("units.Plain")
	str := corpus.P("string")
	lib := &corpus.Schema{Name: "ctlib", PackageRoot: "verifh/c12/v2/ctlib"}
	lib.Add(&corpus.TypeDef{Kind: "typeref", Name: "Temperature", Namespace: "units", Prim: "string"})
	lib.Add(&corpus.TypeDef{Kind: "typeref", Name: "Plain", Namespace: "units", Prim: "string"})
	lib.Add(&corpus.TypeDef{Kind: "record", Name: "Reading", Namespace: "units", Fields: []corpus.Field{
		corpus.F("t", temp), corpus.Opt("ot", temp), corpus.F("at", corpus.A(temp)), corpus.F("mt", corpus.M(temp)), corpus.Def("dt", temp, `"21C"`), corpus.F("p", plain), corpus.F("s", str)}})
	lib.Add(&corpus.TypeDef{Kind: "union", Name: "TU", Namespace: "units", Members: []corpus.Member{{Alias: "units.Temperature", Type: temp}, {Alias: "string", Type: str}}})
	reading := corpus.R("units.Reading")
	lib.Resources = append(lib.Resources, &corpus.Resource{Namespace: "units.readings", Segments: []corpus.PathSeg{{Name: "readings", KeyName: "temp", Key: &temp}}, Schema: &reading,
		Methods: []corpus.MethodSpec{{Kind: "REST_METHOD", Name: "get", OnEntity: true}, {Kind: "REST_METHOD", Name: "batch_get"}, {Kind: "REST_METHOD", Name: "create"},
			{Kind: "FINDER", Name: "near", Params: []corpus.Param{corpus.F("t", temp), corpus.Opt("ts", corpus.A(temp))}}}})
	app := &corpus.Schema{Name: "ctapp", PackageRoot: "verifh/c12/v2/ctapp"}
	app.Add(&corpus.TypeDef{Kind: "record", Name: "Forecast", Namespace: "model", Fields: []corpus.Field{
		corpus.F("high", temp), corpus.Opt("low", temp), corpus.F("hourly", corpus.A(temp)), corpus.F("byCity", corpus.M(temp)), corpus.F("label", plain), corpus.Opt("last", reading)}})
	forecast := corpus.R("model.Forecast")
	app.Resources = append(app.Resources, &corpus.Resource{Namespace: "model.forecasts", Segments: []corpus.PathSeg{{Name: "forecasts", KeyName: "at", Key: &temp}}, Schema: &forecast,
		Methods: []corpus.MethodSpec{{Kind: "REST_METHOD", Name: "get", OnEntity: true}, {Kind: "REST_METHOD", Name: "batch_get"}}})

	generate := func(s *corpus.Schema, rel string, deps []string, prepare func(out string)) (map[string]string, string) {
		man, err := s.ManifestV2()
		if err != nil {
			return nil, "manifest emitter: " + err.Error()
		}
		manFile := filepath.Join(workDir, "c12-manifests", gen, s.Name+".json")
		_ = os.MkdirAll(filepath.Dir(manFile), 0o755)
		_ = os.WriteFile(manFile, man, 0o644)
		out := filepath.Join(workDir, rel)
		_ = os.RemoveAll(out)
		_ = os.MkdirAll(out, 0o755)
		prepare(out)
		args := append([]string{out, manFile}, deps...)
		cmd := exec.Command(gen2Bin, args...)
		o, err := cmd.CombinedOutput()
		run.Count(gen+".generator_runs", 1)
		if err != nil {
			return nil, "generator failed: " + trunc(string(o))
		}
		tree, _ := treeHash(out)
		return tree, ""
	}
	restliDep := filepath.Join(repo, "v2/restlidata/generated/go-restli-manifest.gr.json")
	placeCustom := func(out string) {
		_ = os.MkdirAll(filepath.Join(out, "units"), 0o755)
		_ = os.WriteFile(filepath.Join(out, "units", "Temperature.go"), []byte(temperatureSource), 0o644)
	}
	desc := map[string]any{"generation": gen, "case": "custom typeref units.Temperature (hand-written units/Temperature.go) in a library set, used by an application set generated against the manifest the library generation wrote"}
	run.Eval(1)
	libRel := filepath.Join("c12", gen, "ctlib")
	t1, problem := generate(lib, libRel, []string{restliDep}, placeCustom)
	if problem != "" {
		desc["detail"] = problem
		run.Violation("v2/custom-typeref/library-generation-failed", desc)
		return
	}
	if t2, _ := generate(lib, libRel, []string{restliDep}, placeCustom); t2 != nil {
		if d := diffTrees(t1, t2); len(d) > 0 {
			desc["tree_differences"] = d
			run.Violation("v2/custom-typeref/nondeterministic-output", desc)
			return
		}
	}
	if _, err := os.Stat(filepath.Join(workDir, libRel, "units", "Temperature.go")); err != nil {
		run.Violation("v2/custom-typeref/hand-written-file-removed", desc)
		return
	}
	if ok, out := goBuild("./" + libRel + "/..."); !ok {
		_, first := classify(out)
		desc["first_error"], desc["compiler_output"] = first, trunc(out)
		run.Violation("v2/custom-typeref/library-does-not-compile", desc)
		return
	}
	run.Count("v2.custom_typeref_builds", 1)
	run.Eval(1)
	appRel := filepath.Join("c12", gen, "ctapp")
	libManifest := filepath.Join(workDir, libRel, "go-restli-manifest.gr.json")
	if _, problem := generate(app, appRel, []string{restliDep, libManifest}, func(string) {}); problem != "" {
		desc["detail"] = problem
		run.Violation("v2/custom-typeref/application-generation-failed", desc)
		return
	}
	if ok, out := goBuild("./" + appRel + "/..."); !ok {
		_, first := classify(out)
		desc["first_error"], desc["compiler_output"] = first, trunc(out)
		run.Violation("v2/custom-typeref/application-does-not-compile", desc)
		return
	}
	run.Count("v2.custom_typeref_builds", 1)
	run.Distinct("v2|custom-typeref")
	_ = os.RemoveAll(filepath.Join(workDir, libRel))
	_ = os.RemoveAll(filepath.Join(workDir, appRel))
}

// ---------------------------------------------------------------------------------------------
// checked-in bindings

func stripped(file string) (string, error) {
	fset := token.NewFileSet()
	f, err := parser.ParseFile(fset, file, nil, 0) // comments dropped
	if err != nil {
		return "", err
	}
	ast.SortImports(fset, f)
	var b bytes.Buffer
	err = printer.Fprint(&b, token.NewFileSet(), f)
	return b.String(), err
}

func checkedIn(run *ev.Run) {
	scratch, err := os.MkdirTemp("/var/tmp", "verif-c12-")
	if err != nil {
		run.Inconclusive("scratch: " + err.Error())
		return
	}
	defer func() {
		_ = exec.Command("chmod", "-R", "u+w", scratch).Run()
		_ = os.RemoveAll(scratch)
	}()
	cp := exec.Command("rsync", "-a", "--exclude", ".git", repo+"/", scratch+"/repo/")
	if out, err := cp.CombinedOutput(); err != nil {
		run.Inconclusive("scratch copy: " + string(out))
		return
	}
	_ = exec.Command("chmod", "-R", "u+w", scratch).Run()
	sr := filepath.Join(scratch, "repo")
	type regen struct {
		name string
		dir  string
		cmd  []string
		cmp  [][2]string // scratch path (relative to scratch repo), checked-in path (relative to repo)
	}
	regens := []regen{
		{"v2/restlidata/generated", sr, []string{gen2Bin, filepath.Join(sr, "v2/restlidata/generated"), filepath.Join(repo, "v2/restlidata/generated/go-restli-manifest.gr.json")}, [][2]string{{"v2/restlidata/generated", "v2/restlidata/generated"}}},
		{"v2/restlidata/PagingContext", filepath.Join(sr, "v2/restlidata"), []string{"go", "run", "../internal/pagingcontext"}, [][2]string{{"v2/restlidata/PagingContext.gr.go", "v2/restlidata/PagingContext.gr.go"}}},
		{"restlidata", sr, []string{"go", "run", "./internal/restlidata"}, [][2]string{{"restlidata", "restlidata"}}},
	}
	for _, rg := range regens {
		cmd := exec.Command(rg.cmd[0], rg.cmd[1:]...)
		cmd.Dir = rg.dir
		out, err := cmd.CombinedOutput()
		run.Eval(1)
		if err != nil {
			run.Violation("checked-in/regeneration-failed/"+rg.name, map[string]any{"command": strings.Join(rg.cmd, " "), "output": trunc(string(out))})
			continue
		}
		for _, pair := range rg.cmp {
			a, b := filepath.Join(sr, pair[0]), filepath.Join(repo, pair[1])
			var files []string
			if st, err := os.Stat(b); err == nil && st.IsDir() {
				seen := map[string]bool{}
				for _, root := range []string{a, b} {
					_ = filepath.WalkDir(root, func(p string, d fs.DirEntry, err error) error {
						if err == nil && !d.IsDir() && (strings.HasSuffix(p, ".gr.go") || strings.HasSuffix(p, ".gr.json")) {
							rel, _ := filepath.Rel(root, p)
							if !seen[rel] {
								seen[rel] = true
								files = append(files, rel)
							}
						}
						return nil
					})
				}
			} else {
				files = []string{""}
			}
			sort.Strings(files)
			for _, rel := range files {
				fa, fb := filepath.Join(a, rel), filepath.Join(b, rel)
				da, ea := os.ReadFile(fa)
				db, eb := os.ReadFile(fb)
				run.Eval(1)
				run.Count("checked_in.files_compared", 1)
				name := filepath.Join(pair[1], rel)
				switch {
				case ea != nil && eb == nil:
					run.Violation("checked-in/file-no-longer-generated/"+name, map[string]any{"file": name})
				case ea == nil && eb != nil:
					run.Violation("checked-in/file-missing/"+name, map[string]any{"file": name, "detail": "the generator writes this file but it is not checked in"})
				case bytes.Equal(da, db):
					run.Distinct("checked-in|" + name)
				case strings.HasSuffix(name, ".json"):
					run.Violation("checked-in/differs/"+name, map[string]any{"file": name})
				default:
					sa, e1 := stripped(fa)
					sb, e2 := stripped(fb)
					if e1 == nil && e2 == nil && sa == sb {
						run.Count("observed_only.checked_in_differs_only_in_comments_or_layout", 1)
						run.Distinct("checked-in|" + name)
					} else {
						d := exec.Command("diff", "-u", fb, fa)
						do, _ := d.CombinedOutput()
						run.Violation("checked-in/differs/"+name, map[string]any{"file": name, "diff_checked_in_vs_regenerated": trunc(string(do))})
					}
				}
			}
		}
	}
}
