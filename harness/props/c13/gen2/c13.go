// Generation-specific body of the C13 driver; props/c13/gen1 is derived from this file (derive.sh).
package gen2

import (
	"fmt"
	"math/rand"
	"reflect"
	"strings"

	"github.com/PapaCharlie/go-restli/v2/restlicodec"

	"verifh/bridge"
	codec "verifh/codec"
	"verifh/corpus"
	"verifh/ev"
	all "verifh/gen/all"
	"verifh/model"
	"verifh/refcodec"
)

const GENERATION = "v2"

// constructed is the reference value of NewXWithDefaultValues().
func constructed(s *corpus.Schema, td *corpus.TypeDef) *model.Value {
	v := &model.Value{Kind: model.KRecord, Fields: map[string]*model.Value{}}
	for _, f := range s.AllFields(td) {
		switch {
		case f.Default != nil:
			d, err := refcodec.DecodeJSON(s, f.Type, []byte(*f.Default), refcodec.DecodeOpts{})
			if err != nil {
				panic(err)
			}
			v.Fields[f.Name] = refcodec.FillDefaults(s, f.Type, d)
		case f.Optional:
		default:
			_, ftd := model.Resolve(s, f.Type)
			if ftd != nil && ftd.Kind == "record" && f.Type.Ref != "" && s.HasDefault(ftd) {
				v.Fields[f.Name] = constructed(s, ftd)
			} else {
				v.Fields[f.Name] = refcodec.ZeroValue(s, f.Type)
			}
		}
	}
	return v
}

// zeroLike is a supplied value that a sloppy "is it set?" test could mistake for "absent".
func zeroLike(s *corpus.Schema, t corpus.TypeExpr) *model.Value {
	et, td := model.Resolve(s, t)
	if td == nil {
		if et.Prim == "string" {
			return model.String("")
		}
		if et.Prim == "bytes" {
			return &model.Value{Kind: model.KBytes}
		}
		return refcodec.ZeroValue(s, t)
	}
	switch td.Kind {
	case "enum", "fixed", "union":
		return model.Simplest(s, t, 0)
	}
	return model.Simplest(s, t, 0)
}

func defaultedFields(s *corpus.Schema, td *corpus.TypeDef) []corpus.Field {
	var out []corpus.Field
	for _, f := range s.AllFields(td) {
		if f.Default != nil {
			out = append(out, f)
		}
	}
	return out
}

func trunc(s string) string {
	if len(s) > 400 {
		return s[:400] + "..."
	}
	return s
}

func untyped(tree any) any {
	switch x := tree.(type) {
	case map[string]any:
		c := map[string]any{}
		for k, v := range x {
			c[k] = untyped(v)
		}
		return c
	case []any:
		c := make([]any, len(x))
		for i, v := range x {
			c[i] = untyped(v)
		}
		return c
	}
	return tree
}

func Run(run *ev.Run) {
	run.Rule("case kinds: constructor (type), decode (type, base value, per-defaulted-field mode in {omitted, zero-like/empty, random}, reader in {json, ror2, untyped}; all 2^n omit-subsets for n<=8 defaulted fields), aliasing (type, source of the two instances). " +
		"Expected values come from decoding the manifest's default literal with the reference decoder. distinct = distinct (type, mode vector, reader); non-trivial = at least one defaulted field omitted or supplied with a zero-like value")
	run.Assume("the reference reading of a default literal (bytes/fixed: one code point per byte)", "both generations: the root module through types-only bindings written by its own generator from the same schema sets")
	rng := rand.New(rand.NewSource(run.Seed + 13))
	reps := run.Pick(12, 120)
	for _, set := range all.Sets {
		if err := set.SelfCheck(model.NewGen(set.Schema, rand.New(rand.NewSource(run.Seed+7))), 10); err != nil {
			run.Inconclusive("bridge self-check failed on set " + set.Name + ": " + err.Error())
			return
		}
	}
	for _, set := range all.Sets {
		s := set.Schema
		g := model.NewGen(s, rng)
		g.Hostile = 0.15
		for _, td := range s.Types {
			if td.Kind == "complexkey" && s.Lookup(td.Key) != nil && s.HasDefault(s.Lookup(td.Key)) {
				complexKeyDefaults(run, set, td, g, rng)
			}
			if td.Kind != "record" || !s.HasDefault(td) {
				continue
			}
			full := td.FullName()
			t := corpus.R(full)
			// (a) constructor
			run.Eval(1)
			ctor := set.NewWithDefaults[full]
			want := constructed(s, td)
			if ctor == nil {
				run.Violation(GENERATION+"/constructor/missing", map[string]any{"type": full, "detail": "record with defaulted fields has no NewXWithDefaultValues"})
			} else {
				got, err := set.Read(reflect.ValueOf(ctor()).Elem(), t)
				if err != nil {
					run.Inconclusive("bridge read: " + err.Error())
				} else if d := model.Diff(want, got, ""); d != "" {
					run.Violation(GENERATION+"/constructor/"+whichField(s, td, d), map[string]any{"generation": GENERATION, "set": set.Name, "type": full, "detail": d, "expected": model.Show(want), "constructed": model.Show(got)})
				} else {
					run.Count("constructors_checked", 1)
					run.Distinct("ctor|" + full)
				}
			}
			// (b) decode with every omit/supply combination
			dfs := defaultedFields(s, td)
			n := len(dfs)
			var masks []uint64
			if n <= 8 {
				for m := uint64(0); m < 1<<uint(n); m++ {
					masks = append(masks, m)
				}
			} else {
				masks = append(masks, 0, 1<<uint(n)-1)
				for i := 0; i < 200; i++ {
					masks = append(masks, rng.Uint64()&(1<<uint(n)-1))
				}
			}
			for rep := 0; rep < reps; rep++ {
				base := g.Value(t, 0)
				for mi, omit := range masks {
					if rep > 0 && n > 4 && (mi+rep)%4 != 0 {
						continue
					}
					v := model.Clone(base)
					var modes []string
					for i, f := range dfs {
						switch {
						case omit&(1<<uint(i)) != 0:
							delete(v.Fields, f.Name)
							modes = append(modes, "omit")
						case (mi+i+rep)%2 == 0:
							v.Fields[f.Name] = zeroLike(s, f.Type)
							modes = append(modes, "zero")
						default:
							v.Fields[f.Name] = g.Value(f.Type, 1)
							modes = append(modes, "rand")
						}
					}
					expected := refcodec.FillDefaults(s, t, v)
					tree := refcodec.ToTree(s, t, v)
					docs := []struct {
						reader string
						doc    string
						decode func() (reflect.Value, error)
					}{
						{"json", refcodec.TreeJSON(tree, rng), nil},
						{"ror2", refcodec.TreeROR2(tree, refcodec.Header, rng), nil},
						{"untyped", fmt.Sprint(tree), nil},
					}
					docs[0].decode = func() (reflect.Value, error) {
						return codec.Decode(codec.FormatByName("json-compact"), set, full, docs[0].doc)
					}
					docs[1].decode = func() (reflect.Value, error) {
						return codec.Decode(codec.FormatByName("ror2-header"), set, full, docs[1].doc)
					}
					docs[2].decode = func() (reflect.Value, error) {
						return codec.DecodeWith(restlicodec.NewInterfaceReader(untyped(tree)), set.New(full))
					}
					for _, d := range docs {
						run.Eval(1)
						run.Count("decodes."+d.reader, 1)
						desc := map[string]any{"generation": GENERATION, "set": set.Name, "type": full, "reader": d.reader, "modes": strings.Join(modes, ","), "document": trunc(d.doc)}
						p, err := d.decode()
						if err != nil {
							desc["error"] = err.Error()
							if fields, ok := codec.IsMissingFields(err); ok {
								desc["reported_missing"] = fields
								run.Violation(GENERATION+"/decode/"+d.reader+"/defaulted-field-reported-missing", desc)
							} else if _, ok := err.(*codec.PanicError); ok {
								run.Violation(GENERATION+"/decode/"+d.reader+"/panic", desc)
							} else {
								run.Violation(GENERATION+"/decode/"+d.reader+"/error", desc)
							}
							continue
						}
						got, err := set.Read(p.Elem(), t)
						if err != nil {
							run.Inconclusive("bridge read: " + err.Error())
							continue
						}
						if diff := model.Diff(expected, got, ""); diff != "" {
							desc["detail"] = diff
							fld, mode := fieldMode(diff, dfs, modes)
							run.Violation(fmt.Sprintf(GENERATION+"/decode/%s/%s/%s", d.reader, mode, fieldShape(s, td, fld)), desc)
							continue
						}
						if strings.Contains(strings.Join(modes, ","), "omit") || strings.Contains(strings.Join(modes, ","), "zero") {
							run.Distinct(fmt.Sprintf("%s|%s|%s", full, strings.Join(modes, ""), d.reader))
						}
						if rep == 0 && mi == 1 && d.reader == "json" {
							run.Sample(map[string]any{"type": full, "modes": modes, "document": trunc(d.doc), "decoded": trunc(model.Show(got))})
						}
					}
				}
			}
			// (b2) documents that also lack a required field: lenient callers receive the instance, so its defaults must be there
			incomplete(run, set, td, g, rng, dfs)
			// (c) aliasing
			aliasing(run, set, td, want)
		}
	}
	run.Require("constructors_checked", 3)
	run.Require("decodes.json", 200)
	run.Require("aliasing_probes", 3)
	run.Require("incomplete_decodes", 20)
}

// complexKeyDefaults: a complex key is decoded like the record it wraps; key fields the document omits carry their
// defaults, supplied ones win.
func complexKeyDefaults(run *ev.Run, set *bridge.Set, td *corpus.TypeDef, g *model.Gen, rng *rand.Rand) {
	s := set.Schema
	full := td.FullName()
	t := corpus.R(full)
	key := s.Lookup(td.Key)
	dfs := defaultedFields(s, key)
	for rep := 0; rep < run.Pick(6, 40); rep++ {
		v := g.Value(t, 0)
		var modes []string
		for i, f := range dfs {
			if (rep+i)%3 != 2 {
				delete(v.Fields, f.Name)
				modes = append(modes, "omit")
			} else {
				v.Fields[f.Name] = g.Value(f.Type, 1)
				modes = append(modes, "rand")
			}
		}
		expected := refcodec.FillDefaults(s, t, v)
		tree := refcodec.ToTree(s, t, v)
		for _, rd := range []string{"json", "ror2", "untyped"} {
			run.Eval(1)
			run.Count("complex_key_decodes", 1)
			var doc string
			var p reflect.Value
			var err error
			switch rd {
			case "json":
				doc = refcodec.TreeJSON(tree, rng)
				p, err = codec.Decode(codec.FormatByName("json-compact"), set, full, doc)
			case "ror2":
				doc = refcodec.TreeROR2(tree, refcodec.Header, rng)
				p, err = codec.Decode(codec.FormatByName("ror2-header"), set, full, doc)
			default:
				doc = fmt.Sprint(tree)
				p, err = codec.DecodeWith(restlicodec.NewInterfaceReader(untyped(tree)), set.New(full))
			}
			desc := map[string]any{"generation": GENERATION, "set": set.Name, "type": full, "reader": rd, "modes": strings.Join(modes, ","), "document": trunc(doc)}
			if err != nil {
				desc["error"] = err.Error()
				run.Violation(GENERATION+"/complex-key/"+rd+"/error", desc)
				continue
			}
			got, rerr := set.Read(p.Elem(), t)
			if rerr != nil {
				run.Inconclusive("bridge read: " + rerr.Error())
				continue
			}
			if d := model.Diff(expected, got, ""); d != "" {
				desc["detail"] = d
				run.Violation(GENERATION+"/complex-key/"+rd+"/defaults-of-the-key-record", desc)
				continue
			}
			run.Distinct(fmt.Sprintf("complexkey|%s|%s|%s", full, strings.Join(modes, ""), rd))
		}
	}
}

// incomplete decodes documents that omit a required field (top level, or inside a required record field) together with
// defaulted fields. The decoder reports the missing field, but the instance it filled is what a lenient client hands to
// the caller: every omitted defaulted field must carry its default, every supplied one the supplied value.
func incomplete(run *ev.Run, set *bridge.Set, td *corpus.TypeDef, g *model.Gen, rng *rand.Rand, dfs []corpus.Field) {
	s := set.Schema
	full := td.FullName()
	t := corpus.R(full)
	type drop struct{ outer, inner string }
	var drops []drop
	for _, f := range s.AllFields(td) {
		if f.Optional || f.Default != nil {
			continue
		}
		drops = append(drops, drop{f.Name, ""})
		if _, ftd := model.Resolve(s, f.Type); ftd != nil && ftd.Kind == "record" && f.Type.Ref != "" {
			for _, nf := range s.AllFields(ftd) {
				if !nf.Optional && nf.Default == nil {
					drops = append(drops, drop{f.Name, nf.Name})
					break
				}
			}
		}
	}
	if len(drops) == 0 {
		return
	}
	for rep := 0; rep < run.Pick(3, 12); rep++ {
		base := g.Value(t, 0)
		for di, dr := range drops {
			v := model.Clone(base)
			var modes []string
			for i, f := range dfs {
				if (rep+i+di)%3 != 2 {
					delete(v.Fields, f.Name)
					modes = append(modes, "omit")
				} else {
					v.Fields[f.Name] = g.Value(f.Type, 1)
					modes = append(modes, "rand")
				}
			}
			expected := refcodec.FillDefaults(s, t, v)
			where := "top-level"
			if dr.inner == "" {
				delete(v.Fields, dr.outer)
			} else if in := v.Fields[dr.outer]; in != nil && in.Kind == model.KRecord {
				in = model.Clone(in)
				delete(in.Fields, dr.inner)
				v.Fields[dr.outer] = in
				where = "nested"
			} else {
				continue
			}
			tree := refcodec.ToTree(s, t, v)
			for _, rd := range []string{"json", "ror2", "untyped"} {
				run.Eval(1)
				var doc string
				var p reflect.Value
				var err error
				switch rd {
				case "json":
					doc = refcodec.TreeJSON(tree, rng)
					p, err = codec.Decode(codec.FormatByName("json-compact"), set, full, doc)
				case "ror2":
					doc = refcodec.TreeROR2(tree, refcodec.Header, rng)
					p, err = codec.Decode(codec.FormatByName("ror2-header"), set, full, doc)
				default:
					doc = fmt.Sprint(tree)
					p, err = codec.DecodeWith(restlicodec.NewInterfaceReader(untyped(tree)), set.New(full))
				}
				desc := map[string]any{"generation": GENERATION, "set": set.Name, "type": full, "reader": rd, "modes": strings.Join(modes, ","),
					"dropped_required_field": dr.outer + map[bool]string{true: "", false: "." + dr.inner}[dr.inner == ""], "document": trunc(doc)}
				fields, isMissing := codec.IsMissingFields(err)
				if !isMissing {
					// whether and how the absent required field is reported is C06's subject; nothing to observe here
					run.Count("incomplete_not_reported_as_missing", 1)
					continue
				}
				bad := false
				for _, mf := range fields {
					for _, f := range dfs {
						if dr.inner == "" && mf == f.Name {
							bad = true
						}
					}
				}
				desc["reported_missing"] = fields
				if bad {
					run.Violation(GENERATION+"/incomplete/"+rd+"/defaulted-field-reported-missing", desc)
					continue
				}
				got, rerr := set.Read(p.Elem(), t)
				if rerr != nil {
					run.Inconclusive("bridge read: " + rerr.Error())
					continue
				}
				ok := true
				for i, f := range dfs {
					if d := model.Diff(expected.Fields[f.Name], got.Fields[f.Name], "."+f.Name); d != "" {
						desc["detail"] = d
						run.Violation(fmt.Sprintf(GENERATION+"/incomplete/%s/%s/%s/%s", rd, where, modes[i], fieldShape(s, td, f.Name)), desc)
						ok = false
						break
					}
				}
				if ok {
					run.Count("incomplete_decodes", 1)
					run.Distinct(fmt.Sprintf("incomplete|%s|%s|%s|%s", full, where, strings.Join(modes, ""), rd))
				}
			}
		}
	}
}

func whichField(s *corpus.Schema, td *corpus.TypeDef, diff string) string {
	name := strings.TrimPrefix(strings.SplitN(diff, ":", 2)[0], ".")
	name = strings.SplitN(strings.SplitN(name, ".", 2)[0], "[", 2)[0]
	name = strings.SplitN(name, "<", 2)[0]
	return fieldShape(s, td, name)
}

func fieldMode(diff string, dfs []corpus.Field, modes []string) (string, string) {
	name := strings.TrimPrefix(strings.SplitN(diff, ":", 2)[0], ".")
	name = strings.SplitN(strings.SplitN(name, ".", 2)[0], "[", 2)[0]
	name = strings.SplitN(name, "<", 2)[0]
	for i, f := range dfs {
		if f.Name == name {
			return name, modes[i]
		}
	}
	return name, "other-field"
}

// fieldShape classifies the field for signatures: own / inherited + type shape.
func fieldShape(s *corpus.Schema, td *corpus.TypeDef, name string) string {
	own := false
	var ft *corpus.TypeExpr
	for _, f := range td.Fields {
		if f.Name == name {
			own = true
		}
	}
	for _, f := range s.AllFields(td) {
		if f.Name == name {
			f := f
			ft = &f.Type
		}
	}
	where := "inherited"
	if own {
		where = "own"
	}
	if ft == nil {
		return "unknown-field"
	}
	et, ftd := model.Resolve(s, *ft)
	shape := "?"
	switch {
	case ftd != nil:
		shape = ftd.Kind
	case et.Prim != "":
		shape = et.Prim
	case et.Array != nil:
		shape = "array"
	default:
		shape = "map"
	}
	return where + ":" + shape
}

// aliasing mutates the default-populated containers of instance A in place and checks B and a later C.
func aliasing(run *ev.Run, set *bridge.Set, td *corpus.TypeDef, want *model.Value) {
	s := set.Schema
	full := td.FullName()
	t := corpus.R(full)
	sources := map[string]func() reflect.Value{
		"decoded-from-empty-of-defaults": func() reflect.Value {
			v := model.Simplest(s, t, 0)
			p, _ := codec.BuildGo(set, full, v)
			doc, _ := codec.Encode(codec.FormatByName("json-compact"), p)
			q, _ := codec.Decode(codec.FormatByName("json-compact"), set, full, doc)
			return q
		},
	}
	if ctor := set.NewWithDefaults[full]; ctor != nil {
		sources["constructor"] = func() reflect.Value { return reflect.ValueOf(ctor()) }
	}
	for name, mk := range sources {
		a, b := mk(), mk()
		if !a.IsValid() || !b.IsValid() || a.IsNil() || b.IsNil() {
			continue
		}
		before, err := set.Read(b.Elem(), t)
		if err != nil {
			continue
		}
		mutated := 0
		for _, f := range defaultedFields(s, td) {
			fa := fieldByPath(a.Elem(), s, td, f.Name)
			if !fa.IsValid() || fa.Kind() != reflect.Ptr || fa.IsNil() {
				continue
			}
			mutated += scribble(fa.Elem())
		}
		run.Eval(1)
		run.Count("aliasing_probes", 1)
		after, _ := set.Read(b.Elem(), t)
		c := mk()
		later, _ := set.Read(c.Elem(), t)
		desc := map[string]any{"generation": GENERATION, "set": set.Name, "type": full, "instances_from": name, "containers_mutated": mutated}
		if d := model.Diff(before, after, ""); d != "" {
			desc["detail"] = d
			run.Violation(GENERATION+"/aliasing/sibling-instance-changed/"+whichField(s, td, d), desc)
		} else if d := model.Diff(before, later, ""); d != "" {
			desc["detail"] = d
			run.Violation(GENERATION+"/aliasing/later-instance-changed/"+whichField(s, td, d), desc)
		} else if mutated > 0 {
			run.Distinct("alias|" + full + "|" + name)
		}
	}
}

func fieldByPath(rec reflect.Value, s *corpus.Schema, td *corpus.TypeDef, name string) reflect.Value {
	return rec.FieldByName(corpus.GoFieldName(name)) // promoted through embedded includes
}

// scribble mutates arrays / maps / byte slices / nested pointers in place; returns how many containers it touched.
func scribble(v reflect.Value) int {
	n := 0
	switch v.Kind() {
	case reflect.Slice:
		if v.Len() > 0 {
			e := v.Index(0)
			n += 1
			switch e.Kind() {
			case reflect.Uint8:
				e.SetUint(uint64(e.Uint()) ^ 0x5a)
			case reflect.String:
				e.SetString(e.String() + "~mutated")
			case reflect.Int32, reflect.Int64:
				e.SetInt(e.Int() + 12345)
			case reflect.Float32, reflect.Float64:
				e.SetFloat(e.Float() + 12345)
			case reflect.Bool:
				e.SetBool(!e.Bool())
			default:
				n += scribble(e) - 1 + 1
			}
		}
	case reflect.Map:
		if v.IsNil() {
			return 0
		}
		n++
		k := reflect.ValueOf("~mutated-key").Convert(v.Type().Key())
		v.SetMapIndex(k, reflect.Zero(v.Type().Elem()))
		for _, key := range v.MapKeys() {
			e := v.MapIndex(key)
			if e.Kind() == reflect.Ptr || e.Kind() == reflect.Slice || e.Kind() == reflect.Map {
				n += scribble(e)
			}
		}
	case reflect.Ptr:
		if !v.IsNil() {
			n += scribble(v.Elem())
		}
	case reflect.Struct:
		for i := 0; i < v.NumField(); i++ {
			f := v.Field(i)
			if f.CanSet() || f.Kind() == reflect.Ptr || f.Kind() == reflect.Slice || f.Kind() == reflect.Map {
				switch f.Kind() {
				case reflect.String:
					if f.CanSet() {
						f.SetString(f.String() + "~m")
						n++
					}
				case reflect.Ptr, reflect.Slice, reflect.Map, reflect.Struct:
					n += scribble(f)
				}
			}
		}
	case reflect.Array:
		if v.Len() > 0 && v.Index(0).Kind() == reflect.Uint8 && v.Index(0).CanSet() {
			v.Index(0).SetUint(uint64(v.Index(0).Uint()) ^ 0x5a)
			n++
		}
	}
	return n
}
