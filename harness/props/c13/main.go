// C13 — schema default values are applied, never override data, never shared.
//
// Monitors: (a) NewXWithDefaultValues() instances read back through the bridge must carry the reference
// decoding of every default literal (own, nested, inherited); (b) documents that omit / supply (with zero-like,
// empty and random values) every subset of defaulted fields are decoded by the JSON, ROR2 and untyped readers
// and must yield "default where omitted, supplied value where present", with no missing-field report;
// (c) aliasing probe: default-populated arrays / maps / bytes of one instance are mutated in place through
// reflection and sibling / later instances must not change.
package main

import (
	"verifh/ev"
	"verifh/props/c13/gen1"
	"verifh/props/c13/gen2"
)

func main() {
	run := ev.Start("C13")
	defer run.Guard()
	gen2.Run(run)
	gen1.Run(run)
	run.Set("generations", []string{"v2", "root"})
	run.Finish()
}
