// Package gen2 holds the generation-specific half of the C14 driver (derived to gen1 for the root module).
package gen2

import (
	"bytes"
	"fmt"
	"io"
	"math/rand"
	"mime/multipart"
	"net"
	"net/http"
	"net/textproto"
	"net/url"
	"reflect"
	"strings"

	"verifh/ev"
	kit "verifh/props/hw/gen2"
)

const GENERATION = "v2"

func refQueryEscape(s string) string {
	var b strings.Builder
	for i := 0; i < len(s); i++ {
		c := s[i]
		if c >= 'a' && c <= 'z' || c >= 'A' && c <= 'Z' || c >= '0' && c <= '9' || c == '-' || c == '.' || c == '_' || c == '~' {
			b.WriteByte(c)
		} else {
			fmt.Fprintf(&b, "%%%02X", c)
		}
	}
	return b.String()
}

type call struct {
	HTTP, Restli, Path string
	HasBody            bool
	Extra              string // query prefix needed by the method (q=..., ids=..., action=...)
}

var calls = []call{
	{"GET", "get", "/things/k1", false, ""},
	{"GET", "get_all", "/things", false, ""},
	{"GET", "finder", "/things", false, "q=f"},
	{"GET", "batch_get", "/things", false, "ids=List(a,b)"},
	{"DELETE", "delete", "/things/k1", false, ""},
	{"DELETE", "batch_delete", "/things", false, "ids=List(a,b)"},
	{"PUT", "update", "/things/k1", true, ""},
	{"POST", "partial_update", "/things/k1", true, ""},
	{"POST", "create", "/things", true, ""},
	{"POST", "action", "/things", true, "action=act"},
	{"POST", "action", "/things/k1", true, "action=eact"},
	// a simple resource (routing there leans on the verb even when the method header is present) and a sub-resource
	{"GET", "get", "/single", false, ""},
	{"DELETE", "delete", "/single", false, ""},
	{"PUT", "update", "/single", true, ""},
	{"POST", "partial_update", "/single", true, ""},
	{"POST", "action", "/single", true, "action=sact"},
	{"GET", "get", "/things/k1/parts/p1", false, ""},
	{"PUT", "update", "/things/k1/parts/p1", true, ""},
	// keys whose escaped form matters (seed C14m: the de-tunnelled request line rebuilt from the decoded path)
	{"GET", "get", "/things/a%2Fb", false, ""},
	{"PUT", "update", "/things/100%25", true, ""},
	{"DELETE", "delete", "/things/%28a%3A1%2Cb%3A2%29", false, ""},
	{"GET", "get", "/things/a%2Fb/parts/p%251", false, ""},
	{"POST", "action", "/things/x%25y%2Fz", true, "action=eact"},
}

func headerSubset(h http.Header) map[string][]string {
	out := map[string][]string{}
	for _, k := range []string{"Content-Type", "X-Restli-Method", "X-Restli-Protocol-Version", "Accept", "X-Verif-Req", "X-Http-Method-Override"} {
		if v, ok := h[k]; ok {
			out[k] = v
		}
	}
	return out
}

func Run(run *ev.Run) {
	g := GENERATION
	rng := rand.New(rand.NewSource(run.Seed + 14))
	rec := &kit.Recorder{}
	srv := kit.NewServer(nil)
	kit.Register(srv, kit.ResourceSpec{
		Segments: []kit.Segment{{Name: "things", IsCollection: true}},
		Methods:  []string{"get", "get_all", "batch_get", "delete", "batch_delete", "update", "partial_update", "create"},
		Finders:  []string{"f"},
		Actions:  []kit.ActionSpec{{Name: "act"}, {Name: "eact", OnEntity: true}},
	}, rec)
	kit.Register(srv, kit.ResourceSpec{Segments: []kit.Segment{{Name: "single"}}, Methods: []string{"get", "update", "partial_update", "delete"}, Actions: []kit.ActionSpec{{Name: "sact"}}}, rec)
	kit.Register(srv, kit.ResourceSpec{Segments: []kit.Segment{{Name: "things", IsCollection: true}, {Name: "parts", IsCollection: true}}, Methods: []string{"get", "update"}}, rec)
	ln, err := net.Listen("tcp", "127.0.0.1:0")
	if err != nil {
		run.Inconclusive("cannot listen on loopback: " + err.Error())
		return
	}
	hs := &http.Server{Handler: srv.Handler(), MaxHeaderBytes: 8 << 20}
	go hs.Serve(ln)
	defer hs.Close()
	base, _ := url.Parse("http://" + ln.Addr().String())

	// ---- A. codec pair ----------------------------------------------------------------------
	queryValues := []string{"x", "a b", "a&b=c", "100%", "\r\n", "\r\n--boundary\r\nContent-Type: application/json\r\n\r\n{}", "é日本", "=", "&", "%0D%0A", "+", "''", "List(1,2)", strings.Repeat("y", 5000)}
	bodies := [][]byte{nil, {}, []byte(`{}`), []byte(`{"a":"b"}`), []byte("{\"t\":\"\\r\\n--x\\r\\n\"}"), []byte("--boundary\r\nContent-Type: application/x-www-form-urlencoded\r\n\r\nq=evil\r\n--boundary--\r\n"),
		[]byte("{\"a\":\"\r\n--\r\n\"}"), bytes.Repeat([]byte(`{"k":"v"} `), 6000)}
	if run.Thorough() {
		// PRNG extension of the fixed lists: values glued together from the fragments that matter to the multipart and
		// form encodings (boundaries, CR / LF, percent signs, separators, non-ASCII), bodies that look like parts
		frag := []string{"a", "&", "=", "%", "%0D%0A", "\r\n", "--", "--boundary", "\r\nContent-Type: application/json\r\n\r\n", "é", "日", "+", " ", ";", "\"", "List(", ")", ",", "'", "\x00", "\x7f", strings.Repeat("q", 300)}
		for i := 0; i < 60; i++ {
			var b strings.Builder
			for j := 0; j < 1+rng.Intn(6); j++ {
				b.WriteString(frag[rng.Intn(len(frag))])
			}
			queryValues = append(queryValues, b.String())
		}
		for i := 0; i < 12; i++ {
			var b strings.Builder
			b.WriteString(`{"v":"`)
			for j := 0; j < 1+rng.Intn(8); j++ {
				f := frag[rng.Intn(len(frag))]
				f = strings.NewReplacer("\"", "\\\"", "\r", "\\r", "\n", "\\n", "\x00", "\\u0000", "\x7f", "\\u007f").Replace(f)
				b.WriteString(f)
			}
			b.WriteString(`"}`)
			bodies = append(bodies, []byte(b.String()))
		}
	}
	var prevEncoded, prevCopy []byte
	for _, m := range []string{"GET", "PUT", "DELETE", "POST"} {
		for _, qv := range queryValues {
			for bi, body := range bodies {
				q := "p=" + refQueryEscape(qv)
				if rng.Intn(3) == 0 {
					q = "ids=List(" + refQueryEscape(qv) + ")&z=" + refQueryEscape(qv)
				}
				run.Eval(1)
				nb, hdr := kit.EncodeTunnelled(m, q, body)
				// requests are built before they are sent: the bytes handed out for the previous request must not be
				// affected by building this one
				if prevEncoded != nil && !bytes.Equal(prevEncoded, prevCopy) {
					run.Violation(g+"/codec/encoded-request-changed-by-a-later-encode", map[string]any{"generation": g, "part": "codec pair", "earlier_request_now": trunc(string(prevEncoded)), "earlier_request_was": trunc(string(prevCopy))})
				}
				prevEncoded, prevCopy = nb, append([]byte(nil), nb...)
				run.Count("encode_aliasing_checks", 1)
				req, _ := http.NewRequest("POST", "http://h/things", bytes.NewReader(nb))
				for k := range hdr {
					req.Header.Set(k, hdr.Get(k))
				}
				req.Header.Set("X-RestLi-Method", "get")
				err := kit.DecodeTunnelled(req)
				desc := map[string]any{"generation": g, "verb": m, "query": q, "body": trunc(string(body)), "part": "codec pair"}
				if err != nil {
					desc["error"] = err.Error()
					run.Violation(g+"/codec/decode-error", desc)
					continue
				}
				var got []byte
				if req.Body != nil {
					got, _ = io.ReadAll(req.Body)
				}
				ct := req.Header.Get("Content-Type")
				switch {
				case req.Method != m:
					desc["got_verb"] = req.Method
					run.Violation(g+"/codec/verb", desc)
				case req.URL.RawQuery != q:
					desc["got_query"] = trunc(req.URL.RawQuery)
					run.Violation(g+"/codec/query", desc)
				case !bytes.Equal(got, body) && !(len(got) == 0 && len(body) == 0):
					desc["got_body"] = trunc(string(got))
					run.Violation(g+"/codec/body", desc)
				case len(body) > 0 && ct != "application/json":
					desc["got_content_type"] = ct
					run.Violation(g+"/codec/content-type", desc)
				case len(body) == 0 && ct != "":
					desc["got_content_type"] = ct
					run.Violation(g+"/codec/content-type", desc)
				case req.Header.Get("X-HTTP-Method-Override") != "":
					run.Violation(g+"/codec/override-header-left", desc)
				case req.Header.Get("X-RestLi-Method") != "get":
					run.Violation(g+"/codec/restli-header-lost", desc)
				}
				run.Count("codec_pairs", 1)
				if bi > 1 {
					run.Distinct(fmt.Sprintf("%s|codec|%s|%s|%d", g, m, refQueryEscape(qv), bi))
				}
			}
		}
	}

	// ---- B. end to end: tunnelled vs untunnelled snapshots, threshold predicate ------------------
	reqN := 0
	// a front end that answers every request with a 307 to the real server: net/http then sends the request a second
	// time, from the copy of the body it keeps for that purpose
	rln, rerr := net.Listen("tcp", "127.0.0.1:0")
	if rerr != nil {
		run.Inconclusive("cannot listen on loopback: " + rerr.Error())
		return
	}
	rs := &http.Server{Handler: http.HandlerFunc(func(w http.ResponseWriter, r *http.Request) {
		io.Copy(io.Discard, r.Body)
		http.Redirect(w, r, base.String()+r.URL.RequestURI(), http.StatusTemporaryRedirect)
	}), MaxHeaderBytes: 8 << 20}
	go rs.Serve(rln)
	defer rs.Close()
	redirBase, _ := url.Parse("http://" + rln.Addr().String())
	viaRedirect := false
	do := func(c call, q string, body []byte, threshold int, chunked bool) (*kit.Wire, []kit.Invocation, error) {
		reqN++
		cl := &kit.Caller{Base: base, Threshold: threshold}
		if viaRedirect {
			cl.Base = redirBase
		}
		if chunked {
			cl.Transport = chunkedTransport{}
		}
		full := q
		if c.Extra != "" {
			if full != "" {
				full = c.Extra + "&" + full
			} else {
				full = c.Extra
			}
		}
		var qp *string
		if full != "" {
			qp = &full
		}
		var b []byte
		if c.HasBody {
			b = body
			if b == nil {
				b = []byte(`{}`)
			}
		}
		rec.Drain()
		w, err := cl.Do(c.HTTP, c.Restli, strings.SplitN(strings.TrimPrefix(c.Path, "/"), "/", 2)[0], c.Path, qp, b, http.Header{"X-Verif-Req": {fmt.Sprint(reqN)}})
		return w, rec.Drain(), err
	}
	paramValues := []string{"", "x", "a&b=c", "\r\n", "--b\r\n", "100%", strings.Repeat("z", 40), "é", strings.Repeat("w", 3000)}
	e2eBodies := [][]byte{[]byte(`{}`), []byte(`{"a":"\r\n--x--\r\n"}`), bytes.Repeat([]byte(`{"k":"v"} `), 700)}
	if run.Thorough() {
		frag := []string{"a", "&", "=", "%", "%0D%0A", "\r\n", "--", "--b", "é", "日", "+", " ", ";", "List(", ")", ",", "'", strings.Repeat("r", 50)}
		for i := 0; i < 40; i++ {
			var b strings.Builder
			for j := 0; j < 1+rng.Intn(6); j++ {
				b.WriteString(frag[rng.Intn(len(frag))])
			}
			paramValues = append(paramValues, b.String())
		}
	}
	// values the library's own escaper leaves (partly) literal, and sizes beyond a megabyte
	paramValues = append(paramValues, "a;b", ";", "alpha;beta&x", "a+b@c$!*'", "(x:y)", strings.Repeat("m", 1200000))
	hugeBody := []byte(`{"k":"` + strings.Repeat("v", 1500000) + `"}`)
	type qcase struct {
		pv, q string
		bodies [][]byte
	}
	var qcases []qcase
	for _, pv := range paramValues {
		switch {
		case pv == "":
			qcases = append(qcases, qcase{pv, "", e2eBodies})
		case pv == "x":
			qcases = append(qcases, qcase{pv, "p=x", append(append([][]byte(nil), e2eBodies...), hugeBody)})
		default:
			qcases = append(qcases, qcase{pv, "p=" + refQueryEscape(pv), e2eBodies})
			if lib := kit.QueryEscape(pv); lib != refQueryEscape(pv) {
				// the query exactly as the library's writers produce it
				qcases = append(qcases, qcase{pv, "p=" + lib, e2eBodies[:1]})
			}
		}
	}
	for _, c := range calls {
		for _, qc := range qcases {
			pv, q := qc.pv, qc.q
			for bi, body := range qc.bodies {
				if !c.HasBody && bi > 0 {
					continue
				}
				if len(pv) > 100000 && bi > 0 {
					continue
				}
				// reference run: tunnelling off
				w0, inv0, err0 := do(c, q, body, 0, false)
				if w0 == nil {
					run.Inconclusive(fmt.Sprintf("request could not be built: %v", err0))
					continue
				}
				fullLen := len(strings.SplitN(w0.Target+"?", "?", 3)[1])
				type variant struct {
					T        int
					chunked  bool
					redirect bool
				}
				var variants []variant
				for _, T := range []int{1, fullLen - 1, fullLen, fullLen + 1, 100000} {
					if T <= 0 || (T != 1 && (len(pv) > 100000 || len(body) > 100000)) {
						continue
					}
					variants = append(variants, variant{T, false, false})
					if fullLen > T && T == 1 && len(pv) < 100000 && len(body) < 100000 {
						// the tunnelled request is sent twice: first to a front end that redirects it (307)
						variants = append(variants, variant{T, false, true})
					}
					if fullLen > T && (T == 1 || T == fullLen-1) {
						// the same tunnelled request through a transport that does not know the body length in advance
						// (a streaming or wrapping RoundTripper, a proxy): chunked framing, no Content-Length
						variants = append(variants, variant{T, true, false})
					}
				}
				for _, vr := range variants {
					T := vr.T
					run.Eval(1)
					viaRedirect = vr.redirect
					w, inv, err := do(c, q, body, T, vr.chunked)
					viaRedirect = false
					desc := map[string]any{"generation": g, "call": c, "query_len": fullLen, "threshold": T, "body": trunc(string(body)), "param_value": trunc(pv), "chunked_framing": vr.chunked, "resent_after_307": vr.redirect}
					if w == nil {
						desc["error"] = fmt.Sprint(err)
						run.Violation(g+"/e2e/build-error", desc)
						continue
					}
					tunnelled := w.Method == "POST" && w.Header.Get("X-Http-Method-Override") != ""
					shouldTunnel := fullLen > T
					desc["wire"] = map[string]any{"method": w.Method, "target": trunc(w.Target), "headers": headerSubset(w.Header), "status": w.Status}
					if tunnelled != shouldTunnel {
						desc["tunnelled"], desc["should_tunnel"] = tunnelled, shouldTunnel
						if tunnelled {
							run.Violation(g+"/e2e/tunnelled-at-or-below-threshold", desc)
						} else {
							run.Violation(g+"/e2e/not-tunnelled-above-threshold", desc)
						}
						continue
					}
					if !tunnelled {
						// must be sent untouched: identical to the reference wire request
						hw, hw0 := headerSubset(w.Header), headerSubset(w0.Header)
						delete(hw, "X-Verif-Req")
						delete(hw0, "X-Verif-Req")
						if w.Method != w0.Method || w.Target != w0.Target || w.Body != w0.Body || !reflect.DeepEqual(hw, hw0) {
							run.Violation(g+"/e2e/untunnelled-request-altered", desc)
						}
					} else {
						run.Count("tunnelled_requests", 1)
						if strings.Contains(w.Target, "?") {
							run.Violation(g+"/e2e/tunnelled-request-keeps-url-query", desc)
						}
					}
					// same observable behaviour
					k0, s0, _ := kit.DescribeError(err0)
					k1, s1, _ := kit.DescribeError(err)
					if w.Status != w0.Status || k0 != k1 || s0 != s1 {
						desc["untunnelled_status"], desc["tunnelled_status"] = w0.Status, w.Status
						desc["resp_body"] = trunc(w.RespBody)
						run.Violation(g+"/e2e/different-outcome", desc)
						continue
					}
					if len(inv) != len(inv0) {
						desc["invocations_untunnelled"], desc["invocations_tunnelled"] = len(inv0), len(inv)
						run.Violation(g+"/e2e/different-invocation-count", desc)
						continue
					}
					if len(inv0) != 1 {
						desc["invocations"] = len(inv0)
						desc["status"] = w0.Status
						desc["resp_body"] = trunc(w0.RespBody)
						run.Violation(g+"/e2e/valid-call-not-delivered", desc)
						continue
					}
					a, b := inv0[0], inv[0]
					a.ReqID, b.ReqID = "", ""
					ha, hb := headerSubset(a.Headers), headerSubset(b.Headers)
					delete(ha, "X-Verif-Req")
					delete(hb, "X-Verif-Req")
					a.Headers, b.Headers = nil, nil
					if !reflect.DeepEqual(a, b) || !reflect.DeepEqual(ha, hb) {
						desc["seen_untunnelled"], desc["seen_tunnelled"] = map[string]any{"inv": a, "headers": ha}, map[string]any{"inv": b, "headers": hb}
						run.Violation(g+"/e2e/resource-sees-different-request/"+diffField(a, b, ha, hb), desc)
						continue
					}
					run.Count("e2e_pairs", 1)
					if tunnelled {
						run.Distinct(fmt.Sprintf("%s|e2e|%s %s %s|%s|%d|%d|%v", g, c.HTTP, c.Restli, c.Path, trunc(q), bi, T, vr.chunked || vr.redirect))
						if vr.redirect {
							run.Count("tunnelled_requests_resent_after_redirect", 1)
						}
						if len(pv) > 1000000 || len(body) > 1000000 {
							run.Count("tunnelled_requests_over_1MiB", 1)
						}
						if vr.chunked {
							run.Count("tunnelled_requests_chunked", 1)
						}
					}
					if reqN%401 == 0 || reqN < 12 {
						run.Sample(desc)
					}
				}
			}
		}
	}

	// ---- B2. well-formed envelopes written by other clients -----------------------------------------
	// The multipart boundary is the sender's choice (case-sensitive, up to 70 characters from a wide alphabet); media
	// type and parameter names are case-insensitive. Such a request must reach resource code like the plain one.
	foreign := []struct{ name, boundary, ctype string }{
		{"javamail-boundary", "----=_Part_0_1234567.1700000000000", `multipart/mixed; boundary="----=_Part_0_1234567.1700000000000"`},
		{"upper-hex-boundary", "A1B2C3D4E5F60718", `multipart/mixed; boundary=A1B2C3D4E5F60718`},
		{"mixed-case-boundary", "xYzBoundaryXyZ", `multipart/mixed; boundary=xYzBoundaryXyZ`},
		{"mixed-case-media-type", "plainboundary42", `Multipart/Mixed; Boundary=plainboundary42`},
		{"boundary-with-punctuation", "b'()+_,-./:=?B", `multipart/mixed; boundary="b'()+_,-./:=?B"`},
		{"extra-parameter", "QwErTy", `multipart/mixed; charset=UTF-8; boundary=QwErTy`},
	}
	for _, fe := range foreign {
		for _, tc := range []struct{ verb, restli, path, query, body string }{
			{"PUT", "update", "/things/k1", "p=1&z=a%20b", `{"a":"b"}`},
			{"POST", "partial_update", "/single", "p=x", `{"patch":{"$set":{"a":"B"}}}`},
		} {
			run.Eval(1)
			var buf bytes.Buffer
			w := multipart.NewWriter(&buf)
			if err := w.SetBoundary(fe.boundary); err != nil {
				run.Inconclusive("boundary rejected by mime/multipart: " + err.Error())
				continue
			}
			pw, _ := w.CreatePart(textproto.MIMEHeader{"Content-Type": {"application/x-www-form-urlencoded"}})
			pw.Write([]byte(tc.query))
			pw, _ = w.CreatePart(textproto.MIMEHeader{"Content-Type": {"application/json"}})
			pw.Write([]byte(tc.body))
			w.Close()
			rec.Drain()
			req, _ := http.NewRequest("POST", base.String()+tc.path, bytes.NewReader(buf.Bytes()))
			req.Header.Set("X-HTTP-Method-Override", tc.verb)
			req.Header.Set("Content-Type", fe.ctype)
			req.Header.Set("X-RestLi-Protocol-Version", "2.0.0")
			req.Header.Set("X-RestLi-Method", tc.restli)
			resp, err := http.DefaultClient.Do(req)
			desc := map[string]any{"generation": g, "envelope": fe.name, "content_type": fe.ctype, "call": tc.verb + " " + tc.path + "?" + tc.query}
			if err != nil {
				desc["error"] = err.Error()
				run.Violation(g+"/foreign-envelope/no-response/"+fe.name, desc)
				continue
			}
			rb, _ := io.ReadAll(resp.Body)
			resp.Body.Close()
			inv := rec.Drain()
			desc["status"], desc["resp_body"], desc["invocations"] = resp.StatusCode, trunc(string(rb)), len(inv)
			run.Count("foreign_envelopes", 1)
			switch {
			case resp.StatusCode/100 != 2 || len(inv) != 1:
				run.Violation(g+"/foreign-envelope/not-delivered/"+fe.name, desc)
			case inv[0].HTTPMethod != tc.verb || inv[0].RawQuery != tc.query || inv[0].Body != tc.body || inv[0].Method != tc.restli:
				desc["seen"] = inv[0]
				run.Violation(g+"/foreign-envelope/resource-sees-different-request/"+fe.name, desc)
			default:
				run.Distinct(g + "|foreign-envelope|" + fe.name + "|" + tc.restli)
			}
		}
	}

	// ---- C. malformed tunnelled requests → 400, no resource code -------------------------------
	mp := func(parts [][2]string, close bool) ([]byte, string) {
		var buf bytes.Buffer
		w := multipart.NewWriter(&buf)
		for _, p := range parts {
			pw, _ := w.CreatePart(textproto.MIMEHeader{"Content-Type": {p[0]}})
			pw.Write([]byte(p[1]))
		}
		if close {
			w.Close()
		}
		return buf.Bytes(), "multipart/mixed; boundary=" + w.Boundary()
	}
	type mal struct {
		name, override, urlQuery, ctype string
		body                            []byte
		verdict                         bool // in the verdict (else observed only)
	}
	var mals []mal
	b1, ct1 := mp([][2]string{{"application/json", "{}"}}, true)
	mals = append(mals, mal{"multipart-without-query-part", "GET", "", ct1, b1, true})
	b2, ct2 := mp([][2]string{{"application/x-www-form-urlencoded", "p=1"}}, true)
	mals = append(mals, mal{"multipart-without-body-part", "PUT", "", ct2, b2, true})
	b3, ct3 := mp([][2]string{{"application/x-www-form-urlencoded", "p=1"}, {"text/plain", "hello"}}, true)
	mals = append(mals, mal{"multipart-unknown-part-type", "PUT", "", ct3, b3, true})
	b3b, ct3b := mp([][2]string{{"application/x-www-form-urlencoded", "p=1"}, {"application/json", "{}"}, {"image/png", "x"}}, true)
	mals = append(mals, mal{"multipart-extra-unknown-part", "PUT", "", ct3b, b3b, true})
	mals = append(mals, mal{"override-header-with-url-query", "GET", "p=1", "application/x-www-form-urlencoded", []byte("q=f"), true})
	b4, ct4 := mp([][2]string{{"application/x-www-form-urlencoded", "p=1"}, {"application/json", "{}"}}, true)
	mals = append(mals, mal{"override-header-with-url-query-multipart", "PUT", "x=y", ct4, b4, true})
	b5, ct5 := mp([][2]string{{"application/x-www-form-urlencoded", "p=1"}, {"application/json", "{}"}}, false)
	mals = append(mals, mal{"multipart-truncated", "PUT", "", ct5, b5[:len(b5)-3], false})
	mals = append(mals, mal{"multipart-no-boundary-param", "PUT", "", "multipart/mixed", b4, false})
	mals = append(mals, mal{"multipart-empty-body", "GET", "", ct1, nil, true})
	mals = append(mals, mal{"override-header-with-url-query-no-body", "GET", "p=1", "", nil, true})
	mals = append(mals, mal{"override-header-with-url-query-empty-form", "GET", "p=1", "application/x-www-form-urlencoded", []byte{}, true})
	var allMals []mal
	for _, m := range mals {
		for _, verb := range []string{"GET", "PUT", "DELETE", "POST"} {
			mm := m
			mm.override = verb
			allMals = append(allMals, mm)
		}
	}
	for _, m := range allMals {
		for _, path := range []string{"/things/k1", "/things"} {
			run.Eval(1)
			rec.Drain()
			u := base.String() + path
			if m.urlQuery != "" {
				u += "?" + m.urlQuery
			}
			req, _ := http.NewRequest("POST", u, bytes.NewReader(m.body))
			req.Header.Set("X-HTTP-Method-Override", m.override)
			if m.ctype != "" {
				req.Header.Set("Content-Type", m.ctype)
			}
			req.Header.Set("X-RestLi-Protocol-Version", "2.0.0")
			resp, err := http.DefaultClient.Do(req)
			desc := map[string]any{"generation": g, "malformed": m.name, "path": path, "override": m.override}
			if err != nil {
				desc["error"] = err.Error()
				run.Violation(g+"/malformed/no-response/"+m.name, desc)
				continue
			}
			rb, _ := io.ReadAll(resp.Body)
			resp.Body.Close()
			inv := rec.Drain()
			desc["status"], desc["resp_body"], desc["invocations"] = resp.StatusCode, trunc(string(rb)), len(inv)
			run.Count("malformed_requests", 1)
			if !m.verdict {
				run.Count("observed_only.malformed", 1)
				if resp.StatusCode >= 500 {
					run.Count("observed_only.malformed_5xx", 1)
				}
				continue
			}
			if len(inv) != 0 {
				run.Violation(g+"/malformed/reached-resource-code/"+m.name, desc)
			} else if resp.StatusCode != 400 {
				run.Violation(g+"/malformed/status-not-400/"+m.name, desc)
			}
			run.Distinct(g + "|malformed|" + m.name + "|" + m.override + "|" + path)
		}
	}
}

// chunkedTransport hides the body length from net/http, which then frames the request with Transfer-Encoding: chunked.
type chunkedTransport struct{}

func (chunkedTransport) RoundTrip(req *http.Request) (*http.Response, error) {
	if req.Body != nil && req.Body != http.NoBody {
		req = req.Clone(req.Context())
		req.Body = io.NopCloser(struct{ io.Reader }{req.Body})
		req.ContentLength = -1
		req.GetBody = nil
	}
	return http.DefaultTransport.RoundTrip(req)
}

func diffField(a, b kit.Invocation, ha, hb map[string][]string) string {
	switch {
	case a.HTTPMethod != b.HTTPMethod:
		return "verb"
	case a.Path != b.Path:
		return "path"
	case a.RawQuery != b.RawQuery:
		return "raw-query"
	case a.Body != b.Body:
		return "body"
	case !reflect.DeepEqual(ha, hb):
		return "headers"
	case a.Method != b.Method || a.CtxMethod != b.CtxMethod:
		return "method"
	}
	return "other"
}

func trunc(s string) string {
	if len(s) > 160 {
		return s[:160] + fmt.Sprintf("...(%d bytes)", len(s))
	}
	return s
}
