// C14 — query tunnelling is transparent.
package main

import (
	"verifh/ev"
	"verifh/props/c14/gen1"
	"verifh/props/c14/gen2"
)

func main() {
	run := ev.Start("C14")
	defer run.Guard()
	run.Rule("A: EncodeTunnelledQuery -> DecodeTunnelledQuery pairs over verbs x hostile queries x bodies (verb, raw query, body bytes, content type, headers must be restored). " +
		"B: every call kind is sent through the real client and a real loopback server twice, tunnelling off and on with thresholds {1, len-1, len, len+1, large}; the wire tap decides tunnelled <=> len(query) > T, " +
		"and the request snapshot taken inside resource code (verb, path, raw query, body, content type, Rest.li headers) must be identical. C: hand-built malformed tunnelled requests must get 400 and no invocation. " +
		"distinct = distinct (call, param value, body, threshold) with tunnelling actually triggered, codec pairs with a body, malformed shapes")
	run.Assume("an unknown top-level content type or a truncated multipart body on a request carrying the override header is observed only (the property names: missing query part, missing body part, unknown part type, override header + URL query)")
	gen2.Run(run)
	gen1.Run(run)
	run.Set("generations", []string{"v2", "root"})
	run.Require("tunnelled_requests", 50)
	run.Require("malformed_requests", 10)
	run.Require("codec_pairs", 100)
	run.Finish()
}
