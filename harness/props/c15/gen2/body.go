package gen2

import "github.com/PapaCharlie/go-restli/v2/restlicodec"

type body struct{}

func (body) MarshalRestLi(w restlicodec.Writer) error {
	return w.WriteMap(func(func(string) restlicodec.Writer) error { return nil })
}
