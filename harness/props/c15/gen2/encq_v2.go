package gen2

import "github.com/PapaCharlie/go-restli/v2/restlicodec"

// EncodedQuery is the query string the library's own query writer produces for one string parameter.
func EncodedQuery(name, value string) string {
	q, err := restlicodec.BuildQueryParams(func(kw func(string) restlicodec.Writer) error {
		kw(name).WriteString(value)
		return nil
	})
	if err != nil {
		panic(err)
	}
	return q
}
