package gen2

import (
	"context"
	"net/http"
	"net/url"

	"github.com/PapaCharlie/go-restli/v2/restli"
	"github.com/PapaCharlie/go-restli/v2/restlicodec"
)

const GENERATION = "v2"

type Built struct {
	Scheme, Host, EscapedPath, RawQuery, Full string
}

type resolver struct{ u *url.URL }

func (r resolver) ResolveHostnameAndContextForQuery(string, *url.URL) (*url.URL, error) {
	return r.u, nil
}

type pathWithRoot struct {
	root string
	path string
}

func (p pathWithRoot) RootResource() string          { return p.root }
func (p pathWithRoot) ResourcePath() (string, error) { return p.path, nil }

// Build runs the library's request construction for a GET (body=false) or a JSON PUT (body=true).
func Build(base *url.URL, root, resourcePath string, query *string, withBody bool, tunnellingThreshold ...int) (*Built, *http.Request, error) {
	c := &restli.Client{Client: http.DefaultClient, HostnameResolver: resolver{base}}
	if len(tunnellingThreshold) > 0 {
		c.QueryTunnellingThreshold = tunnellingThreshold[0]
	}
	var q restli.QueryParamsEncoder
	if query != nil {
		q = restli.QueryParamsString(*query)
	}
	var rp restli.ResourcePath = pathWithRoot{root, resourcePath}
	var req *http.Request
	var err error
	if withBody {
		req, err = restli.NewJsonRequest(c, context.Background(), rp, q, http.MethodPut, restli.Method_update, body{}, nil)
	} else {
		req, err = restli.NewGetRequest(c, context.Background(), rp, q, restli.Method_get)
	}
	if err != nil {
		return nil, nil, err
	}
	return &Built{req.URL.Scheme, req.URL.Host, req.URL.EscapedPath(), req.URL.RawQuery, req.URL.String()}, req, nil
}

func RootOfPathString(p string) string { return restli.ResourcePathString(p).RootResource() }

// EncodedPath is the resource path the library's own path writer produces for an entity key, the way generated
// ResourcePath() implementations build it.
func EncodedPath(root, key string) string {
	w := restlicodec.NewRor2PathWriter()
	w.RawPathSegment("/" + root + "/")
	w.WriteString(key)
	return w.Finalize()
}

// BuildSequence builds one GET request per base URL through ONE client whose resolver owns a single *url.URL and fills
// it in anew for every call (same pointer, other content).
func BuildSequence(bases []*url.URL, root, resourcePath string, query *string) ([]*Built, error) {
	own := new(url.URL)
	c := &restli.Client{Client: http.DefaultClient, HostnameResolver: resolver{own}}
	var q restli.QueryParamsEncoder
	if query != nil {
		q = restli.QueryParamsString(*query)
	}
	var out []*Built
	for _, b := range bases {
		*own = *b
		req, err := restli.NewGetRequest(c, context.Background(), pathWithRoot{root, resourcePath}, q, restli.Method_get)
		if err != nil {
			return out, err
		}
		out = append(out, &Built{req.URL.Scheme, req.URL.Host, req.URL.EscapedPath(), req.URL.RawQuery, req.URL.String()})
	}
	return out, nil
}
