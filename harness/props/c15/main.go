// C15 — request URL construction preserves resolver base, resource path and query.
//
// Monitor: the *http.Request built by the library (NewGetRequest / NewJsonRequest) is compared with an
// independent reference URL builder, byte for byte on scheme, host, escaped path and raw query; a
// sample of requests is actually sent and the request target seen on the wire is compared as well.
package main

import (
	"fmt"
	"io"
	"math/rand"
	"net"
	"net/http"
	"net/url"
	"strings"
	"sync"

	"verifh/ev"
	"verifh/props/c15/gen1"
	"verifh/props/c15/gen2"
)

type built struct{ Scheme, Host, EscapedPath, RawQuery, Full string }

type generation struct {
	name         string
	build        func(base *url.URL, root, rp string, q *string, body bool, threshold ...int) (*built, *http.Request, error)
	sequence     func(bases []*url.URL, root, rp string, q *string) ([]string, error) // escaped paths, one client for all
	encodedPath  func(root, key string) string
	encodedQuery func(name, value string) string
}

var gens = []generation{
	{"v2", func(b *url.URL, root, rp string, q *string, body bool, threshold ...int) (*built, *http.Request, error) {
		x, r, err := gen2.Build(b, root, rp, q, body, threshold...)
		if err != nil {
			return nil, nil, err
		}
		return &built{x.Scheme, x.Host, x.EscapedPath, x.RawQuery, x.Full}, r, nil
	}, func(bases []*url.URL, root, rp string, q *string) ([]string, error) {
		bs, err := gen2.BuildSequence(bases, root, rp, q)
		var out []string
		for _, b := range bs {
			out = append(out, b.Scheme+"|"+b.Host+"|"+b.EscapedPath)
		}
		return out, err
	}, gen2.EncodedPath, gen2.EncodedQuery},
	{"root", func(b *url.URL, root, rp string, q *string, body bool, threshold ...int) (*built, *http.Request, error) {
		x, r, err := gen1.Build(b, root, rp, q, body, threshold...)
		if err != nil {
			return nil, nil, err
		}
		return &built{x.Scheme, x.Host, x.EscapedPath, x.RawQuery, x.Full}, r, nil
	}, func(bases []*url.URL, root, rp string, q *string) ([]string, error) {
		bs, err := gen1.BuildSequence(bases, root, rp, q)
		var out []string
		for _, b := range bs {
			out = append(out, b.Scheme+"|"+b.Host+"|"+b.EscapedPath)
		}
		return out, err
	}, gen1.EncodedPath, gen1.EncodedQuery},
}

// reference percent-encoder for path segments (written from RFC 3986 unreserved + the Rest.li rule
// that reserved ROR2 characters are escaped): only ALPHA / DIGIT / - . _ ~ stay literal.
func refEscape(s string) string {
	var b strings.Builder
	for i := 0; i < len(s); i++ {
		c := s[i]
		if c >= 'a' && c <= 'z' || c >= 'A' && c <= 'Z' || c >= '0' && c <= '9' || c == '-' || c == '.' || c == '_' || c == '~' {
			b.WriteByte(c)
		} else {
			fmt.Fprintf(&b, "%%%02X", c)
		}
	}
	return b.String()
}

type ctxSeg struct {
	text string
	kind string // root, rootsuffix, rootprefix, other
}

func segChoices(root string) []ctxSeg {
	return []ctxSeg{
		{root, "root"},
		{root + "er", "rootsuffix"},
		{root + "-v2", "rootsuffix"},
		{root[:len(root)-1], "rootprefix"},
		{"api", "other"},
		{"a%20b", "other"},
		{"v1.0", "other"},
	}
}

type baseCase struct {
	url         string
	ctx         string // expected context path (after removing trailing slash and a final root segment)
	rawCtx      string // the base path without trailing slash: the context path for any other root resource
	unspecified bool   // root name is a complete non-final segment
	desc        string
}

func enumerateBases(root string) []baseCase {
	var out []baseCase
	schemes := []string{"http://", "https://", ""}
	hosts := []string{"h.example", "h.example:8080", "127.0.0.1:9", "[::1]:8443"}
	segs := segChoices(root)
	var rec func(cur []ctxSeg)
	emit := func(cur []ctxSeg) {
		for si, sc := range schemes {
			for hi, h := range hosts {
				if sc == "" {
					if hi > 0 {
						continue
					}
					h = "" // relative base: no scheme, no host
				}
				for _, slash := range []bool{false, true} {
					if len(cur) > 1 && (si+hi)%2 == 1 { // keep the product bounded for long contexts
						continue
					}
					p := ""
					for _, s := range cur {
						p += "/" + s.text
					}
					full := sc + h + p
					if slash {
						full += "/"
					}
					if full == "" {
						continue
					}
					expCtx := p
					unspec := false
					for i, s := range cur {
						if s.kind == "root" && i != len(cur)-1 {
							unspec = true
						}
					}
					if len(cur) > 0 && cur[len(cur)-1].kind == "root" {
						expCtx = p[:len(p)-len(root)-1]
					}
					var kinds []string
					for _, s := range cur {
						kinds = append(kinds, s.kind)
					}
					out = append(out, baseCase{full, expCtx, p, unspec, fmt.Sprintf("scheme=%q host=%q ctx=%v slash=%v", sc, h, kinds, slash)})
				}
			}
		}
	}
	rec = func(cur []ctxSeg) {
		emit(cur)
		if len(cur) == 3 {
			return
		}
		for _, s := range segs {
			rec(append(append([]ctxSeg(nil), cur...), s))
		}
	}
	rec(nil)
	return out
}

var hostileKeys = []string{
	"1", "plain", "100%", "%2F", "%25", "%zz", ".", "..", "...", "a/b", "a//b", "/", "//", ";", "a;b=c", "?", "a?b", "#", "a#b",
	"''", "(a:b)", "List(1,2)", "a,b", "a:b", "a b", "a+b", "é", "日本", "\x00", "\x7f", "&", "=", "a&b=c", "urn:li:x:(1,2)", "~", "!", "*",
}

// keys whose encoded form keeps characters literal that other escapers (form / query rules) treat specially
var encoderKeys = []string{
	"a+b", "jane.doe+restli@example.com", "1+1=2", "x/y+z", "a b+c", "$!*", "a=b&c", "k@h", "+", "++", " + ", "a%2Bb", "é+日",
}

var queries = []string{
	"", "q=x", "ids=List(1,2)", "a=(b:c,d:List(e))", "q=x&p=%25", "p=a%20b", "p=a+b", "p=%2F%3F", "p=?/;", "action=do", "q=s&start=0&count=10",
	"p=" + strings.Repeat("x", 300), "p=''", "p=%C3%A9",
}

func main() {
	run := ev.Start("C15")
	defer run.Guard()
	run.Rule("case = (generation, resolver base URL from the context-path grammar, resource path with percent-encoded hostile keys, query, with/without body); the library-built request URL is compared byte for byte " +
		"(scheme, host, EscapedPath, RawQuery) with the reference builder ctx(base)+path?query; non-trivial = context path non-empty or key contains a character that needs escaping, a dot segment or a literal sub-delimiter; paths and queries come both from the reference escaper and from the library's own path / query writers; every third case is followed by a second request for another root resource on the same resolver URL value; " +
		"distinct = distinct (base, path, query) triples. Contexts that hold the root name as a complete non-final segment are executed but only checked for scheme/host/query (left unspecified by the property).")
	run.Assume("the context-path rule: trailing slash dropped; a final segment equal to the root resource name is dropped so that the root appears exactly once")
	rng := rand.New(rand.NewSource(run.Seed))
	roots := []string{"search", "ab"}
	// wire capture server: records the request target exactly as received
	var mu sync.Mutex
	var lastTarget string
	ln, lerr := net.Listen("tcp", "127.0.0.1:0")
	var srvAddr string
	if lerr == nil {
		srvAddr = ln.Addr().String()
		go http.Serve(ln, http.HandlerFunc(func(w http.ResponseWriter, r *http.Request) {
			mu.Lock()
			lastTarget = r.RequestURI
			mu.Unlock()
			w.Header().Set("X-RestLi-Protocol-Version", "2.0.0")
			io.Copy(io.Discard, r.Body)
			w.WriteHeader(200)
		}))
	}
	wireEvery := run.Pick(97, 11)
	n := 0
	for _, g := range gens {
		for _, root := range roots {
			bases := enumerateBases(root)
			run.Count("bases."+g.name, len(bases))
			// paths
			var paths []string
			paths = append(paths, "/"+root)
			for _, k := range hostileKeys {
				paths = append(paths, "/"+root+"/"+refEscape(k))
			}
			for _, k := range append(append([]string(nil), encoderKeys...), hostileKeys...) {
				// the path exactly as the library's own path writer encodes the key
				if ep := g.encodedPath(root, k); ep != "/"+root+"/"+refEscape(k) {
					paths = append(paths, ep)
				}
			}
			run.Count("paths."+g.name, len(paths))
			paths = append(paths, "/"+root+"/"+refEscape("k1")+"/sub", "/"+root+"/1/"+root+"/2", "/"+root+"/"+refEscape("a/b")+"/sub/"+refEscape(".."), "/"+root+"/(a:1,b:List(x))")
			// one client, one resolver that keeps handing out the same *url.URL with other content each time
			{
				var seqBases []*url.URL
				var seqCases []baseCase
				for bi, b := range bases {
					if bi%37 == 0 && !b.unspecified {
						if u, err := url.Parse(b.url); err == nil {
							seqBases, seqCases = append(seqBases, u), append(seqCases, b)
						}
					}
				}
				p := "/" + root + "/" + refEscape("k 1")
				run.Eval(1)
				got, err := g.sequence(seqBases, root, p, nil)
				if err != nil {
					run.Violation(g.name+"/one-client-many-bases/build-error", map[string]any{"generation": g.name, "error": err.Error()})
				}
				for i, s := range got {
					want := seqBases[i].Scheme + "|" + seqBases[i].Host + "|" + seqCases[i].ctx + p
					run.Count("one_client_requests", 1)
					if s != want {
						run.Violation(g.name+"/one-client-many-bases/"+classify(p, seqCases[i]), map[string]any{"generation": g.name, "position_in_sequence": i, "base": seqCases[i].url, "base_shape": seqCases[i].desc,
							"root": root, "resource_path": p, "got": s, "expected": want, "detail": "one restli.Client, its resolver returns the same *url.URL filled in anew for every call"})
						break
					}
				}
			}
			for bi, b := range bases {
				base, err := url.Parse(b.url)
				if err != nil {
					continue
				}
				// every base with a rotating subset of paths/queries (full product in thorough)
				for pi, p := range paths {
					if !run.Thorough() && (bi+pi)%7 != 0 && pi > 3 {
						continue
					}
					qi := (bi + pi) % len(queries)
					var q *string
					if queries[qi] != "" || (bi+pi)%2 == 0 {
						q = &queries[qi]
					}
					if (bi+pi)%3 == 1 {
						// a query exactly as the library's own query writer encodes a parameter value
						eq := g.encodedQuery("p", encoderKeys[(bi+pi)%len(encoderKeys)]+hostileKeys[(bi*7+pi)%len(hostileKeys)])
						q = &eq
					}
					withBody := (bi+pi)%5 == 0
					n++
					run.Eval(1)
					got, req, err := g.build(base, root, p, q, withBody)
					desc := map[string]any{"generation": g.name, "base": b.url, "base_shape": b.desc, "root": root, "resource_path": p, "query": q, "with_body": withBody}
					if err != nil {
						desc["error"] = err.Error()
						run.Violation(g.name+"/build-error/"+classify(p, b), desc)
						continue
					}
					expPath := b.ctx + p
					expQuery := ""
					if q != nil {
						expQuery = *q
					}
					desc["got"] = got
					if got.Scheme != base.Scheme || got.Host != base.Host {
						run.Violation(g.name+"/scheme-or-host-changed", desc)
						continue
					}
					if got.RawQuery != expQuery {
						desc["expected_query"] = expQuery
						run.Violation(g.name+"/query-changed/"+classify(p, b), desc)
						continue
					}
					if b.unspecified {
						run.Count("observed_only.root_non_final_segment", 1)
					} else if got.EscapedPath != expPath {
						desc["expected_path"] = expPath
						run.Violation(g.name+"/path/"+classify(p, b), desc)
						continue
					}
					// the same call with query tunnelling on: the query moves into the body, the path stays byte for byte
					if (bi+pi)%4 == 2 && expQuery != "" {
						run.Eval(1)
						gotT, _, err := g.build(base, root, p, q, withBody, 1)
						descT := map[string]any{"generation": g.name, "base": b.url, "base_shape": b.desc, "root": root, "resource_path": p, "query": q, "with_body": withBody, "query_tunnelling_threshold": 1}
						switch {
						case err != nil:
							descT["error"] = err.Error()
							run.Violation(g.name+"/tunnelled/build-error/"+classify(p, b), descT)
						case gotT.Scheme != base.Scheme || gotT.Host != base.Host:
							descT["got"] = gotT
							run.Violation(g.name+"/tunnelled/scheme-or-host-changed", descT)
						case !b.unspecified && gotT.EscapedPath != expPath:
							descT["got"], descT["expected_path"] = gotT, expPath
							run.Violation(g.name+"/tunnelled/path/"+classify(p, b), descT)
						default:
							run.Count("tunnelled_requests", 1)
						}
					}
					// the same resolver URL serves the next request, for another root resource: nothing of this request may
					// stick to it
					if (bi+pi)%3 == 0 {
						run.Eval(1)
						p2 := "/zz/" + refEscape(hostileKeys[(bi+pi)%len(hostileKeys)])
						got2, _, err := g.build(base, "zz", p2, q, false)
						desc2 := map[string]any{"generation": g.name, "base": b.url, "base_shape": b.desc, "first_request": map[string]any{"root": root, "resource_path": p, "query": q},
							"second_request": map[string]any{"root": "zz", "resource_path": p2, "query": q}}
						if err != nil {
							desc2["error"] = err.Error()
							run.Violation(g.name+"/second-request-on-same-resolver-url/build-error", desc2)
							continue
						}
						desc2["got"] = got2
						if got2.Scheme != base.Scheme || got2.Host != base.Host || got2.RawQuery != expQuery || got2.EscapedPath != b.rawCtx+p2 {
							desc2["expected_path"], desc2["expected_query"] = b.rawCtx+p2, expQuery
							run.Violation(g.name+"/second-request-on-same-resolver-url/"+classify(p, b), desc2)
							continue
						}
						run.Count("second_requests", 1)
					}
					if b.ctx != "" || strings.ContainsAny(p, "%.+@$=&") {
						run.Distinct(fmt.Sprintf("%s|%s|%s|%v", g.name, b.url, p, expQuery))
					}
					if n < 4 || n%40009 == 0 {
						run.Sample(desc)
					}
					// wire: send a sample for real (only for absolute http bases: rewrite host to the capture server)
					if srvAddr != "" && !b.unspecified && base.Scheme == "http" && n%wireEvery == 0 {
						wb := *base
						wb.Host = srvAddr
						_, wreq, err := g.build(&wb, root, p, q, withBody)
						if err == nil {
							resp, err := http.DefaultClient.Do(wreq)
							if err == nil {
								resp.Body.Close()
								mu.Lock()
								target := lastTarget
								mu.Unlock()
								want := expPath
								if expQuery != "" {
									want += "?" + expQuery
								}
								run.Count("wire.requests", 1)
								if target != want && !(expQuery == "" && target == want+"?") { // an empty (forced) query may keep its "?"
									desc["wire_request_target"], desc["expected_request_target"] = target, want
									run.Violation(g.name+"/wire/"+classify(p, b), desc)
								}
							}
						}
						_ = req
					}
				}
			}
		}
	}
	_ = rng
	run.Set("generations", []string{"v2", "root"})
	run.Require("wire.requests", 20)
	run.Require("second_requests", 100)
	run.Require("tunnelled_requests", 100)
	run.Require("one_client_requests", 20)
	run.Finish()
}

// classify yields the minimal offending feature for signatures.
func classify(p string, b baseCase) string {
	var f []string
	segs := strings.Split(p, "/")
	dot := false
	for _, s := range segs {
		if s == "." || s == ".." {
			dot = true
		}
	}
	if dot {
		f = append(f, "dot-segment")
	}
	if strings.Contains(p, "%25") {
		f = append(f, "pct25")
	} else if strings.Contains(p, "%") {
		f = append(f, "pct")
	}
	if strings.ContainsAny(p, "(),:'") {
		f = append(f, "ror2-literal")
	}
	if strings.ContainsAny(p, "+@$=&!*") {
		f = append(f, "sub-delim-literal")
	}
	if b.ctx != "" {
		f = append(f, "ctx")
	} else {
		f = append(f, "noctx")
	}
	if strings.Contains(b.desc, "rootsuffix") {
		f = append(f, "rootsuffix")
	}
	if strings.Contains(b.desc, "rootprefix") {
		f = append(f, "rootprefix")
	}
	if strings.Contains(b.desc, "root]") || strings.Contains(b.desc, "root ") {
		f = append(f, "rootlast")
	}
	if strings.Contains(b.desc, `scheme=""`) {
		f = append(f, "relative-base")
	}
	return strings.Join(f, "+")
}
