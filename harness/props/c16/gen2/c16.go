// Package gen2 holds the generation-specific half of the C16 monitor: it drives the library's generic batch
// client functions (BatchGet / BatchDelete / BatchUpdate / BatchPartialUpdate) for one key type K through a scripted
// transport.  Everything the oracle needs (what went on the wire, what the caller got back) is returned to the
// driver as plain data; the reference encoder / decoder for keys lives here too but uses no library code.
// props/c16/gen1 is derived from this file by derive.sh (import paths rewritten to the root module).
package gen2

import (
	"bytes"
	"context"
	"encoding/json"
	"errors"
	"fmt"
	"io"
	"math"
	"math/big"
	"math/rand"
	"net/http"
	"net/url"
	"sort"
	"strconv"
	"strings"
	"unicode/utf8"

	"github.com/PapaCharlie/go-restli/v2/fnv1a"
	"github.com/PapaCharlie/go-restli/v2/restli"
	"github.com/PapaCharlie/go-restli/v2/restlicodec"
	common "github.com/PapaCharlie/go-restli/v2/restlidata/generated/com/linkedin/restli/common"

	"verifh/ev"
	"verifh/refcodec"
)

const GENERATION = "v2"

// ---------------------------------------------------------------------------------------------
// key type descriptions

// KT describes one key type to the monitor.  Canon / KeyCanon / FromTree / Tree are the reference side: they are
// written against the protocol, not against the library.
type KT[K comparable] struct {
	Name       string
	Pool       func(rng *rand.Rand, n int) []K      // n hostile keys, pairwise different under key equality
	Canon      func(K) string                       // full identity, parameters included
	KeyCanon   func(K) string                       // identity under key equality (complex keys: key part only)
	Tree       func(K) any                          // reference wire tree: string leaf or map[string]any
	FromTree   func(tree any) (string, error)       // Canon of a key parsed from the wire
	Twin       func(k K, rng *rand.Rand) (K, bool)  // a key equal to k under key equality, as a different Go value if the type allows
	AltTrees   func(k K, rng *rand.Rand) []any      // other trees denoting a key equal to k (complex keys: other / no params)
	Hash       func(K) uint32                       // the library's bucket hash, only used to construct colliding keys
	Collide    func(rng *rand.Rand, want int) [][]K // groups of pairwise different keys with equal Hash
	Incomplete func(K) any                          // the wire tree of k without one of its required key members (complex keys)
	Foreign    func(k K, pos int) any               // the wire tree of something that is no key of this type but turns into k under a lossy decode (integers: k ± 2^bits)
}

// ---------------------------------------------------------------------------------------------
// reference ROR2 (header flavour) printer for key trees

var reserved = "(),':%"

func encToken(s string, style int, rng *rand.Rand) string {
	if s == "" {
		return "''"
	}
	var b strings.Builder
	for i := 0; i < len(s); {
		// whole characters are escaped or left alone: the reply is JSON text and must stay valid UTF-8
		_, size := utf8.DecodeRuneInString(s[i:])
		esc := size == 1 && strings.IndexByte(reserved, s[i]) >= 0
		switch style {
		case 1: // everything escaped
			esc = true
		case 2: // some more characters escaped
			if rng.Intn(3) == 0 {
				esc = true
			}
		}
		lower := style == 2 && rng.Intn(2) == 0
		for j := i; j < i+size; j++ {
			switch {
			case esc && lower:
				fmt.Fprintf(&b, "%%%02x", s[j])
			case esc:
				fmt.Fprintf(&b, "%%%02X", s[j])
			default:
				b.WriteByte(s[j])
			}
		}
		i += size
	}
	return b.String()
}

// EncodeKeyTree prints tree as a header-flavour ROR2 text. style 0: minimal escaping, 1: every byte escaped,
// 2: random extra escaping; maps are printed in shuffled field order when shuffle is set.
func EncodeKeyTree(tree any, style int, shuffle bool, rng *rand.Rand) string {
	switch t := tree.(type) {
	case string:
		return encToken(t, style, rng)
	case map[string]any:
		names := make([]string, 0, len(t))
		for k := range t {
			names = append(names, k)
		}
		sort.Strings(names)
		if shuffle {
			rng.Shuffle(len(names), func(i, j int) { names[i], names[j] = names[j], names[i] })
		}
		var b strings.Builder
		b.WriteByte('(')
		for i, n := range names {
			if i > 0 {
				b.WriteByte(',')
			}
			// "$params" must keep its dollar sign readable or escaped, both are the same token
			b.WriteString(encToken(n, style, rng))
			b.WriteByte(':')
			b.WriteString(EncodeKeyTree(t[n], style, shuffle, rng))
		}
		b.WriteByte(')')
		return b.String()
	case []any:
		var b strings.Builder
		b.WriteString("List(")
		for i, e := range t {
			if i > 0 {
				b.WriteByte(',')
			}
			b.WriteString(EncodeKeyTree(e, style, shuffle, rng))
		}
		b.WriteByte(')')
		return b.String()
	}
	return "?"
}

// ---------------------------------------------------------------------------------------------
// primitive key types

var hostileStrings = []string{
	"", "a", "A", "a b", " a", "a ", "a,b", "a%2Cb", "(a)", "%28a%29", "a:b", "a'b", "''", "'", "%", "%25", "100%", "%%", "a/b", "a%2Fb", "/", "..", ".",
	"a?b", "a&b=c", "a=b", "a#b", "a+b", "a%2Bb", "a%20b", "List()", "List(a)", "(a:b)", "()", "$params", "é", "é", "éé", "日本", "\U0001F600",
	"a\tb", "a\nb", "\x00", "\x7f", "null", "true", "0", "-0", "1e3", "NaN", "\"", "\\", "a\\b", "{}", "[]", "<x>", "a;b", "a|b", "~", "a~b", "a*b", "a!b", "a@b", "a$b",
}

func StringKT() KT[string] {
	return KT[string]{
		Name: "string",
		Pool: func(rng *rand.Rand, n int) []string {
			seen := map[string]bool{}
			var out []string
			for len(out) < n {
				var s string
				switch rng.Intn(4) {
				case 0:
					s = fmt.Sprintf("k%d", rng.Intn(1000))
				case 1:
					s = hostileStrings[rng.Intn(len(hostileStrings))] + hostileStrings[rng.Intn(len(hostileStrings))]
				default:
					s = hostileStrings[rng.Intn(len(hostileStrings))]
				}
				if !seen[s] {
					seen[s] = true
					out = append(out, s)
				}
			}
			return out
		},
		Canon:    func(s string) string { return "s:" + s },
		KeyCanon: func(s string) string { return "s:" + s },
		Tree:     func(s string) any { return s },
		FromTree: func(t any) (string, error) {
			s, ok := t.(string)
			if !ok {
				return "", fmt.Errorf("not a primitive: %v", t)
			}
			return "s:" + s, nil
		},
	}
}

func intKT[K int32 | int64](name string, bits int) KT[K] {
	canon := func(k K) string { return strconv.FormatInt(int64(k), 10) }
	return KT[K]{
		Name: name,
		Pool: func(rng *rand.Rand, n int) []K {
			edge := []int64{0, 1, -1, 7, 10, 42, math.MaxInt32, math.MinInt32, 255, 256, 65536, 16777619, -16777619}
			if bits == 64 {
				edge = append(edge, math.MaxInt64, math.MinInt64, 1<<32, 1<<32+1, -(1 << 40))
			}
			seen := map[K]bool{}
			var out []K
			for len(out) < n {
				var v K
				if rng.Intn(2) == 0 {
					v = K(edge[rng.Intn(len(edge))])
				} else if bits == 64 {
					v = K(rng.Int63() - rng.Int63())
				} else {
					v = K(int32(rng.Uint32()))
				}
				if !seen[v] {
					seen[v] = true
					out = append(out, v)
				}
			}
			return out
		},
		Canon: canon, KeyCanon: canon,
		Tree: func(k K) any { return canon(k) },
		// seed C16m: a reader that narrows a wider integer files the never-requested key k + 2^32 under the requested k
		Foreign: func(k K, pos int) any {
			v := new(big.Int).Lsh(big.NewInt(1), uint(bits))
			if pos%2 == 1 {
				v.Neg(v)
			}
			if pos%5 == 4 {
				v.Lsh(v, 1)
			}
			return v.Add(v, big.NewInt(int64(k))).String()
		},
		FromTree: func(t any) (string, error) {
			s, ok := t.(string)
			if !ok {
				return "", fmt.Errorf("not a primitive: %v", t)
			}
			v, err := strconv.ParseInt(s, 10, bits)
			if err != nil {
				return "", err
			}
			return strconv.FormatInt(v, 10), nil
		},
	}
}

func Int32KT() KT[int32] { return intKT[int32]("int", 32) }
func Int64KT() KT[int64] { return intKT[int64]("long", 64) }

func floatKT[K float32 | float64](name string, bits int) KT[K] {
	canon := func(k K) string {
		f := float64(k)
		if f == 0 {
			f = 0 // -0 and +0 are one key
		}
		return strconv.FormatFloat(f, 'g', -1, bits)
	}
	return KT[K]{
		Name: name,
		Pool: func(rng *rand.Rand, n int) []K {
			edge := []float64{0, 1, -1, 0.5, 0.1, 1e10, 1e-7, 3.25, -2.5, 1e21, 123456789, math.MaxFloat32, math.SmallestNonzeroFloat32}
			if bits == 64 {
				edge = append(edge, math.MaxFloat64, math.SmallestNonzeroFloat64, 0.1+0.2, 1e-320)
			}
			seen := map[string]bool{}
			var out []K
			for len(out) < n {
				var v K
				if rng.Intn(2) == 0 {
					v = K(edge[rng.Intn(len(edge))])
				} else {
					v = K(rng.NormFloat64() * math.Pow(10, float64(rng.Intn(12)-4)))
				}
				if c := canon(v); !seen[c] {
					seen[c] = true
					out = append(out, v)
				}
			}
			return out
		},
		Canon: canon, KeyCanon: canon,
		Tree: func(k K) any { return canon(k) },
		FromTree: func(t any) (string, error) {
			s, ok := t.(string)
			if !ok {
				return "", fmt.Errorf("not a primitive: %v", t)
			}
			v, err := strconv.ParseFloat(s, bits)
			if err != nil && !(errors.Is(err, strconv.ErrRange) && math.IsInf(v, 0)) {
				return "", err
			}
			return canon(K(v)), nil
		},
		Twin: func(k K, rng *rand.Rand) (K, bool) {
			if k == 0 {
				return K(math.Copysign(0, -1)), true
			}
			return k, true
		},
	}
}

func Float32KT() KT[float32] { return floatKT[float32]("float", 32) }
func Float64KT() KT[float64] { return floatKT[float64]("double", 64) }

func BoolKT() KT[bool] {
	canon := func(b bool) string { return strconv.FormatBool(b) }
	return KT[bool]{
		Name: "boolean",
		Pool: func(rng *rand.Rand, n int) []bool {
			if n == 0 {
				return nil
			}
			out := []bool{rng.Intn(2) == 0}
			if n > 1 {
				out = append(out, !out[0])
			}
			return out
		},
		Canon: canon, KeyCanon: canon,
		Tree: func(b bool) any { return canon(b) },
		FromTree: func(t any) (string, error) {
			if s, ok := t.(string); ok && (s == "true" || s == "false") {
				return s, nil
			}
			return "", fmt.Errorf("not a boolean: %v", t)
		},
	}
}

// ---------------------------------------------------------------------------------------------
// hand-written enum key (shaped like generated enums: unknown constant 0, Equals false on invalid values)

type Suit int32

var suitNames = []string{"$UNKNOWN$", "CLUBS", "DIAMONDS", "HEARTS", "SPADES", "JOKER_1", "JOKER_2", "lower", "MiXed_9"}

func (s Suit) valid() bool { return s > 0 && int(s) < len(suitNames) }
func (s Suit) Equals(o Suit) bool {
	return s.valid() && o.valid() && s == o
}
func (s Suit) ComputeHash() fnv1a.Hash {
	if !s.valid() {
		return fnv1a.ZeroHash()
	}
	return fnv1a.HashInt32(int32(s))
}
func (s Suit) MarshalRestLi(w restlicodec.Writer) error {
	if !s.valid() {
		return fmt.Errorf("illegal Suit constant %d", int(s))
	}
	w.WriteString(suitNames[s])
	return nil
}
func (s *Suit) UnmarshalRestLi(r restlicodec.Reader) error {
	v, err := r.ReadString()
	if err != nil {
		return err
	}
	*s = 0
	for i := 1; i < len(suitNames); i++ {
		if suitNames[i] == v {
			*s = Suit(i)
		}
	}
	return nil
}

func SuitKT() KT[Suit] {
	canon := func(s Suit) string { return suitNames[s] }
	return KT[Suit]{
		Name: "enum",
		Pool: func(rng *rand.Rand, n int) []Suit {
			p := rng.Perm(len(suitNames) - 1)
			var out []Suit
			for i := 0; i < n && i < len(p); i++ {
				out = append(out, Suit(p[i]+1))
			}
			return out
		},
		Canon: canon, KeyCanon: canon,
		Tree: func(s Suit) any { return canon(s) },
		FromTree: func(t any) (string, error) {
			if s, ok := t.(string); ok {
				for i := 1; i < len(suitNames); i++ {
					if suitNames[i] == s {
						return s, nil
					}
				}
			}
			return "", fmt.Errorf("not a Suit: %v", t)
		},
	}
}

// ---------------------------------------------------------------------------------------------
// hand-written complex key: key part {name string, n long, flag optional boolean}, params {x string, y optional int}

type HKParams struct {
	X string
	Y *int32
}

type HK struct {
	Name   string
	N      int64
	Flag   *bool
	Params *HKParams
}

func (k *HK) NewInstance() *HK { return new(HK) }

func (k *HK) ComplexKeyEquals(o *HK) bool {
	if k == nil || o == nil {
		return k == o
	}
	if (k.Flag == nil) != (o.Flag == nil) || (k.Flag != nil && *k.Flag != *o.Flag) {
		return false
	}
	return k.Name == o.Name && k.N == o.N
}

func (k *HK) ComputeComplexKeyHash() fnv1a.Hash {
	h := fnv1a.NewHash()
	h.AddString(k.Name)
	h.AddInt64(k.N)
	if k.Flag != nil {
		h.AddBool(*k.Flag)
	}
	return h
}

func (k *HK) MarshalRestLi(w restlicodec.Writer) error {
	return w.WriteMap(func(kw func(string) restlicodec.Writer) error {
		if k.Params != nil {
			err := kw("$params").WriteMap(func(pw func(string) restlicodec.Writer) error {
				pw("x").WriteString(k.Params.X)
				if k.Params.Y != nil {
					pw("y").WriteInt32(*k.Params.Y)
				}
				return nil
			})
			if err != nil {
				return err
			}
		}
		if k.Flag != nil {
			kw("flag").WriteBool(*k.Flag)
		}
		kw("n").WriteInt64(k.N)
		kw("name").WriteString(k.Name)
		return nil
	})
}

func (k *HK) UnmarshalRestLi(r restlicodec.Reader) error {
	seenName, seenN := false, false
	err := r.ReadMap(func(r restlicodec.Reader, field string) (err error) {
		switch field {
		case "name":
			seenName = true
			k.Name, err = r.ReadString()
		case "n":
			seenN = true
			k.N, err = r.ReadInt64()
		case "flag":
			var b bool
			b, err = r.ReadBool()
			k.Flag = &b
		case "$params":
			k.Params = new(HKParams)
			err = r.ReadMap(func(r restlicodec.Reader, field string) (err error) {
				switch field {
				case "x":
					k.Params.X, err = r.ReadString()
				case "y":
					var y int32
					y, err = r.ReadInt32()
					k.Params.Y = &y
				default:
					err = r.Skip()
				}
				return err
			})
		default:
			err = r.Skip()
		}
		return err
	})
	if err == nil && !(seenName && seenN) {
		err = errors.New("HK: missing required key fields")
	}
	return err
}

func hkKeyCanon(k *HK) string {
	f := "-"
	if k.Flag != nil {
		f = strconv.FormatBool(*k.Flag)
	}
	return fmt.Sprintf("name=%q|n=%d|flag=%s", k.Name, k.N, f)
}

func hkCanon(k *HK) string {
	p := "-"
	if k.Params != nil {
		y := "-"
		if k.Params.Y != nil {
			y = fmt.Sprint(*k.Params.Y)
		}
		p = fmt.Sprintf("x=%q,y=%s", k.Params.X, y)
	}
	return hkKeyCanon(k) + "|params=" + p
}

func hkTree(k *HK) any {
	m := map[string]any{"name": k.Name, "n": strconv.FormatInt(k.N, 10)}
	if k.Flag != nil {
		m["flag"] = strconv.FormatBool(*k.Flag)
	}
	if k.Params != nil {
		p := map[string]any{"x": k.Params.X}
		if k.Params.Y != nil {
			p["y"] = fmt.Sprint(*k.Params.Y)
		}
		m["$params"] = p
	}
	return m
}

func hkFromTree(t any) (string, error) {
	m, ok := t.(map[string]any)
	if !ok {
		return "", fmt.Errorf("not a complex key: %v", t)
	}
	k := &HK{}
	for f, v := range m {
		s, isStr := v.(string)
		switch f {
		case "name":
			if !isStr {
				return "", fmt.Errorf("name is not a string")
			}
			k.Name = s
		case "n":
			n, err := strconv.ParseInt(s, 10, 64)
			if !isStr || err != nil {
				return "", fmt.Errorf("n is not a long: %v", v)
			}
			k.N = n
		case "flag":
			if s != "true" && s != "false" {
				return "", fmt.Errorf("flag is not a boolean: %v", v)
			}
			b := s == "true"
			k.Flag = &b
		case "$params":
			pm, ok := v.(map[string]any)
			if !ok {
				return "", fmt.Errorf("$params is not a record")
			}
			k.Params = &HKParams{}
			for pf, pv := range pm {
				ps, _ := pv.(string)
				switch pf {
				case "x":
					k.Params.X = ps
				case "y":
					y, err := strconv.ParseInt(ps, 10, 32)
					if err != nil {
						return "", err
					}
					y32 := int32(y)
					k.Params.Y = &y32
				default:
					return "", fmt.Errorf("unexpected params member %q", pf)
				}
			}
		default:
			return "", fmt.Errorf("unexpected key member %q", f)
		}
	}
	if _, ok := m["name"]; !ok {
		return "", errors.New("name missing")
	}
	if _, ok := m["n"]; !ok {
		return "", errors.New("n missing")
	}
	return hkCanon(k), nil
}

func randParams(rng *rand.Rand) *HKParams {
	if rng.Intn(3) == 0 {
		return nil
	}
	p := &HKParams{X: hostileStrings[rng.Intn(len(hostileStrings))]}
	if rng.Intn(2) == 0 {
		y := int32(rng.Intn(100))
		p.Y = &y
	}
	return p
}

func HKKT() KT[*HK] {
	kt := KT[*HK]{
		Name: "complex",
		Pool: func(rng *rand.Rand, n int) []*HK {
			seen := map[string]bool{}
			var out []*HK
			for len(out) < n {
				k := &HK{Name: hostileStrings[rng.Intn(len(hostileStrings))], N: int64(rng.Intn(4))}
				if rng.Intn(3) == 0 {
					k.N = rng.Int63() - rng.Int63()
				}
				if rng.Intn(3) == 0 {
					b := rng.Intn(2) == 0
					k.Flag = &b
				}
				k.Params = randParams(rng)
				if c := hkKeyCanon(k); !seen[c] {
					seen[c] = true
					out = append(out, k)
				}
			}
			return out
		},
		Canon: hkCanon, KeyCanon: hkKeyCanon, Tree: hkTree, FromTree: hkFromTree,
		Twin: func(k *HK, rng *rand.Rand) (*HK, bool) {
			c := *k
			if k.Flag != nil {
				b := *k.Flag
				c.Flag = &b
			}
			c.Params = randParams(rng) // equality ignores the parameters
			return &c, true
		},
		AltTrees: func(k *HK, rng *rand.Rand) []any {
			var out []any
			for i := 0; i < 2; i++ {
				c := *k
				c.Params = randParams(rng)
				out = append(out, hkTree(&c))
			}
			return out
		},
		Hash: func(k *HK) uint32 { return uint32(k.ComputeComplexKeyHash().MapKey()) },
	}
	kt.Incomplete = func(k *HK) any {
		m := hkTree(k).(map[string]any)
		delete(m, "name")
		return m
	}
	kt.Collide = func(rng *rand.Rand, want int) [][]*HK {
		return FindCollisions(want, 400000, func(i int) *HK {
			return &HK{Name: MixName(i), N: int64(i % 3)}
		}, kt.Hash)
	}
	return kt
}

// MixName spreads i over a 64-bit string so that short candidate lists already contain 32-bit hash collisions
// (sequential short names do not collide under FNV-1a).
func MixName(i int) string { return strconv.FormatUint(uint64(i+1)*0x9E3779B97F4A7C15, 36) }

// FindCollisions enumerates candidate keys until want groups with equal bucket hash were found (or max candidates).
func FindCollisions[K any](want, max int, mk func(i int) K, hash func(K) uint32) [][]K {
	first := make(map[uint32]int, max)
	var out [][]K
	for i := 0; i < max && len(out) < want; i++ {
		h := hash(mk(i))
		if j, ok := first[h]; ok {
			out = append(out, []K{mk(j), mk(i)})
		} else {
			first[h] = i
		}
	}
	return out
}

// ---------------------------------------------------------------------------------------------
// scripted transport and raw entities

type Raw struct{ JSON []byte }

func (r *Raw) NewInstance() *Raw { return new(Raw) }
func (r *Raw) MarshalRestLi(w restlicodec.Writer) error {
	w.WriteRawBytes(r.JSON)
	return nil
}
func (r *Raw) UnmarshalRestLi(reader restlicodec.Reader) error {
	b, err := reader.ReadRawBytes()
	r.JSON = append([]byte(nil), b...)
	return err
}

type sentRequest struct {
	Method, Target, Body string
	Header               http.Header
}

type scripted struct {
	reply string
	sent  []sentRequest
}

func (s *scripted) RoundTrip(req *http.Request) (*http.Response, error) {
	sr := sentRequest{Method: req.Method, Target: req.URL.RequestURI(), Header: req.Header.Clone()}
	if req.Body != nil {
		b, _ := io.ReadAll(req.Body)
		req.Body.Close()
		sr.Body = string(b)
	}
	s.sent = append(s.sent, sr)
	h := http.Header{"Content-Type": {"application/json"}, "X-Restli-Protocol-Version": {"2.0.0"}}
	return &http.Response{StatusCode: 200, Status: "200 OK", Proto: "HTTP/1.1", ProtoMajor: 1, ProtoMinor: 1, Header: h,
		Body: io.NopCloser(bytes.NewReader([]byte(s.reply))), ContentLength: int64(len(s.reply)), Request: req}, nil
}

type fixedResolver struct{ u *url.URL }

func (r fixedResolver) ResolveHostnameAndContextForQuery(string, *url.URL) (*url.URL, error) {
	return r.u, nil
}

type pathString struct{ root, path string }

func (p pathString) RootResource() string          { return p.root }
func (p pathString) ResourcePath() (string, error) { return p.path, nil }

// ---------------------------------------------------------------------------------------------
// one case

type mention struct {
	idx  int    // index into the caller's keys, -1 for a key that was never requested
	text string // reference-encoded key as it appears in the reply
	tag  int
}

type plan struct {
	method    string // batch_get | batch_delete | batch_update | batch_partial_update
	results   []mention
	statuses  []mention
	errors    []mention
	unrequest bool
}

func jsonString(s string) string {
	b, _ := json.Marshal(s)
	return string(b)
}

func (p *plan) reply() string {
	obj := func(ms []mention, val func(m mention) string) string {
		var parts []string
		for _, m := range ms {
			parts = append(parts, jsonString(m.text)+":"+val(m))
		}
		return "{" + strings.Join(parts, ",") + "}"
	}
	res := obj(p.results, func(m mention) string {
		if p.method == "batch_get" {
			return fmt.Sprintf(`{"tag":%d}`, m.tag)
		}
		return fmt.Sprintf(`{"status":%d}`, m.tag)
	})
	st := obj(p.statuses, func(m mention) string { return fmt.Sprint(m.tag) })
	er := obj(p.errors, func(m mention) string { return fmt.Sprintf(`{"status":%d,"message":"e%d"}`, 400+m.tag%100, m.tag) })
	return fmt.Sprintf(`{"results":%s,"statuses":%s,"errors":%s}`, res, st, er)
}

func multiset(xs []string) map[string]int {
	m := map[string]int{}
	for _, x := range xs {
		m[x]++
	}
	return m
}

func sameMultiset(a, b map[string]int) bool {
	if len(a) != len(b) {
		return false
	}
	for k, n := range a {
		if b[k] != n {
			return false
		}
	}
	return true
}

func trunc(s string) string {
	if len(s) > 600 {
		return s[:600] + "..."
	}
	return s
}

func showAll[K comparable](kt KT[K], ks []K) []string {
	var out []string
	for _, k := range ks {
		out = append(out, kt.Canon(k))
	}
	return out
}

// RunType explores cases for one key type.
func RunType[K comparable](run *ev.Run, rng *rand.Rand, kt KT[K], cases int) {
	base, _ := url.Parse("http://c16.invalid/ctx")
	var collisions [][]K
	if kt.Collide != nil {
		collisions = kt.Collide(rng, 6)
		run.Count(GENERATION+"."+kt.Name+".collision_groups", len(collisions))
		for _, g := range collisions {
			if kt.Hash(g[0]) != kt.Hash(g[1]) || kt.KeyCanon(g[0]) == kt.KeyCanon(g[1]) {
				run.Inconclusive("collision search produced a non-colliding group")
			}
		}
	}
	methods := []string{"batch_get", "batch_delete", "batch_update", "batch_partial_update"}
	for c := 0; c < cases; c++ {
		method := methods[c%len(methods)]
		// ----- the caller's keys
		n := []int{0, 1, 2, 3, 3, 4, 5, 8}[rng.Intn(8)]
		if c%97 == 96 {
			n = 40
		}
		keys := kt.Pool(rng, n)
		kind := "plain"
		var halfGroup []K
		if len(collisions) > 0 && rng.Intn(3) == 0 {
			g := collisions[rng.Intn(len(collisions))]
			have := map[string]bool{}
			for _, k := range keys {
				have[kt.KeyCanon(k)] = true
			}
			if rng.Intn(2) == 0 {
				// only one key of the group is requested (it sits alone in its bucket); the reply may then mention the
				// other one, which was never requested
				if !have[kt.KeyCanon(g[0])] && !have[kt.KeyCanon(g[1])] {
					keys = append(keys, g[0])
					halfGroup = g
				}
				kind = "colliding-half"
			} else {
				for _, k := range g {
					if !have[kt.KeyCanon(k)] {
						keys = append(keys, k)
					}
				}
				kind = "colliding"
			}
			rng.Shuffle(len(keys), func(i, j int) { keys[i], keys[j] = keys[j], keys[i] })
		}
		dupWanted := len(keys) > 0 && rng.Intn(4) == 0
		if dupWanted {
			src := keys[rng.Intn(len(keys))]
			twin := src
			if kt.Twin != nil {
				twin, _ = kt.Twin(src, rng)
			}
			pos := rng.Intn(len(keys) + 1)
			keys = append(keys[:pos:pos], append([]K{twin}, keys[pos:]...)...)
			kind += "+duplicate"
		}
		// for the map-based methods Go itself merges keys that are == ; what the caller supplied is the map
		var entities map[K]*Raw
		bodyTag := map[string]int{}
		if method == "batch_update" || method == "batch_partial_update" {
			entities = map[K]*Raw{}
			for _, k := range keys {
				entities[k] = nil
			}
			keys = keys[:0:0]
			for k := range entities {
				keys = append(keys, k)
			}
			sort.Slice(keys, func(i, j int) bool { return kt.Canon(keys[i]) < kt.Canon(keys[j]) })
			for i, k := range keys {
				if method == "batch_update" {
					entities[k] = &Raw{JSON: []byte(fmt.Sprintf(`{"u":%d}`, 1000+i))}
				} else {
					entities[k] = &Raw{JSON: []byte(fmt.Sprintf(`{"patch":{"$set":{"u":%d}}}`, 1000+i))}
				}
				bodyTag[kt.Canon(k)] = 1000 + i
			}
		}
		seenKey := map[string]int{}
		dup := false
		for _, k := range keys {
			seenKey[kt.KeyCanon(k)]++
			if seenKey[kt.KeyCanon(k)] > 1 {
				dup = true
			}
		}
		// ----- the reply
		p := &plan{method: method}
		tag := 200
		style := func() (int, bool) { return rng.Intn(3), rng.Intn(2) == 0 }
		for i, k := range keys {
			for m := 0; m < 3; m++ {
				if rng.Intn(3) == 0 {
					continue
				}
				tree := kt.Tree(k)
				if kt.AltTrees != nil && rng.Intn(2) == 0 {
					alts := kt.AltTrees(k, rng)
					tree = alts[rng.Intn(len(alts))]
				}
				st, sh := style()
				tag++
				me := mention{idx: i, text: EncodeKeyTree(tree, st, sh, rng), tag: tag}
				switch m {
				case 0:
					p.results = append(p.results, me)
				case 1:
					p.statuses = append(p.statuses, me)
				case 2:
					p.errors = append(p.errors, me)
				}
			}
		}
		if !dup && (rng.Intn(5) == 0 || (halfGroup != nil && rng.Intn(2) == 0)) {
			// a key that was never requested: fresh, or colliding with a requested one
			var extra *K
			if halfGroup != nil && seenKey[kt.KeyCanon(halfGroup[0])] > 0 && seenKey[kt.KeyCanon(halfGroup[1])] == 0 {
				extra = &halfGroup[1]
				run.Count(GENERATION+"."+kt.Name+".unrequested_colliding_key_replies", 1)
			}
			for _, g := range collisions {
				if seenKey[kt.KeyCanon(g[0])] > 0 && seenKey[kt.KeyCanon(g[1])] == 0 && rng.Intn(2) == 0 {
					extra = &g[1]
				}
			}
			for try := 0; extra == nil && try < 50; try++ {
				cand := kt.Pool(rng, 1)
				if len(cand) == 1 && seenKey[kt.KeyCanon(cand[0])] == 0 {
					extra = &cand[0]
				}
			}
			var extraTree any
			if extra != nil {
				extraTree = kt.Tree(*extra)
			}
			if kt.Incomplete != nil && len(keys) > 0 && rng.Intn(3) == 0 {
				// a key that lacks a required member: it was never requested either, and cannot be attributed to a caller's key
				extraTree = kt.Incomplete(keys[rng.Intn(len(keys))])
				kind += "+incomplete-key"
				run.Count(GENERATION+"."+kt.Name+".incomplete_key_replies", 1)
			}
			if kt.Foreign != nil && len(keys) > 0 && c%3 == 0 {
				// chosen by position: no PRNG draw moves
				extraTree = kt.Foreign(keys[c%len(keys)], c/3)
				kind += "+out-of-range-alias"
				run.Count(GENERATION+"."+kt.Name+".out_of_range_alias_replies", 1)
			}
			if extraTree != nil {
				st, sh := style()
				tag++
				me := mention{idx: -1, text: EncodeKeyTree(extraTree, st, sh, rng), tag: tag}
				switch rng.Intn(3) {
				case 0:
					p.results = append(p.results, me)
				case 1:
					p.statuses = append(p.statuses, me)
				default:
					p.errors = append(p.errors, me)
				}
				p.unrequest = true
				kind += "+unrequested"
			}
		}
		for _, ms := range [][]mention{p.results, p.statuses, p.errors} {
			rng.Shuffle(len(ms), func(i, j int) { ms[i], ms[j] = ms[j], ms[i] })
		}
		// ----- the call
		tr := &scripted{reply: p.reply()}
		cl := &restli.Client{Client: &http.Client{Transport: tr}, HostnameResolver: fixedResolver{base}, QueryTunnellingThreshold: 1 << 30,
			StrictResponseDeserialization: rng.Intn(2) == 0}
		rp := pathString{"things", "/things"}
		ctx := context.Background()
		var (
			results  map[K]string // key -> tag text
			statuses map[K]int
			errs     map[K]string
			err      error
			panicked any
		)
		func() {
			defer func() { panicked = recover() }()
			switch method {
			case "batch_get":
				var r *common.BatchResponse[K, *Raw]
				r, err = restli.BatchGet[K, *Raw](cl, ctx, rp, keys, nil)
				if r != nil && err == nil {
					results = map[K]string{}
					for k, v := range r.Results {
						results[k] = string(v.JSON)
					}
					statuses = r.Statuses
					errs = showErrs(r.Errors)
				}
			default:
				var r *common.BatchResponse[K, *common.BatchEntityUpdateResponse]
				switch method {
				case "batch_delete":
					r, err = restli.BatchDelete[K](cl, ctx, rp, keys, nil)
				case "batch_update":
					r, err = restli.BatchUpdate[K, *Raw](cl, ctx, rp, entities, nil, nil)
				case "batch_partial_update":
					r, err = restli.BatchPartialUpdate[K, *Raw](cl, ctx, rp, entities, nil, nil)
				}
				if r != nil && err == nil {
					results = map[K]string{}
					for k, v := range r.Results {
						results[k] = fmt.Sprintf(`{"status":%d}`, v.Status)
					}
					statuses = r.Statuses
					errs = showErrs(r.Errors)
				}
			}
		}()
		run.Eval(1)
		run.Count(GENERATION+"."+kt.Name+".calls", 1)
		desc := map[string]any{"generation": GENERATION, "key_type": kt.Name, "method": method, "keys": showAll(kt, keys), "kind": kind, "reply": trunc(tr.reply), "requests_sent": len(tr.sent)}
		if err != nil {
			desc["error"] = err.Error()
		}
		if len(tr.sent) > 0 {
			desc["target"] = trunc(tr.sent[0].Target)
		}
		sig := func(what string) string { return fmt.Sprintf("%s/%s/%s/%s", GENERATION, kt.Name, method, what) }
		if panicked != nil {
			desc["panic"] = fmt.Sprint(panicked)
			run.Violation(sig("panic"), desc)
			continue
		}
		if dup {
			switch {
			case len(tr.sent) > 0:
				run.Violation(sig("duplicate-keys-transmitted"), desc)
			case err == nil:
				run.Violation(sig("duplicate-keys-accepted"), desc)
			default:
				run.Distinct(kt.Name + "|" + method + "|duplicate-rejected|" + kind)
			}
			continue
		}
		if len(tr.sent) != 1 {
			run.Violation(sig("not-sent-exactly-once"), desc)
			continue
		}
		// ids on the wire
		want := multiset(showAll(kt, keys))
		ids, perr := wireIDs(kt, tr.sent[0].Target)
		if perr != nil {
			desc["ids_problem"] = perr.Error()
			run.Violation(sig("ids-unreadable"), desc)
			continue
		}
		if !sameMultiset(want, multiset(ids)) {
			desc["ids_decoded"] = ids
			run.Violation(sig("ids-differ-from-keys"), desc)
			continue
		}
		run.Count(GENERATION+".ids_checked", 1)
		if entities != nil {
			got, berr := bodyEntities(kt, tr.sent[0].Body, method)
			if berr != nil {
				desc["body_problem"], desc["body"] = berr.Error(), trunc(tr.sent[0].Body)
				run.Violation(sig("entities-unreadable"), desc)
				continue
			}
			bad := len(got) != len(bodyTag)
			for c, t := range bodyTag {
				if got[c] != t {
					bad = true
				}
			}
			if bad {
				desc["body"] = trunc(tr.sent[0].Body)
				run.Violation(sig("entities-differ-from-input"), desc)
				continue
			}
			run.Count(GENERATION+".entity_bodies_checked", 1)
		}
		if p.unrequest {
			if err == nil {
				run.Violation(sig("unrequested-key-accepted"), desc)
			} else {
				run.Distinct(kt.Name + "|" + method + "|unrequested-rejected|" + kind)
			}
			continue
		}
		if err != nil {
			run.Violation(sig("valid-reply-rejected"), desc)
			continue
		}
		// every mention filed under the caller's own key
		problem := ""
		check := func(name string, ms []mention, size int, lookup func(k K) (string, bool), val func(m mention) string) {
			if problem != "" {
				return
			}
			if size != len(ms) {
				problem = fmt.Sprintf("%s has %d entries, the reply has %d", name, size, len(ms))
				return
			}
			for _, m := range ms {
				got, ok := lookup(keys[m.idx])
				if !ok {
					problem = fmt.Sprintf("%s has no entry under the caller's key %s", name, kt.Canon(keys[m.idx]))
					return
				}
				if got != val(m) {
					problem = fmt.Sprintf("%s[%s] = %s, the reply attached %s to that key", name, kt.Canon(keys[m.idx]), got, val(m))
					return
				}
			}
		}
		check("results", p.results, len(results), func(k K) (string, bool) { v, ok := results[k]; return v, ok }, func(m mention) string {
			if method == "batch_get" {
				return fmt.Sprintf(`{"tag":%d}`, m.tag)
			}
			return fmt.Sprintf(`{"status":%d}`, m.tag)
		})
		check("statuses", p.statuses, len(statuses), func(k K) (string, bool) { v, ok := statuses[k]; return fmt.Sprint(v), ok }, func(m mention) string { return fmt.Sprint(m.tag) })
		check("errors", p.errors, len(errs), func(k K) (string, bool) { v, ok := errs[k]; return v, ok }, func(m mention) string { return fmt.Sprintf("e%d", m.tag) })
		if problem != "" {
			desc["problem"] = problem
			run.Violation(sig("entry-misfiled"), desc)
			continue
		}
		run.Count(GENERATION+".entries_correlated", len(p.results)+len(p.statuses)+len(p.errors))
		shape := fmt.Sprintf("r%d-s%d-e%d", imin(len(p.results), 3), imin(len(p.statuses), 3), imin(len(p.errors), 3))
		run.Distinct(kt.Name + "|" + method + "|" + kind + "|" + shape)
		if c%53 == 0 {
			run.Sample(desc)
		}
	}
}

func showErrs[K comparable](m map[K]*common.ErrorResponse) map[K]string {
	if m == nil {
		return nil
	}
	out := map[K]string{}
	for k, e := range m {
		if e == nil || e.Message == nil {
			out[k] = "<nil>"
		} else {
			out[k] = *e.Message
		}
	}
	return out
}

// wireIDs decodes the ids parameter of the request target with the reference parser.
func wireIDs[K comparable](kt KT[K], target string) ([]string, error) {
	i := strings.IndexByte(target, '?')
	if i < 0 {
		return nil, errors.New("no query")
	}
	var raw *string
	for _, part := range strings.Split(target[i+1:], "&") {
		name, val, _ := strings.Cut(part, "=")
		if name == "ids" {
			if raw != nil {
				return nil, errors.New("ids appears twice")
			}
			v := val
			raw = &v
		}
	}
	if raw == nil {
		return nil, errors.New("no ids parameter")
	}
	tree, err := refcodec.ParseROR2(*raw, refcodec.Query)
	if err != nil {
		return nil, err
	}
	list, ok := tree.([]any)
	if !ok {
		return nil, fmt.Errorf("ids is not a list: %v", tree)
	}
	var out []string
	for _, e := range list {
		c, err := kt.FromTree(e)
		if err != nil {
			return nil, err
		}
		out = append(out, c)
	}
	return out, nil
}

// bodyEntities decodes {"entities": {<key>: <entity>}} into canon -> tag.
func bodyEntities[K comparable](kt KT[K], body, method string) (map[string]int, error) {
	// token by token: encoding/json would silently merge object members that appear twice
	type member struct {
		text string
		raw  json.RawMessage
	}
	var members []member
	dec := json.NewDecoder(strings.NewReader(body))
	expect := func(d json.Delim) error {
		t, err := dec.Token()
		if err != nil {
			return err
		}
		if t != d {
			return fmt.Errorf("expected %v, found %v", d, t)
		}
		return nil
	}
	if err := expect('{'); err != nil {
		return nil, err
	}
	sawEntities := false
	for dec.More() {
		t, err := dec.Token()
		if err != nil {
			return nil, err
		}
		if t != "entities" || sawEntities {
			return nil, fmt.Errorf("unexpected top-level member %v", t)
		}
		sawEntities = true
		if err := expect('{'); err != nil {
			return nil, err
		}
		for dec.More() {
			k, err := dec.Token()
			if err != nil {
				return nil, err
			}
			var raw json.RawMessage
			if err := dec.Decode(&raw); err != nil {
				return nil, err
			}
			members = append(members, member{k.(string), raw})
		}
		if err := expect('}'); err != nil {
			return nil, err
		}
	}
	if !sawEntities {
		return nil, errors.New("no entities member")
	}
	out := map[string]int{}
	for _, mb := range members {
		text, rawEntity := mb.text, mb.raw
		tree, err := refcodec.ParseROR2(text, refcodec.Header)
		if err != nil {
			return nil, fmt.Errorf("entity key %q: %w", text, err)
		}
		c, err := kt.FromTree(tree)
		if err != nil {
			return nil, fmt.Errorf("entity key %q: %w", text, err)
		}
		if _, dup := out[c]; dup {
			return nil, fmt.Errorf("entity key %s appears twice", c)
		}
		var e struct {
			U     *int `json:"u"`
			Patch *struct {
				Set struct {
					U *int `json:"u"`
				} `json:"$set"`
			} `json:"patch"`
		}
		if err := json.Unmarshal(rawEntity, &e); err != nil {
			return nil, err
		}
		switch {
		case method == "batch_update" && e.U != nil:
			out[c] = *e.U
		case method == "batch_partial_update" && e.Patch != nil && e.Patch.Set.U != nil:
			out[c] = *e.Patch.Set.U
		default:
			return nil, fmt.Errorf("entity under %s has no tag: %s", c, rawEntity)
		}
	}
	return out, nil
}

// RunAll runs the key types that exist in both generations.
func RunAll(run *ev.Run, rng *rand.Rand, cases int) {
	RunType(run, rng, StringKT(), cases)
	RunType(run, rng, Int32KT(), cases/2)
	RunType(run, rng, Int64KT(), cases/2)
	RunType(run, rng, Float32KT(), cases/2)
	RunType(run, rng, Float64KT(), cases/2)
	RunType(run, rng, BoolKT(), cases/4)
	RunType(run, rng, SuitKT(), cases/2)
	RunType(run, rng, HKKT(), cases)
}

func imin(a, b int) int {
	if a < b {
		return a
	}
	return b
}
