// C16 — batch calls correlate every response entry with the caller's original key.
//
// Monitor: the library's generic batch client functions are driven, per key type, with hostile key multisets
// (duplicates under key equality, keys whose bucket hashes collide, keys that differ only in characters that need
// escaping, complex keys equal up to their parameters) through a scripted transport whose replies are printed by
// an independent reference encoder (alternative escapings, shuffled member order, other or no parameters) and
// mention any subset / permutation of the requested keys across results, statuses and errors, sometimes a key that
// was never requested.  The oracle decodes the ids parameter (and the entities body) seen on the wire with the
// reference parser and compares the multiset with the caller's keys, and looks every reply entry up under the very
// Go value the caller supplied (pointer identity for complex keys).
package main

import (
	"fmt"
	"io"
	"log"
	"math/rand"
	"strconv"

	"github.com/PapaCharlie/go-restli/v2/fnv1a"
	"github.com/PapaCharlie/go-restli/v2/restlicodec"

	"verifh/ev"
	"verifh/gen/ks/ks/kt"
	"verifh/props/c16/gen1"
	"verifh/props/c16/gen2"
)

// Tag is a custom typeref over string (v2 generation only: the root module's key sets have no custom typerefs).
type Tag struct{ S string }

func tagKT() gen2.KT[Tag] {
	base := gen2.StringKT()
	k := gen2.KT[Tag]{
		Name: "custom-typeref",
		Pool: func(rng *rand.Rand, n int) []Tag {
			var out []Tag
			for _, s := range base.Pool(rng, n) {
				out = append(out, Tag{s})
			}
			return out
		},
		Canon:    func(t Tag) string { return base.Canon(t.S) },
		KeyCanon: func(t Tag) string { return base.KeyCanon(t.S) },
		Tree:     func(t Tag) any { return t.S },
		FromTree: base.FromTree,
		Hash:     func(t Tag) uint32 { return uint32(fnv1a.HashString(t.S).MapKey()) },
	}
	k.Collide = func(rng *rand.Rand, want int) [][]Tag {
		return gen2.FindCollisions(want, 400000, func(i int) Tag { return Tag{gen2.MixName(i)} }, k.Hash)
	}
	return k
}

func colorKT() gen2.KT[kt.Color] {
	canon := func(c kt.Color) string { return c.String() }
	return gen2.KT[kt.Color]{
		Name: "generated-enum",
		Pool: func(rng *rand.Rand, n int) []kt.Color {
			all := kt.AllColorValues()
			rng.Shuffle(len(all), func(i, j int) { all[i], all[j] = all[j], all[i] })
			if n < len(all) {
				all = all[:n]
			}
			return all
		},
		Canon: canon, KeyCanon: canon,
		Tree: func(c kt.Color) any { return canon(c) },
		FromTree: func(t any) (string, error) {
			if s, ok := t.(string); ok {
				if _, err := kt.GetColorFromString(s); err == nil {
					return s, nil
				}
			}
			return "", fmt.Errorf("not a Color: %v", t)
		},
	}
}

var ckStrings = []string{"", "a", "a,b", "(a)", "a:b", "a'b", "%", "a%2Cb", "é", "a b", "$params", "List()", "日本", "a/b", "a+b", "a&b=c"}

func ckKeyCanon(c *kt.CK) string { return fmt.Sprintf("a=%q|b=%d", c.A, c.B) }
func ckCanon(c *kt.CK) string {
	p := "-"
	if c.Params != nil {
		q := "-"
		if c.Params.Q != nil {
			q = fmt.Sprint(*c.Params.Q)
		}
		p = fmt.Sprintf("p=%q,q=%s", c.Params.P, q)
	}
	return ckKeyCanon(c) + "|params=" + p
}
func ckTree(c *kt.CK) any {
	m := map[string]any{"a": c.A, "b": strconv.FormatInt(c.B, 10)}
	if c.Params != nil {
		p := map[string]any{"p": c.Params.P}
		if c.Params.Q != nil {
			p["q"] = fmt.Sprint(*c.Params.Q)
		}
		m["$params"] = p
	}
	return m
}
func ckParams(rng *rand.Rand) *kt.ParamPart {
	if rng.Intn(3) == 0 {
		return nil
	}
	p := &kt.ParamPart{P: ckStrings[rng.Intn(len(ckStrings))]}
	if rng.Intn(2) == 0 {
		q := int32(rng.Intn(50))
		p.Q = &q
	}
	return p
}

func ckKT() gen2.KT[*kt.CK] {
	k := gen2.KT[*kt.CK]{
		Name: "generated-complex",
		Pool: func(rng *rand.Rand, n int) []*kt.CK {
			seen := map[string]bool{}
			var out []*kt.CK
			for len(out) < n {
				c := &kt.CK{KeyPart: kt.KeyPart{A: ckStrings[rng.Intn(len(ckStrings))], B: int64(rng.Intn(5))}, Params: ckParams(rng)}
				if rng.Intn(4) == 0 {
					c.B = rng.Int63() - rng.Int63()
				}
				if !seen[ckKeyCanon(c)] {
					seen[ckKeyCanon(c)] = true
					out = append(out, c)
				}
			}
			return out
		},
		Canon: ckCanon, KeyCanon: ckKeyCanon, Tree: ckTree,
		FromTree: func(t any) (string, error) {
			m, ok := t.(map[string]any)
			if !ok {
				return "", fmt.Errorf("not a complex key: %v", t)
			}
			c := &kt.CK{}
			a, okA := m["a"].(string)
			b, okB := m["b"].(string)
			if !okA || !okB {
				return "", fmt.Errorf("key part incomplete: %v", t)
			}
			c.A = a
			n, err := strconv.ParseInt(b, 10, 64)
			if err != nil {
				return "", err
			}
			c.B = n
			for f, v := range m {
				switch f {
				case "a", "b":
				case "$params":
					pm, ok := v.(map[string]any)
					if !ok {
						return "", fmt.Errorf("$params is not a record")
					}
					c.Params = &kt.ParamPart{}
					for pf, pv := range pm {
						ps, _ := pv.(string)
						switch pf {
						case "p":
							c.Params.P = ps
						case "q":
							q, err := strconv.ParseInt(ps, 10, 32)
							if err != nil {
								return "", err
							}
							q32 := int32(q)
							c.Params.Q = &q32
						default:
							return "", fmt.Errorf("unexpected params member %q", pf)
						}
					}
				default:
					return "", fmt.Errorf("unexpected key member %q", f)
				}
			}
			return ckCanon(c), nil
		},
		Twin: func(c *kt.CK, rng *rand.Rand) (*kt.CK, bool) {
			return &kt.CK{KeyPart: c.KeyPart, Params: ckParams(rng)}, true
		},
		AltTrees: func(c *kt.CK, rng *rand.Rand) []any {
			var out []any
			for i := 0; i < 2; i++ {
				out = append(out, ckTree(&kt.CK{KeyPart: c.KeyPart, Params: ckParams(rng)}))
			}
			return out
		},
		Hash: func(c *kt.CK) uint32 { return uint32(c.ComputeComplexKeyHash().MapKey()) },
	}
	k.Collide = func(rng *rand.Rand, want int) [][]*kt.CK {
		return gen2.FindCollisions(want, 400000, func(i int) *kt.CK {
			return &kt.CK{KeyPart: kt.KeyPart{A: gen2.MixName(i), B: int64(i % 2)}}
		}, k.Hash)
	}
	return k
}

func main() {
	log.SetOutput(io.Discard)
	run := ev.Start("C16")
	run.Rule("case = (generation, key type, batch method, key multiset, scripted reply): key types = string, int, long, float, double, boolean, hand-written enum and complex key (both generations), custom typeref, generated enum and generated complex key (v2); multisets mix hostile strings, numeric extremes, keys with colliding bucket hashes, duplicates under key equality (complex keys: other parameters; floats: -0/+0); replies mention each requested key in any subset of results/statuses/errors in shuffled order, printed by the reference encoder in three escaping styles with shuffled members and other parameters, and sometimes a never-requested (fresh or colliding) key. Checked: duplicates fail with nothing sent; exactly one request; ids (and entities body keys + attached entities) decode to exactly the caller's keys; every entry is found under the caller's own Go value with the value the reply attached; sizes equal; unrequested key => error. distinct = (key type, method, key-set kind, reply shape)")
	run.Assume("bytes keys cannot be expressed (K must be comparable), NaN keys and replies that mention one key twice are not generated", "the query is never tunnelled here (C14 covers tunnelling)")
	rng := rand.New(rand.NewSource(run.Seed))
	cases := run.Pick(1200, 20000)
	restlicodec.RegisterCustomTyperef(
		func(t Tag) (string, error) { return t.S, nil },
		func(s string) (Tag, error) { return Tag{s}, nil },
		func(t Tag) fnv1a.Hash { return fnv1a.HashString(t.S) },
		func(a, b Tag) bool { return a == b },
	)
	gen2.RunAll(run, rng, cases)
	gen2.RunType(run, rng, tagKT(), cases)
	gen2.RunType(run, rng, colorKT(), cases/2)
	gen2.RunType(run, rng, ckKT(), cases)
	gen1.RunAll(run, rng, cases)
	run.Require("v2.ids_checked", 100)
	run.Require("root.ids_checked", 100)
	run.Require("v2.entries_correlated", 100)
	run.Require("root.entries_correlated", 100)
	run.Require("v2.complex.collision_groups", 1)
	run.Finish()
}
