// C16 — batch calls correlate every response entry with the caller's original key.
//
// Monitor: the library's generic batch client functions are driven, per key type, with hostile key multisets
// (duplicates under key equality, keys whose bucket hashes collide, keys that differ only in characters that need
// escaping, complex keys equal up to their parameters) through a scripted transport whose replies are printed by
// an independent reference encoder (alternative escapings, shuffled member order, other or no parameters) and
// mention any subset / permutation of the requested keys across results, statuses and errors, sometimes a key that
// was never requested.  The oracle decodes the ids parameter (and the entities body) seen on the wire with the
// reference parser and compares the multiset with the caller's keys, and looks every reply entry up under the very
// Go value the caller supplied (pointer identity for complex keys).
package main

import (
	"fmt"
	"io"
	"log"
	"math/rand"

	"github.com/PapaCharlie/go-restli/v2/fnv1a"
	"github.com/PapaCharlie/go-restli/v2/restlicodec"

	"verifh/ev"
	"verifh/props/c16/gen1"
	"verifh/props/c16/gen2"
)

// Tag is a custom typeref over string (v2 generation only: the root module's key sets have no custom typerefs).
type Tag struct{ S string }

func tagKT() gen2.KT[Tag] {
	base := gen2.StringKT()
	k := gen2.KT[Tag]{
		Name: "custom-typeref",
		Pool: func(rng *rand.Rand, n int) []Tag {
			var out []Tag
			for _, s := range base.Pool(rng, n) {
				out = append(out, Tag{s})
			}
			return out
		},
		Canon:    func(t Tag) string { return base.Canon(t.S) },
		KeyCanon: func(t Tag) string { return base.KeyCanon(t.S) },
		Tree:     func(t Tag) any { return t.S },
		FromTree: base.FromTree,
		Hash:     func(t Tag) uint32 { return uint32(fnv1a.HashString(t.S).MapKey()) },
	}
	k.Collide = func(rng *rand.Rand, want int) [][]Tag {
		return gen2.FindCollisions(want, 400000, func(i int) Tag { return Tag{gen2.MixName(i)} }, k.Hash)
	}
	return k
}

// Labelled is a custom typeref over string whose registered equality is coarser than Go's ==: the label is local
// bookkeeping of the caller, it is neither sent nor compared.
type Labelled struct{ S, Label string }

func labelledKT() gen2.KT[Labelled] {
	base := gen2.StringKT()
	n := 0
	k := gen2.KT[Labelled]{
		Name: "custom-typeref-coarse-equality",
		Pool: func(rng *rand.Rand, cnt int) []Labelled {
			var out []Labelled
			for _, s := range base.Pool(rng, cnt) {
				n++
				out = append(out, Labelled{s, fmt.Sprintf("caller-%d", n)})
			}
			return out
		},
		Canon:    func(t Labelled) string { return base.Canon(t.S) }, // what travels; the caller's own value is the map key looked up
		KeyCanon: func(t Labelled) string { return base.KeyCanon(t.S) },
		Tree:     func(t Labelled) any { return t.S },
		FromTree: base.FromTree,
		Twin:     func(t Labelled, rng *rand.Rand) (Labelled, bool) { return Labelled{t.S, t.Label + "-twin"}, true },
		Hash:     func(t Labelled) uint32 { return uint32(fnv1a.HashString(t.S).MapKey()) },
	}
	return k
}

func main() {
	log.SetOutput(io.Discard)
	run := ev.Start("C16")
	defer run.Guard()
	run.Rule("case = (generation, key type, batch method, key multiset, scripted reply): key types = string, int, long, float, double, boolean, hand-written enum and complex key (both generations), custom typeref, generated enum and generated complex key (v2); multisets mix hostile strings, numeric extremes, keys with colliding bucket hashes, duplicates under key equality (complex keys: other parameters; floats: -0/+0); replies mention each requested key in any subset of results/statuses/errors in shuffled order, printed by the reference encoder in three escaping styles with shuffled members and other parameters, and sometimes a never-requested key (fresh, colliding, or — integer keys — a requested key plus or minus 2^32 / 2^64, which a narrowing decode would file under the requested one). Checked: duplicates fail with nothing sent; exactly one request; ids (and entities body keys + attached entities) decode to exactly the caller's keys; every entry is found under the caller's own Go value with the value the reply attached; sizes equal; unrequested key => error. distinct = (key type, method, key-set kind, reply shape)")
	run.Assume("bytes keys cannot be expressed (K must be comparable), NaN keys and replies that mention one key twice are not generated", "the query is never tunnelled here (C14 covers tunnelling)")
	rng := rand.New(rand.NewSource(run.Seed))
	cases := run.Pick(1200, 20000)
	restlicodec.RegisterCustomTyperef(
		func(t Tag) (string, error) { return t.S, nil },
		func(s string) (Tag, error) { return Tag{s}, nil },
		func(t Tag) fnv1a.Hash { return fnv1a.HashString(t.S) },
		func(a, b Tag) bool { return a == b },
	)
	restlicodec.RegisterCustomTyperef(
		func(t Labelled) (string, error) { return t.S, nil },
		func(s string) (Labelled, error) { return Labelled{S: s}, nil },
		func(t Labelled) fnv1a.Hash { return fnv1a.HashString(t.S) },
		func(a, b Labelled) bool { return a.S == b.S },
	)
	gen2.RunAll(run, rng, cases)
	gen2.RunType(run, rng, tagKT(), cases)
	gen2.RunType(run, rng, labelledKT(), cases/2)
	gen2.RunGenerated(run, rng, cases)
	gen1.RunAll(run, rng, cases)
	gen1.RunGenerated(run, rng, cases)
	run.Require("v2.ids_checked", 100)
	run.Require("root.ids_checked", 100)
	run.Require("v2.entries_correlated", 100)
	run.Require("root.entries_correlated", 100)
	run.Require("v2.complex.collision_groups", 1)
	run.Require("v2.complex.unrequested_colliding_key_replies", 3)
	run.Require("v2.int.out_of_range_alias_replies", 3)
	run.Require("root.int.out_of_range_alias_replies", 3)
	run.Finish()
}
