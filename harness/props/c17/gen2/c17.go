// Package gen2 is the generation-specific half of the C17 monitor: one handler and one restli.Client shared by many
// goroutines.  The same list of requests (each carrying a unique token in its keys, parameters, headers and body)
// is executed serially and then concurrently; what every request observed (invocation seen by resource code, pre-
// request filter events, HTTP status / headers / body on the wire, the client-level result) is returned per token
// so that the driver can compare the two executions and look for tokens of other requests.
// props/c17/gen1 is derived from this file by derive.sh.
package gen2

import (
	"encoding/json"
	"errors"
	"fmt"
	"io"
	"math/rand"
	"net"
	"net/http"
	"net/url"
	"runtime"
	"sort"
	"strings"
	"sync"
	"time"

	common "github.com/PapaCharlie/go-restli/v2/restlidata/generated/com/linkedin/restli/common"

	kit "verifh/props/hw/gen2"
)

const GENERATION = "v2"

// Req is one request of the case list.
type Req struct {
	Token   string
	Kind    string // get | get-sub | create | update | partial_update | delete | batch_get | batch_delete | finder | action | entity-action | get_all | get-long
	Outcome string // ok | status | error-response | shared-error | plain-error | panic
	N       int
}

// Rec is everything observable about one request.
type Rec struct {
	Invocations []string `json:"invocations"`
	Filters     []string `json:"filters"`
	Status      int      `json:"status"`
	ErrHeader   string   `json:"err_header"`
	IDHeader    string   `json:"id_header"`
	Location    string   `json:"location"`
	Body        string   `json:"body"`
	Result      string   `json:"result"`
	Err         string   `json:"err"`
	Tunnelled   bool     `json:"tunnelled"`
}

func p32(v int32) *int32  { return &v }
func ps(v string) *string { return &v }

var sharedErrors = []*common.ErrorResponse{
	{Status: p32(409), Message: ps("shared conflict")},
	{Status: p32(404)},
	{Message: ps("shared, no status")},
	{Status: p32(503), Message: ps("shared busy"), ExceptionClass: ps("com.example.Busy")},
	{},
}

var kinds = []string{"deep-x", "deep-y", "get", "get-sub", "create", "update", "partial_update", "delete", "batch_get", "batch_delete", "finder", "action", "entity-action", "get_all", "get-long", "simple-get", "batch_update", "batch_update-long"}
var outcomes = []string{"ok", "ok", "status", "error-response", "shared-error", "plain-error", "panic"}

// Cases builds the request list for a seed.
func Cases(seed int64, n int) []Req {
	rng := rand.New(rand.NewSource(seed))
	out := make([]Req, n)
	for i := range out {
		out[i] = Req{Token: fmt.Sprintf("zq%dx", i), Kind: kinds[rng.Intn(len(kinds))], Outcome: outcomes[rng.Intn(len(outcomes))], N: i}
	}
	return out
}

// World is one server + one shared client.
type World struct {
	srv    *http.Server
	late   func(i int)
	segs   map[string]string // request kind -> resource path segment chain a filter must see
	rec    *kit.Recorder
	flog   *kit.FilterLog
	shared *kit.SharedClient
	reqs   map[string]Req
}

func NewWorld(reqs []Req, mounting string) (*World, error) {
	w := &World{rec: &kit.Recorder{}, flog: &kit.FilterLog{}, reqs: map[string]Req{}}
	for _, r := range reqs {
		w.reqs[r.Token] = r
	}
	w.rec.Script = func(inv *kit.Invocation) kit.Outcome {
		r, ok := w.reqs[inv.ReqID]
		if !ok {
			return kit.Outcome{Err: errors.New("unknown request id " + inv.ReqID)}
		}
		o := kit.Outcome{Body: []byte(fmt.Sprintf(`{"echo":%q}`, r.Token)), CreatedID: "id-" + r.Token}
		switch r.Outcome {
		case "status":
			o.Status = 202 + r.N%5
		case "error-response":
			o.Err = &common.ErrorResponse{Status: p32(int32(400 + r.N%100)), Message: ps("failed " + r.Token), ExceptionClass: ps("C-" + r.Token)}
		case "shared-error":
			o.Err = sharedErrors[r.N%len(sharedErrors)]
		case "plain-error":
			o.Err = errors.New("plain " + r.Token)
		case "panic":
			o.DoPanic, o.Panic = true, "panic "+r.Token
		}
		if r.Kind == "batch_get" || r.Kind == "batch_delete" || r.Kind == "batch_update" || r.Kind == "batch_update-long" {
			o.BatchResults = map[string][]byte{r.Token + "-a": []byte(fmt.Sprintf(`{"k":%q}`, r.Token+"-a"))}
			o.BatchStatuses = map[string]int{r.Token + "-b": 200 + r.N%50}
			o.BatchErrors = map[string]*common.ErrorResponse{r.Token + "-c": {Status: p32(404), Message: ps("missing " + r.Token)}}
		}
		return o
	}
	filters := kit.NewFilters([]string{"ctx", "pass", "ctx"}, w.flog)
	var s = kit.NewServer(filters)
	if mounting == "prefixed" {
		s = kit.NewPrefixedServer("/api", filters)
	}
	kit.Register(s, kit.ResourceSpec{
		Segments: []kit.Segment{{Name: "things", IsCollection: true}},
		Methods:  []string{"get", "create", "update", "partial_update", "delete", "get_all", "batch_get", "batch_delete", "batch_update", "batch_create"},
		Finders:  []string{"search"},
		Actions:  []kit.ActionSpec{{Name: "poke", OnEntity: true}, {Name: "sum"}},
	}, w.rec)
	kit.Register(s, kit.ResourceSpec{
		Segments: []kit.Segment{{Name: "things", IsCollection: true}, {Name: "parts", IsCollection: true}},
		Methods:  []string{"get", "update", "delete"},
	}, w.rec)
	kit.Register(s, kit.ResourceSpec{
		Segments: []kit.Segment{{Name: "single"}},
		Methods:  []string{"get", "update", "delete"},
		Actions:  []kit.ActionSpec{{Name: "reset"}},
	}, w.rec)
	// two sibling leaves below a chain of three simple resources (nesting depth 4)
	deep := []kit.Segment{{Name: "single"}, {Name: "alpha"}, {Name: "beta"}}
	deepX := append(append([]kit.Segment(nil), deep...), kit.Segment{Name: "xleaf"})
	deepY := append(append([]kit.Segment(nil), deep...), kit.Segment{Name: "yleaf"})
	kit.Register(s, kit.ResourceSpec{Segments: deepX, Methods: []string{"get"}}, w.rec)
	kit.Register(s, kit.ResourceSpec{Segments: deepY, Methods: []string{"get"}}, w.rec)
	things := []kit.Segment{{Name: "things", IsCollection: true}}
	parts := []kit.Segment{{Name: "things", IsCollection: true}, {Name: "parts", IsCollection: true}}
	single := []kit.Segment{{Name: "single"}}
	w.segs = map[string]string{"deep-x": kit.SegmentsString(deepX), "deep-y": kit.SegmentsString(deepY), "get-sub": kit.SegmentsString(parts), "simple-get": kit.SegmentsString(single)}
	for _, k := range kinds {
		if _, ok := w.segs[k]; !ok {
			w.segs[k] = kit.SegmentsString(things)
		}
	}
	// registrations made on the Server after Handler() was taken: resources the handler already knows get further
	// finders and actions; the handler is a snapshot and keeps serving
	w.late = func(i int) {
		switch i % 3 {
		case 0:
			kit.Register(s, kit.ResourceSpec{Segments: things, Finders: []string{fmt.Sprintf("late%d", i)}}, w.rec)
		case 1:
			kit.Register(s, kit.ResourceSpec{Segments: parts, Actions: []kit.ActionSpec{{Name: fmt.Sprintf("late%d", i)}}}, w.rec)
		default:
			kit.Register(s, kit.ResourceSpec{Segments: single, Actions: []kit.ActionSpec{{Name: fmt.Sprintf("late%d", i)}}}, w.rec)
		}
	}
	handler := s.Handler()
	prefix := ""
	if mounting == "prefixed" {
		prefix = "/api"
	}
	if mounting == "inproc" {
		base, _ := url.Parse("http://inproc.invalid")
		w.shared = kit.NewSharedClient(base, 300, false, kit.InProc{H: handler})
		return w, nil
	}
	ln, err := net.Listen("tcp", "127.0.0.1:0")
	if err != nil {
		return nil, err
	}
	w.srv = &http.Server{Handler: handler}
	go w.srv.Serve(ln)
	base, _ := url.Parse("http://" + ln.Addr().String() + prefix)
	w.shared = kit.NewSharedClient(base, 300, false, &http.Transport{MaxIdleConnsPerHost: 64})
	return w, nil
}

func (w *World) Close() {
	if w.srv != nil {
		w.srv.Close()
	}
}

// LateRegister performs the i-th registration on the Server the handler was taken from.
func (w *World) LateRegister(i int) (problem string) {
	defer func() {
		if p := recover(); p != nil {
			problem = fmt.Sprint(p)
		}
	}()
	w.late(i)
	return ""
}

func showBatch(b *kit.BatchResult) string {
	if b == nil {
		return "<nil>"
	}
	j, _ := json.Marshal(b)
	return string(j)
}

// do performs one request through the shared client.
func (w *World) do(r Req) (result string, wire *kit.Wire, err error) {
	defer func() {
		if p := recover(); p != nil {
			err = fmt.Errorf("PANIC IN CLIENT: %v", p)
		}
	}()
	t := &kit.Typed{Shared: w.shared, ReqID: r.Token, Extra: http.Header{"X-Token": {r.Token}}}
	defer w.shared.Forget(r.Token)
	tk := r.Token
	q := "p=" + tk
	// entity keys carry characters the path writer has to escape (URN-like keys), encoded by the library per request
	ent := kit.EntityPath("/things/", "urn:li:("+tk+",1) é")
	body := []byte(fmt.Sprintf(`{"v":%q}`, tk))
	switch r.Kind {
	case "get":
		v, wr, e := t.Get("things", ent, &q)
		if v != nil {
			result = string(v.JSON)
		}
		return result, wr, e
	case "deep-x", "deep-y":
		v, wr, e := t.Get("single", "/single/alpha/beta/"+r.Kind[5:]+"leaf", &q)
		if v != nil {
			result = string(v.JSON)
		}
		return result, wr, e
	case "simple-get":
		v, wr, e := t.Get("single", "/single", &q)
		if v != nil {
			result = string(v.JSON)
		}
		return result, wr, e
	case "get-long":
		long := "p=" + tk + "&pad=" + strings.Repeat("a", 400) // above the tunnelling threshold
		v, wr, e := t.Get("things", ent, &long)
		if v != nil {
			result = string(v.JSON)
		}
		return result, wr, e
	case "get-sub":
		v, wr, e := t.Get("things", kit.EntityPath(ent+"/parts/", "sub:("+tk+")"), &q)
		if v != nil {
			result = string(v.JSON)
		}
		return result, wr, e
	case "get_all":
		v, wr, e := t.GetAll("things", "/things", &q)
		for _, x := range v {
			result += string(x.JSON) + ";"
		}
		return result, wr, e
	case "finder":
		v, wr, e := t.Find("things", "/things", "q=search&term="+tk)
		for _, x := range v {
			result += string(x.JSON) + ";"
		}
		return result, wr, e
	case "create":
		id, st, wr, e := t.Create("things", "/things", body)
		return fmt.Sprintf("id=%s status=%d", id, st), wr, e
	case "update":
		wr, e := t.Update("things", ent, body)
		return "", wr, e
	case "partial_update":
		wr, e := t.PartialUpdate("things", ent, []byte(fmt.Sprintf(`{"patch":{"$set":{"v":%q}}}`, tk)))
		return "", wr, e
	case "delete":
		wr, e := t.Delete("things", ent)
		return "", wr, e
	case "batch_get":
		b, wr, e := t.BatchGet("things", "/things", []string{tk + "-a", tk + "-b", tk + "-c"})
		return showBatch(b), wr, e
	case "batch_delete":
		b, wr, e := t.BatchDelete("things", "/things", []string{tk + "-a", tk + "-b", tk + "-c"})
		return showBatch(b), wr, e
	case "batch_update":
		b, wr, e := t.BatchUpdate("things", "/things", map[string][]byte{tk + "-a": body, tk + "-b": body, tk + "-c": body})
		return showBatch(b), wr, e
	case "batch_update-long":
		// long keys push the ids parameter over the tunnelling threshold: a tunnelled request that also has a body
		pad := strings.Repeat("p", 150)
		b, wr, e := t.BatchUpdate("things", "/things", map[string][]byte{tk + "-a" + pad: body, tk + "-b" + pad: body, tk + "-c": body})
		return showBatch(b), wr, e
	case "action":
		v, wr, e := t.Action("things", "/things", "sum", body)
		return v, wr, e
	case "entity-action":
		v, wr, e := t.Action("things", ent, "poke", body)
		return v, wr, e
	}
	return "", nil, errors.New("unknown kind " + r.Kind)
}

func stripStack(body string) string {
	if !strings.Contains(body, "stackTrace") {
		return body
	}
	var m map[string]any
	if json.Unmarshal([]byte(body), &m) != nil {
		return body
	}
	delete(m, "stackTrace")
	b, _ := json.Marshal(m)
	return string(b)
}

// Execute runs the requests with the given number of goroutines (1 = serial, in list order) and returns the
// observations per token.
func (w *World) Execute(reqs []Req, goroutines int, seed int64) map[string]*Rec {
	out := map[string]*Rec{}
	var mu sync.Mutex
	order := make([]int, len(reqs))
	for i := range order {
		order[i] = i
	}
	if goroutines > 1 {
		rand.New(rand.NewSource(seed)).Shuffle(len(order), func(i, j int) { order[i], order[j] = order[j], order[i] })
	}
	next := make(chan int, len(order))
	for _, i := range order {
		next <- i
	}
	close(next)
	var wg sync.WaitGroup
	for g := 0; g < goroutines; g++ {
		wg.Add(1)
		go func(g int) {
			defer wg.Done()
			rng := rand.New(rand.NewSource(seed + int64(g)))
			for i := range next {
				r := reqs[i]
				if goroutines > 1 {
					switch rng.Intn(4) {
					case 0:
						runtime.Gosched()
					case 1:
						time.Sleep(time.Duration(rng.Intn(200)) * time.Microsecond)
					}
				}
				result, wire, err := w.do(r)
				rec := &Rec{Result: result}
				if err != nil {
					kind, status, msg := kit.DescribeError(err)
					rec.Err = fmt.Sprintf("%s|%d|%s", kind, status, msg)
					if kind != "restli.Error" && kind != "none" {
						rec.Err += "|" + stripStack(err.Error())
					}
				}
				if wire != nil {
					rec.Status = wire.Status
					rec.ErrHeader = wire.RespHeader.Get("X-RestLi-Error-Response")
					rec.IDHeader = wire.RespHeader.Get("X-RestLi-Id")
					rec.Location = wire.RespHeader.Get("Location")
					rec.Body = stripStack(wire.RespBody)
					rec.Tunnelled = wire.Header.Get("X-HTTP-Method-Override") != ""
					if wire.TransportErr != "" {
						rec.Err += "|transport:" + wire.TransportErr
					}
				}
				mu.Lock()
				out[r.Token] = rec
				mu.Unlock()
			}
		}(g)
	}
	wg.Wait()
	for _, inv := range w.rec.Drain() {
		rec := out[inv.ReqID]
		if rec == nil {
			rec = &Rec{}
			out["?"+inv.ReqID] = rec
		}
		keep := http.Header{}
		for _, h := range []string{"X-Token", "X-Verif-Req", "X-Restli-Method", "X-Http-Method-Override", "Content-Type"} {
			if v := inv.Headers.Values(h); len(v) > 0 {
				keep[h] = v
			}
		}
		inv.Headers = keep
		if i := strings.Index(inv.Path, "/things"); i > 0 {
			inv.Path = inv.Path[i:]
		}
		j, _ := json.Marshal(inv)
		rec.Invocations = append(rec.Invocations, string(j))
	}
	for _, fe := range w.flog.Drain() {
		if fe.Phase != "pre" && fe.ReqID == "" {
			continue // a post-request event that no context-adding filter tagged
		}
		rec := out[fe.ReqID]
		if rec == nil {
			rec = &Rec{}
			out["?"+fe.ReqID] = rec
		}
		j, _ := json.Marshal(fe)
		rec.Filters = append(rec.Filters, string(j))
		if r, ok := w.reqs[fe.ReqID]; ok && fe.Phase == "pre" && fe.Segments != w.segs[r.Kind] {
			rec.Filters = append(rec.Filters, fmt.Sprintf("WRONG-SEGMENTS filter %d saw %q, the request is for %q", fe.Filter, fe.Segments, w.segs[r.Kind]))
		}
	}
	for _, rec := range out {
		sort.Strings(rec.Invocations)
		sort.Strings(rec.Filters)
	}
	return out
}

// SharedErrorsIntact reports whether the shared error objects still have their original content.
func SharedErrorsIntact() string {
	want := []string{`409|shared conflict||`, `404|<nil>||`, `<nil>|shared, no status||`, `503|shared busy||com.example.Busy`, `<nil>|<nil>||`}
	d := func(p *string) string {
		if p == nil {
			return ""
		}
		return *p
	}
	for i, e := range sharedErrors {
		st, msg := "<nil>", "<nil>"
		if e.Status != nil {
			st = fmt.Sprint(*e.Status)
		}
		if e.Message != nil {
			msg = *e.Message
		}
		got := fmt.Sprintf("%s|%s||%s", st, msg, d(e.ExceptionClass))
		if got != want[i] {
			return fmt.Sprintf("shared error %d is now %s (was %s)", i, got, want[i])
		}
	}
	return ""
}

// ---------------------------------------------------------------------------------------------
// one caller-owned header map handed to every request

type stubTransport struct{}

func (stubTransport) RoundTrip(req *http.Request) (*http.Response, error) {
	if req.Body != nil {
		_, _ = io.Copy(io.Discard, req.Body)
		req.Body.Close()
	}
	h := http.Header{"X-Restli-Protocol-Version": {"2.0.0"}, "Content-Type": {"application/json"}}
	return &http.Response{StatusCode: 200, Header: h, Body: io.NopCloser(strings.NewReader(`{"ok":true}`)), Request: req}, nil
}

// SharedExtraHeaders issues n requests of mixed kinds from several goroutines; every request gets the SAME header map
// from its ExtraRequestHeaders callback (the way a static auth header is usually supplied). What each request carries
// on the wire must be what a request of its kind carries when it is the only one ever made, and the caller's map must
// come back untouched.
func SharedExtraHeaders(seed int64, n, goroutines int) (problems []string, compared int) {
	static := http.Header{"X-Auth": {"token-of-the-caller"}}
	base, _ := url.Parse("http://stub.invalid")
	type want struct{ verb, method, ctype, override string }
	expect := map[string]want{
		"get":            {"GET", "get", "", ""},
		"get-long":       {"POST", "get", "application/x-www-form-urlencoded", "GET"},
		"update":         {"PUT", "update", "application/json", ""},
		"partial_update": {"POST", "partial_update", "application/json", ""},
		"delete":         {"DELETE", "delete", "", ""},
	}
	kindsHere := []string{"get", "get-long", "update", "partial_update", "delete"}
	var mu sync.Mutex
	var wg sync.WaitGroup
	next := make(chan int, n)
	for i := 0; i < n; i++ {
		next <- i
	}
	close(next)
	for g := 0; g < goroutines; g++ {
		wg.Add(1)
		go func(g int) {
			defer wg.Done()
			for i := range next {
				kind := kindsHere[(i*7+int(seed))%len(kindsHere)]
				tk := fmt.Sprintf("zq%dx", i)
				t := &kit.Typed{Base: base, Threshold: 300, Transport: stubTransport{}, Extra: static}
				q := "p=" + tk
				ent := "/things/" + tk
				body := []byte(fmt.Sprintf(`{"v":%q}`, tk))
				var wire *kit.Wire
				var err error
				switch kind {
				case "get":
					_, wire, err = t.Get("things", ent, &q)
				case "get-long":
					long := q + "&pad=" + strings.Repeat("a", 400)
					_, wire, err = t.Get("things", ent, &long)
				case "update":
					wire, err = t.Update("things", ent, body)
				case "partial_update":
					wire, err = t.PartialUpdate("things", ent, []byte(`{"patch":{"$set":{"v":"`+tk+`"}}}`))
				case "delete":
					wire, err = t.Delete("things", ent)
				}
				w := expect[kind]
				p := ""
				switch {
				case err != nil:
					p = fmt.Sprintf("%s %s: client error %v", kind, tk, err)
				case wire == nil:
					p = fmt.Sprintf("%s %s: nothing sent", kind, tk)
				case wire.Method != w.verb || wire.Header.Get("X-RestLi-Method") != w.method || wire.Header.Get("Content-Type") != w.ctype || wire.Header.Get("X-HTTP-Method-Override") != w.override ||
					len(wire.Header.Values("X-RestLi-Method")) != 1 || len(wire.Header.Values("X-Auth")) != 1 || !strings.Contains(wire.Target+wire.Body, tk):
					p = fmt.Sprintf("%s %s went out as %s %s with headers %v (a lone %s request: %s, X-RestLi-Method %q, Content-Type %q, override %q)", kind, tk, wire.Method, wire.Target, wire.Header, kind, w.verb, w.method, w.ctype, w.override)
				}
				mu.Lock()
				compared++
				if p != "" && len(problems) < 6 {
					problems = append(problems, p)
				}
				mu.Unlock()
			}
		}(g)
	}
	wg.Wait()
	if len(static) != 1 || len(static["X-Auth"]) != 1 || static.Get("X-Auth") != "token-of-the-caller" {
		problems = append(problems, fmt.Sprintf("the caller's header map was modified: %v", static))
	}
	return problems, compared
}
