// C17 — shared objects are safe for concurrent use and requests do not interfere.
//
// Monitor: child processes built with the race detector run (a) one handler + one restli.Client shared by 8..64
// goroutines executing a list of requests that each carry a unique token, once serially and then concurrently (over
// loopback sockets and over an in-process transport; on warm and on cold handlers; with and without registrations going
// on at the Server the handler was taken from);
// (b) the D2 resolver resolving from many goroutines while the library's own update loop consumes announcement
// events; (c) the custom-typeref registry used and extended concurrently (v2).  The parent collects the race
// detector's reports (deduplicated by the innermost library functions of the two accesses) and the children's
// comparison of every request's observations with the serial execution, plus any token of another request found in a
// request's observations.
package main

import (
	"encoding/json"
	"fmt"
	"io"
	"log"
	"os"
	"os/exec"
	"path/filepath"
	"regexp"
	"runtime"
	"sort"
	"strconv"
	"strings"
	"sync"
	"sync/atomic"
	"time"

	lazymap1 "github.com/PapaCharlie/go-restli/d2/lazymap"
	lazymap2 "github.com/PapaCharlie/go-restli/v2/d2/lazymap"
	"github.com/PapaCharlie/go-restli/v2/fnv1a"
	"github.com/PapaCharlie/go-restli/v2/restlicodec"

	"verifh/ev"
	c17g1 "verifh/props/c17/gen1"
	c17g2 "verifh/props/c17/gen2"
	"verifh/props/c19/api"
	c19g1 "verifh/props/c19/gen1"
	c19g2 "verifh/props/c19/gen2"
)

type mismatch struct {
	What       string `json:"what"`
	Token      string `json:"token"`
	Kind       string `json:"kind"`
	Outcome    string `json:"outcome"`
	Goroutines int    `json:"goroutines"`
	Serial     any    `json:"serial,omitempty"`
	Concurrent any    `json:"concurrent,omitempty"`
	Detail     string `json:"detail,omitempty"`
}

type childReport struct {
	Gen        string         `json:"gen"`
	Workload   string         `json:"workload"`
	Requests   int            `json:"requests"`
	Compared   int            `json:"compared"`
	Shapes     map[string]int `json:"shapes"`
	Mismatches []mismatch     `json:"mismatches"`
	Problem    string         `json:"problem,omitempty"`
}

var tokenRe = regexp.MustCompile(`zq\d+x`)
var crashRe = regexp.MustCompile(`(?m)^(fatal error: [^\n]*|panic: [^\n]*)`)

func crashKind(line string) string {
	switch {
	case strings.Contains(line, "concurrent map"):
		return "concurrent-map-access"
	case strings.HasPrefix(line, "fatal error"):
		return "fatal-error"
	}
	return "panic"
}

// ---------------------------------------------------------------------------------------------
// child: handler + client

type world interface {
	Close()
}

type rec = map[string]any

type reqInfo struct{ token, kind, outcome string }

// handle is one world (handler + shared client) of either generation.
type handle struct {
	infos   []reqInfo
	execute func(g int, s int64) map[string]rec
	intact  func() string
	late    func(i int) string
	close   func()
}

func openWorld(gen, mounting string, seed int64, n int) (*handle, error) {
	toAny := func(v any) rec {
		b, _ := json.Marshal(v)
		var m rec
		_ = json.Unmarshal(b, &m)
		return m
	}
	h := &handle{}
	if gen == "v2" {
		reqs := c17g2.Cases(seed, n)
		w, err := c17g2.NewWorld(reqs, mounting)
		if err != nil {
			return nil, err
		}
		h.close, h.late, h.intact = w.Close, w.LateRegister, c17g2.SharedErrorsIntact
		for _, r := range reqs {
			h.infos = append(h.infos, reqInfo{r.Token, r.Kind, r.Outcome})
		}
		h.execute = func(g int, s int64) map[string]rec {
			out := map[string]rec{}
			for k, v := range w.Execute(reqs, g, s) {
				out[k] = toAny(v)
			}
			return out
		}
	} else {
		reqs := c17g1.Cases(seed, n)
		w, err := c17g1.NewWorld(reqs, mounting)
		if err != nil {
			return nil, err
		}
		h.close, h.late, h.intact = w.Close, w.LateRegister, c17g1.SharedErrorsIntact
		for _, r := range reqs {
			h.infos = append(h.infos, reqInfo{r.Token, r.Kind, r.Outcome})
		}
		h.execute = func(g int, s int64) map[string]rec {
			out := map[string]rec{}
			for k, v := range w.Execute(reqs, g, s) {
				out[k] = toAny(v)
			}
			return out
		}
	}
	return h, nil
}

func (rep *childReport) add(m mismatch) {
	if len(rep.Mismatches) < 12 {
		rep.Mismatches = append(rep.Mismatches, m)
	}
}

// leaks looks for another request's token, or another resource's path, in what a request observed.
func (rep *childReport) leaks(h *handle, g int, obs map[string]rec) {
	for _, in := range h.infos {
		b, _ := json.Marshal(obs[in.token])
		for _, t := range tokenRe.FindAllString(string(b), -1) {
			if t != in.token {
				rep.add(mismatch{What: "foreign-token", Token: in.token, Kind: in.kind, Outcome: in.outcome, Goroutines: g, Concurrent: obs[in.token], Detail: "token " + t + " of another request"})
				break
			}
		}
		if strings.Contains(string(b), "WRONG-SEGMENTS") {
			rep.add(mismatch{What: "filter-saw-another-resource-path", Token: in.token, Kind: in.kind, Outcome: in.outcome, Goroutines: g, Concurrent: obs[in.token]})
		}
	}
	for k, v := range obs {
		if strings.HasPrefix(k, "?") {
			rep.add(mismatch{What: "unattributed-observation", Token: k, Goroutines: g, Concurrent: v})
		}
	}
}

func (rep *childReport) compare(h *handle, g int, serial, conc map[string]rec) {
	for _, in := range h.infos {
		a, _ := json.Marshal(serial[in.token])
		b, _ := json.Marshal(conc[in.token])
		rep.Compared++
		rep.Shapes[in.kind+"|"+in.outcome]++
		if string(a) != string(b) {
			rep.add(mismatch{What: "differs-from-serial", Token: in.token, Kind: in.kind, Outcome: in.outcome, Goroutines: g, Serial: serial[in.token], Concurrent: conc[in.token]})
		}
	}
}

func (rep *childReport) serialSane(h *handle, serial map[string]rec) {
	for _, in := range h.infos {
		if s := serial[in.token]; s == nil || len(s) == 0 {
			rep.add(mismatch{What: "no-serial-observation", Token: in.token, Kind: in.kind, Outcome: in.outcome, Goroutines: 1})
		}
	}
}

// httpChild: one world, the request list serially and then with 8, 32 and 64 goroutines.
func httpChild(gen, mounting string, seed int64, n int) *childReport {
	rep := &childReport{Gen: gen, Workload: "http-" + mounting, Shapes: map[string]int{}}
	h, err := openWorld(gen, mounting, seed, n)
	if err != nil {
		rep.Problem = err.Error()
		return rep
	}
	defer h.close()
	serial := h.execute(1, seed)
	rep.Requests += len(h.infos)
	rep.leaks(h, 1, serial)
	rep.serialSane(h, serial)
	for gi, g := range []int{8, 32, 64} {
		conc := h.execute(g, seed+int64(gi)+1)
		rep.Requests += len(h.infos)
		rep.leaks(h, g, conc)
		rep.compare(h, g, serial, conc)
	}
	if d := h.intact(); d != "" {
		rep.add(mismatch{What: "shared-error-object-modified", Detail: d})
	}
	return rep
}

// coldChild: many fresh handlers; the very first requests a handler ever sees arrive concurrently (in process, no
// socket in between), the serial execution follows on the same handler.
func coldChild(gen string, seed int64, n int) *childReport {
	rep := &childReport{Gen: gen, Workload: "http-cold", Shapes: map[string]int{}}
	const perRound = 48
	for round := 0; round*perRound < n; round++ {
		h, err := openWorld(gen, "inproc", seed+int64(round)*7919, perRound)
		if err != nil {
			rep.Problem = err.Error()
			return rep
		}
		g := []int{16, 48, 8}[round%3]
		conc := h.execute(g, seed+int64(round))
		serial := h.execute(1, seed)
		rep.Requests += 2 * len(h.infos)
		rep.leaks(h, g, conc)
		rep.leaks(h, 1, serial)
		rep.serialSane(h, serial)
		rep.compare(h, g, serial, conc)
		rep.Shapes["cold-handlers"]++
		if d := h.intact(); d != "" {
			rep.add(mismatch{What: "shared-error-object-modified", Detail: d})
		}
		h.close()
	}
	return rep
}

// lateChild: the Server keeps being extended (finders and actions on resources the handler already knows) while the
// handler taken from it earlier serves requests.
func lateChild(gen, mounting string, seed int64, n int) *childReport {
	rep := &childReport{Gen: gen, Workload: "http-late-" + mounting, Shapes: map[string]int{}}
	h, err := openWorld(gen, mounting, seed, n)
	if err != nil {
		rep.Problem = err.Error()
		return rep
	}
	defer h.close()
	serial := h.execute(1, seed)
	rep.Requests += len(h.infos)
	rep.leaks(h, 1, serial)
	rep.serialSane(h, serial)
	next := 0
	for gi, g := range []int{8, 32} {
		stop := make(chan struct{})
		done := make(chan struct{})
		go func() {
			defer close(done)
			for {
				select {
				case <-stop:
					return
				default:
				}
				if p := h.late(next); p != "" {
					rep.Problem = "late registration failed: " + p
					return
				}
				next++
				rep.Shapes["late-registrations"]++
				time.Sleep(200 * time.Microsecond)
			}
		}()
		conc := h.execute(g, seed+int64(gi)+1)
		close(stop)
		<-done
		rep.Requests += len(h.infos)
		rep.leaks(h, g, conc)
		rep.compare(h, g, serial, conc)
	}
	return rep
}

// ---------------------------------------------------------------------------------------------
// child: D2 resolver

func d2Child(gen string, seed int64, n int) *childReport {
	rep := &childReport{Gen: gen, Workload: "d2", Shapes: map[string]int{}}
	var d api.D2
	if gen == "v2" {
		d = c19g2.New()
	} else {
		d = c19g1.New()
	}
	cluster := "c17cluster"
	node := func(i int) string { return d.UrisPath(cluster) + "/node" + strconv.Itoa(i) }
	announce := func(hosts ...string) *[]byte {
		var parts []string
		for _, h := range hosts {
			parts = append(parts, fmt.Sprintf("%q:1", h))
		}
		b := []byte(`{"weights":{` + strings.Join(parts, ",") + `}}`)
		return &b
	}
	allowed := map[string]bool{"http://perm:80": true, "https://perm:443": true}
	u := d.NewUris(cluster)
	u = d.Apply(u, node(0), announce("http://perm:80", "https://perm:443"))
	for i := 1; i <= 8; i++ {
		allowed[fmt.Sprintf("http://h%d:80", i)] = true
		allowed[fmt.Sprintf("https://h%d:443", i)] = true
	}
	res := d.NewResolver("svc", cluster, []string{"https", "http"}, u)
	var wg sync.WaitGroup
	var mu sync.Mutex
	var resolved int64
	stop := make(chan struct{})
	for g := 0; g < 16; g++ {
		wg.Add(1)
		go func() {
			defer wg.Done()
			for {
				select {
				case <-stop:
					return
				default:
				}
				h, _, err := res.Resolve()
				atomic.AddInt64(&resolved, 1)
				if err != nil || !allowed[h] {
					mu.Lock()
					if len(rep.Mismatches) < 12 {
						rep.Mismatches = append(rep.Mismatches, mismatch{What: "resolution-differs-from-serial", Detail: fmt.Sprintf("host=%q err=%v: every snapshot holds the permanent https host, a serial resolution always succeeds with an announced host", h, err)})
					}
					mu.Unlock()
				}
			}
		}()
	}
	for i := 0; i < n; i++ {
		k := 1 + (i*7+int(seed))%8
		if i%3 == 2 {
			res.Feed(node(k), nil)
		} else {
			res.Feed(node(k), announce(fmt.Sprintf("http://h%d:80", k), fmt.Sprintf("https://h%d:443", k)))
		}
	}
	close(stop)
	wg.Wait()
	rep.Requests = int(resolved)
	rep.Compared = int(resolved)
	rep.Shapes["resolve-while-updating"] = int(resolved)
	rep.Shapes["updates"] = n
	return rep
}

// ---------------------------------------------------------------------------------------------
// child: custom typeref registry (v2 only)

type ct[M any] struct{ S string }
type (
	m0 struct{}
	m1 struct{}
	m2 struct{}
	m3 struct{}
	m4 struct{}
	m5 struct{}
	m6 struct{}
	m7 struct{}
)

func regCT[M any]() {
	restlicodec.RegisterCustomTyperef(
		func(t ct[M]) (string, error) { return t.S, nil },
		func(s string) (ct[M], error) { return ct[M]{s}, nil },
		func(t ct[M]) fnv1a.Hash { return fnv1a.HashString(t.S) },
		func(a, b ct[M]) bool { return a == b },
	)
}

func useCT[M any](i int) string {
	want := fmt.Sprintf("zq%dx", i)
	w := restlicodec.NewCompactJsonWriter()
	if err := restlicodec.MarshalRestLi(ct[M]{want}, w); err != nil {
		return "marshal: " + err.Error()
	}
	text := w.Finalize()
	r, err := restlicodec.NewJsonReader([]byte(text))
	if err != nil {
		return "reader: " + err.Error()
	}
	back, err := restlicodec.UnmarshalRestLi[ct[M]](r)
	if err != nil {
		return "unmarshal: " + err.Error()
	}
	if back.S != want || text != strconv.Quote(want) {
		return fmt.Sprintf("round trip of %q gave %q via %s", want, back.S, text)
	}
	if !restlicodec.CustomTyperefEquals[ct[M]]()(back, ct[M]{want}) || !restlicodec.CustomTyperefHasher[ct[M]]()(back).Equals(fnv1a.HashString(want)) {
		return "equals / hash adapter disagrees"
	}
	return ""
}

func typerefChild(seed int64, n int) *childReport {
	rep := &childReport{Gen: "v2", Workload: "typeref-registry", Shapes: map[string]int{}}
	regCT[m0]()
	regCT[m1]()
	late := []func(){regCT[m2], regCT[m3], regCT[m4], regCT[m5], regCT[m6], regCT[m7]}
	// a crowd of further types registers at the same instant (lazy registration from request goroutines)
	crowd := []func(){regCT[[1]byte], regCT[[2]byte], regCT[[3]byte], regCT[[4]byte], regCT[[5]byte], regCT[[6]byte], regCT[[7]byte], regCT[[8]byte], regCT[[9]byte], regCT[[10]byte], regCT[[11]byte], regCT[[12]byte], regCT[[13]byte], regCT[[14]byte], regCT[[15]byte], regCT[[16]byte], regCT[[17]byte], regCT[[18]byte], regCT[[19]byte], regCT[[20]byte], regCT[[21]byte], regCT[[22]byte], regCT[[23]byte], regCT[[24]byte], regCT[[25]byte], regCT[[26]byte], regCT[[27]byte], regCT[[28]byte], regCT[[29]byte], regCT[[30]byte], regCT[[31]byte], regCT[[32]byte], regCT[[33]byte], regCT[[34]byte], regCT[[35]byte], regCT[[36]byte], regCT[[37]byte], regCT[[38]byte], regCT[[39]byte], regCT[[40]byte], regCT[[41]byte], regCT[[42]byte], regCT[[43]byte], regCT[[44]byte], regCT[[45]byte], regCT[[46]byte], regCT[[47]byte], regCT[[48]byte], regCT[[49]byte], regCT[[50]byte], regCT[[51]byte], regCT[[52]byte], regCT[[53]byte], regCT[[54]byte], regCT[[55]byte], regCT[[56]byte], regCT[[57]byte], regCT[[58]byte], regCT[[59]byte], regCT[[60]byte], regCT[[61]byte], regCT[[62]byte], regCT[[63]byte], regCT[[64]byte], regCT[[65]byte], regCT[[66]byte], regCT[[67]byte], regCT[[68]byte], regCT[[69]byte], regCT[[70]byte], regCT[[71]byte], regCT[[72]byte], regCT[[73]byte], regCT[[74]byte], regCT[[75]byte], regCT[[76]byte], regCT[[77]byte], regCT[[78]byte], regCT[[79]byte], regCT[[80]byte], regCT[[81]byte], regCT[[82]byte], regCT[[83]byte], regCT[[84]byte], regCT[[85]byte], regCT[[86]byte], regCT[[87]byte], regCT[[88]byte], regCT[[89]byte], regCT[[90]byte], regCT[[91]byte], regCT[[92]byte], regCT[[93]byte], regCT[[94]byte], regCT[[95]byte], regCT[[96]byte]}
	crowdUse := []func(int) string{useCT[[1]byte], useCT[[2]byte], useCT[[3]byte], useCT[[4]byte], useCT[[5]byte], useCT[[6]byte], useCT[[7]byte], useCT[[8]byte], useCT[[9]byte], useCT[[10]byte], useCT[[11]byte], useCT[[12]byte], useCT[[13]byte], useCT[[14]byte], useCT[[15]byte], useCT[[16]byte], useCT[[17]byte], useCT[[18]byte], useCT[[19]byte], useCT[[20]byte], useCT[[21]byte], useCT[[22]byte], useCT[[23]byte], useCT[[24]byte], useCT[[25]byte], useCT[[26]byte], useCT[[27]byte], useCT[[28]byte], useCT[[29]byte], useCT[[30]byte], useCT[[31]byte], useCT[[32]byte], useCT[[33]byte], useCT[[34]byte], useCT[[35]byte], useCT[[36]byte], useCT[[37]byte], useCT[[38]byte], useCT[[39]byte], useCT[[40]byte], useCT[[41]byte], useCT[[42]byte], useCT[[43]byte], useCT[[44]byte], useCT[[45]byte], useCT[[46]byte], useCT[[47]byte], useCT[[48]byte], useCT[[49]byte], useCT[[50]byte], useCT[[51]byte], useCT[[52]byte], useCT[[53]byte], useCT[[54]byte], useCT[[55]byte], useCT[[56]byte], useCT[[57]byte], useCT[[58]byte], useCT[[59]byte], useCT[[60]byte], useCT[[61]byte], useCT[[62]byte], useCT[[63]byte], useCT[[64]byte], useCT[[65]byte], useCT[[66]byte], useCT[[67]byte], useCT[[68]byte], useCT[[69]byte], useCT[[70]byte], useCT[[71]byte], useCT[[72]byte], useCT[[73]byte], useCT[[74]byte], useCT[[75]byte], useCT[[76]byte], useCT[[77]byte], useCT[[78]byte], useCT[[79]byte], useCT[[80]byte], useCT[[81]byte], useCT[[82]byte], useCT[[83]byte], useCT[[84]byte], useCT[[85]byte], useCT[[86]byte], useCT[[87]byte], useCT[[88]byte], useCT[[89]byte], useCT[[90]byte], useCT[[91]byte], useCT[[92]byte], useCT[[93]byte], useCT[[94]byte], useCT[[95]byte], useCT[[96]byte]}
	var wg sync.WaitGroup
	var mu sync.Mutex
	var used int64
	for g := 0; g < 16; g++ {
		wg.Add(1)
		go func(g int) {
			defer wg.Done()
			for i := 0; i < n; i++ {
				var d string
				if (i+g)%2 == 0 {
					d = useCT[m0](g*n + i)
				} else {
					d = useCT[m1](g*n + i)
				}
				atomic.AddInt64(&used, 1)
				if d != "" {
					mu.Lock()
					if len(rep.Mismatches) < 12 {
						rep.Mismatches = append(rep.Mismatches, mismatch{What: "custom-typeref-differs-from-serial", Detail: d})
					}
					mu.Unlock()
				}
			}
		}(g)
	}
	for i, f := range late {
		wg.Add(1)
		go func(i int, f func()) {
			defer wg.Done()
			f()
		}(i, f)
	}
	start := make(chan struct{})
	for _, f := range crowd {
		wg.Add(1)
		go func(f func()) {
			defer wg.Done()
			<-start
			f()
		}(f)
	}
	close(start)
	wg.Wait()
	for i, use := range crowdUse {
		d := func() (d string) {
			defer func() {
				if p := recover(); p != nil {
					d = fmt.Sprint("panic: ", p)
				}
			}()
			return use(1000 + i)
		}()
		if d != "" {
			rep.add(mismatch{What: "custom-typeref-registered-concurrently-unusable", Detail: fmt.Sprintf("crowd type %d of %d: %s", i, len(crowdUse), d)})
		}
	}
	// the late registrations must all be usable now
	for i, d := range []string{useCT[m2](1), useCT[m3](2), useCT[m4](3), useCT[m5](4), useCT[m6](5), useCT[m7](6)} {
		if d != "" {
			rep.Mismatches = append(rep.Mismatches, mismatch{What: "custom-typeref-registered-concurrently-unusable", Detail: fmt.Sprintf("type %d: %s", i+2, d)})
		}
	}
	rep.Requests, rep.Compared = int(used)+6, int(used)+6
	rep.Shapes["use-while-registering"] = int(used)
	rep.Shapes["registered-concurrently"] = len(late) + len(crowd)
	return rep
}

// ---------------------------------------------------------------------------------------------
// child: requests that all get one caller-owned map of extra headers

func sharedHeadersChild(gen string, seed int64, n int) *childReport {
	rep := &childReport{Gen: gen, Workload: "client-shared-headers", Shapes: map[string]int{}}
	for round, g := range []int{1, 8, 32} {
		var problems []string
		var compared int
		if gen == "v2" {
			problems, compared = c17g2.SharedExtraHeaders(seed+int64(round), n, g)
		} else {
			problems, compared = c17g1.SharedExtraHeaders(seed+int64(round), n, g)
		}
		rep.Requests += compared
		rep.Compared += compared
		rep.Shapes[fmt.Sprintf("shared-header-map|%d-goroutines", g)] = compared
		for _, p := range problems {
			rep.add(mismatch{What: "request-differs-from-lone-request", Kind: "shared-extra-headers", Goroutines: g, Detail: p})
		}
	}
	return rep
}

// ---------------------------------------------------------------------------------------------
// child: the lazy map behind the D2 client's per-service / per-cluster state, cold keys hit by several callers at once

type lazy interface {
	LoadOrStore(key interface{}, f func() interface{}) interface{}
	Load(key interface{}) (interface{}, bool)
}

func lazyChild(gen string, seed int64, n int) *childReport {
	rep := &childReport{Gen: gen, Workload: "lazymap-cold", Shapes: map[string]int{}}
	var m lazy = new(lazymap2.LazySyncMap)
	if gen == "root" {
		m = new(lazymap1.LazySyncMap)
	}
	for round := 0; round < n; round++ {
		callers := []int{2, 8, 3, 16}[round%4]
		key := fmt.Sprintf("service-%d-%d", seed, round)
		var loads int64
		results := make([]interface{}, callers)
		start := make(chan struct{})
		var wg sync.WaitGroup
		for c := 0; c < callers; c++ {
			wg.Add(1)
			go func(c int) {
				defer wg.Done()
				<-start
				results[c] = m.LoadOrStore(key, func() interface{} {
					k := atomic.AddInt64(&loads, 1)
					if round%5 == 0 {
						runtime.Gosched()
					}
					return fmt.Sprintf("state-of-%s-load-%d", key, k)
				})
			}(c)
		}
		close(start)
		wg.Wait()
		rep.Requests += callers
		rep.Compared += callers
		// a serial execution loads once and hands every caller that value
		final, _ := m.Load(key)
		bad := loads != 1
		for _, r := range results {
			if r != results[0] || r != final {
				bad = true
			}
		}
		if bad {
			rep.add(mismatch{What: "cold-key-differs-from-serial", Kind: "lazymap", Goroutines: callers, Detail: fmt.Sprintf("key %s: the loader ran %d times, callers received %v, the map now holds %v", key, loads, results, final)})
		}
	}
	rep.Shapes["cold-keys"] = n
	return rep
}

// ---------------------------------------------------------------------------------------------

func child(args []string) {
	log.SetOutput(io.Discard)
	gen, workload := args[0], args[1]
	seed, _ := strconv.ParseInt(args[2], 10, 64)
	n, _ := strconv.Atoi(args[3])
	var rep *childReport
	switch workload {
	case "http-bare":
		rep = httpChild(gen, "bare", seed, n)
	case "http-prefixed":
		rep = httpChild(gen, "prefixed", seed, n)
	case "http-inproc":
		rep = httpChild(gen, "inproc", seed, n)
	case "http-cold":
		rep = coldChild(gen, seed, n)
	case "http-late-bare":
		rep = lateChild(gen, "bare", seed, n)
	case "http-late-inproc":
		rep = lateChild(gen, "inproc", seed, n)
	case "d2":
		rep = d2Child(gen, seed, n)
	case "typeref-registry":
		rep = typerefChild(seed, n)
	case "lazymap-cold":
		rep = lazyChild(gen, seed, n)
	case "client-shared-headers":
		rep = sharedHeadersChild(gen, seed, n)
	}
	b, _ := json.Marshal(rep)
	fmt.Println("C17-CHILD " + string(b))
}

func trunc(s string) string {
	if len(s) > 3000 {
		return s[:3000] + "..."
	}
	return s
}

func main() {
	if len(os.Args) >= 6 && os.Args[1] == "--child" {
		child(os.Args[2:])
		return
	}
	run := ev.Start("C17")
	run.Rule("execution = (generation, workload, GOMAXPROCS, repetition) in a child process under the race detector. http workloads: a seeded list of requests (15 request kinds x 7 outcomes, unique token in key, parameter, header and body; one handler with three filters, one shared restli.Client with a tunnelling threshold) executed serially, then with 8, 32 and 64 goroutines with injected yields/sleeps; per request the invocation(s) seen by resource code, pre-request filter events, status, error / id / location headers, body (stack trace removed), client result and error must equal the serial execution and contain no other request's token; shared error objects must be unchanged. http-inproc: the same over an in-process transport (no socket, hence no synchronisation other than the library's own between requests). http-cold: fresh handlers whose very first requests arrive concurrently (48 requests, 8-48 goroutines, in process), the serial execution follows on the same handler. http-late-*: the handler serves while the Server it was taken from keeps registering finders and actions on resources the handler already knows. Every pre-request filter event must name the resource path chain of its own request (two sibling leaves at nesting depth 4 included). client-shared-headers: requests of five kinds (one of them tunnelled) built by 1, 8 and 32 goroutines whose ExtraRequestHeaders callbacks all return one caller-owned map: each must go out as a lone request of its kind would, and the map must come back untouched. lazymap-cold: the lazy map that holds the D2 client's per-service state, 2-16 callers released together on a fresh key: one load, one value for all. d2: 16 goroutines resolve while the library's update loop consumes announcements (a permanent host keeps every snapshot resolvable). typeref-registry (v2): 16 goroutines marshal/unmarshal/hash registered custom typerefs while 6 more types register. Any race report whose access stacks pass through go-restli code is a violation, deduplicated by the innermost library functions. distinct = (generation, workload, request kind|outcome) compared + executions")
	run.Assume("only accesses that executed under the detector are covered; the scheduler chooses the interleavings (GOMAXPROCS 2/4/16, random yields)")
	self, _ := os.Executable()
	dir := filepath.Join(os.Getenv("VERIF_WORK_DIR"), "race-c17")
	if os.Getenv("VERIF_WORK_DIR") == "" {
		dir = filepath.Join(os.TempDir(), fmt.Sprintf("race-c17-%d", os.Getpid()))
	}
	_ = os.MkdirAll(dir, 0o755)
	type job struct {
		gen, workload string
		n             int
	}
	var jobs []job
	for _, gen := range []string{"v2", "root"} {
		jobs = append(jobs, job{gen, "http-bare", run.Pick(300, 1500)}, job{gen, "http-prefixed", run.Pick(150, 800)}, job{gen, "d2", run.Pick(3000, 30000)},
			job{gen, "http-inproc", run.Pick(300, 1500)}, job{gen, "http-cold", run.Pick(480, 4800)}, job{gen, "http-late-bare", run.Pick(200, 1000)}, job{gen, "http-late-inproc", run.Pick(200, 1000)}, job{gen, "lazymap-cold", run.Pick(3000, 30000)}, job{gen, "client-shared-headers", run.Pick(400, 4000)})
	}
	jobs = append(jobs, job{"v2", "typeref-registry", run.Pick(2000, 20000)})
	reps := run.Pick(2, 6)
	procs := []int{4, 16, 2}
	type result struct {
		j    job
		rep  int
		out  string
		err  error
		logs string
	}
	var results []result
	var mu sync.Mutex
	var wg sync.WaitGroup
	sem := make(chan struct{}, 4)
	for ji, j := range jobs {
		for rep := 0; rep < reps; rep++ {
			wg.Add(1)
			go func(ji int, j job, rep int) {
				defer wg.Done()
				sem <- struct{}{}
				defer func() { <-sem }()
				logs := filepath.Join(dir, fmt.Sprintf("race-%d-%d", ji, rep))
				cmd := exec.Command(self, "--child", j.gen, j.workload, strconv.FormatInt(run.Seed*1000+int64(rep), 10), strconv.Itoa(j.n))
				cmd.Env = append(os.Environ(), "GORACE=halt_on_error=0 log_path="+logs, fmt.Sprintf("GOMAXPROCS=%d", procs[(rep+ji)%3]))
				out, err := cmd.CombinedOutput()
				mu.Lock()
				results = append(results, result{j, rep, string(out), err, logs})
				mu.Unlock()
			}(ji, j, rep)
		}
	}
	wg.Wait()
	sort.Slice(results, func(a, b int) bool {
		if results[a].j != results[b].j {
			return fmt.Sprint(results[a].j) < fmt.Sprint(results[b].j)
		}
		return results[a].rep < results[b].rep
	})
	for _, r := range results {
		name := r.j.gen + "/" + r.j.workload
		var rep childReport
		found := false
		for _, line := range strings.Split(r.out, "\n") {
			if strings.HasPrefix(line, "C17-CHILD ") {
				found = json.Unmarshal([]byte(strings.TrimPrefix(line, "C17-CHILD ")), &rep) == nil
			}
		}
		for _, rr := range ev.ParseRaceLogs(r.logs+".*", "go-restli") {
			run.Count("race.reports", 1)
			run.Violation(r.j.gen+"/race/"+rr.Pair, map[string]any{"workload": name, "race_report": trunc(rr.Text), "functions": rr.Functions})
		}
		if !found || rep.Problem != "" {
			// a child killed by the runtime ("concurrent map ...") or by a panic inside library code is a witness, not a harness problem
			crash := crashRe.FindString(r.out)
			if crash != "" && strings.Contains(r.out, "PapaCharlie/go-restli") {
				run.Violation(fmt.Sprintf("%s/process-crashed/%s", name, crashKind(crash)), map[string]any{"workload": name, "output": trunc(r.out)})
				continue
			}
			run.Inconclusive(fmt.Sprintf("%s rep %d: child gave no report (err=%v problem=%s output=%s)", name, r.rep, r.err, rep.Problem, trunc(r.out)))
			continue
		}
		run.Eval(rep.Compared)
		run.Count(name+".requests", rep.Requests)
		run.Count("executions", 1)
		run.Distinct(fmt.Sprintf("%s|execution|%d", name, r.rep))
		for s := range rep.Shapes {
			run.Distinct(name + "|" + s)
		}
		for _, m := range rep.Mismatches {
			run.Violation(fmt.Sprintf("%s/%s/%s/%s", name, m.What, m.Kind, m.Outcome), m)
		}
		if r.rep == 0 {
			run.Sample(map[string]any{"execution": name, "requests": rep.Requests, "compared_with_serial": rep.Compared, "shapes": len(rep.Shapes), "mismatches": len(rep.Mismatches)})
		}
	}
	run.Require("executions", int64(len(jobs)))
	run.Require("v2/http-bare.requests", 500)
	run.Require("root/http-bare.requests", 500)
	run.Require("v2/http-cold.requests", 500)
	run.Require("root/http-cold.requests", 500)
	run.Require("v2/http-late-inproc.requests", 300)
	run.Require("root/http-late-inproc.requests", 300)
	run.Require("v2/d2.requests", 500)
	run.Require("root/d2.requests", 500)
	run.Finish()
}
