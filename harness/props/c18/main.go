// C18 — lazy map: recorded histories under controlled and stressed schedules, checked for
// linearizability (porcupine) against "map with compute-if-absent", plus compute-once, no leaked
// placeholder, no lost store, and bounded progress of waiters.
package main

import (
	"fmt"
	"math/rand"
	"os"
	"runtime"
	"runtime/debug"
	"sort"
	"strings"
	"sync"
	"sync/atomic"
	"time"

	lm1 "github.com/PapaCharlie/go-restli/d2/lazymap"
	lm2 "github.com/PapaCharlie/go-restli/v2/d2/lazymap"
	"github.com/anishathalye/porcupine"

	"verifh/ev"
)

// ---------------------------------------------------------------------------------------------
// the system under test, both generations behind one interface

type lazyMap interface {
	LoadOrStore(key interface{}, f func() interface{}) interface{}
	Load(key interface{}) (interface{}, bool)
	Store(key interface{}, value interface{})
}

type generation struct {
	name    string
	newMap  func() lazyMap
	setHook func(func(point string, key interface{}))
}

var generations = []generation{
	{"v2", func() lazyMap { return new(lm2.LazySyncMap) }, func(f func(string, interface{})) { lm2.VerifYield = f }},
	{"root", func() lazyMap { return new(lm1.LazySyncMap) }, func(f func(string, interface{})) { lm1.VerifYield = f }},
}

// ---------------------------------------------------------------------------------------------
// programs

type opKind int

const (
	opLOS opKind = iota
	opLoad
	opStore
)

func (k opKind) String() string { return [...]string{"LoadOrStore", "Load", "Store"}[k] }

type op struct {
	Kind opKind
	Key  string
}

type program [][]op // per worker

func (p program) String() string {
	var parts []string
	for _, w := range p {
		var ops []string
		for _, o := range w {
			ops = append(ops, fmt.Sprintf("%s(%s)", o.Kind, o.Key))
		}
		parts = append(parts, strings.Join(ops, ";"))
	}
	return strings.Join(parts, " || ")
}

// ---------------------------------------------------------------------------------------------
// history

type input struct {
	Kind opKind
	Key  string
	Arg  string // unique value this op would store / compute
}
type output struct {
	Val      string // value returned ("" when not found)
	Found    bool
	Computed bool // LoadOrStore: own compute function ran
}

type event struct {
	Worker int
	Idx    int
	In     input
	Out    output
	Call   int64
	Ret    int64 // 0 while pending
}

type history struct {
	mu     sync.Mutex
	clock  int64
	events []*event
	trace  []string // hook trace (worker:point)
}

func (h *history) tick() int64 { return atomic.AddInt64(&h.clock, 1) }

var model = porcupine.Model{
	Partition: func(history []porcupine.Operation) [][]porcupine.Operation {
		m := map[string][]porcupine.Operation{}
		var keys []string
		for _, o := range history {
			k := o.Input.(input).Key
			if _, ok := m[k]; !ok {
				keys = append(keys, k)
			}
			m[k] = append(m[k], o)
		}
		sort.Strings(keys)
		var out [][]porcupine.Operation
		for _, k := range keys {
			out = append(out, m[k])
		}
		return out
	},
	Init: func() interface{} { return "" }, // "" = absent; stored values are never empty
	Step: func(state, in, out interface{}) (bool, interface{}) {
		st := state.(string)
		i := in.(input)
		o := out.(output)
		switch i.Kind {
		case opStore:
			return true, i.Arg
		case opLoad:
			if st == "" {
				return !o.Found, st
			}
			return o.Found && o.Val == st, st
		case opLOS:
			if st == "" {
				return o.Computed && o.Val == i.Arg, i.Arg
			}
			return !o.Computed && o.Val == st, st
		}
		return false, st
	},
	DescribeOperation: func(in, out interface{}) string {
		i := in.(input)
		o := out.(output)
		return fmt.Sprintf("%s(%s,%s)->%v/%v/%v", i.Kind, i.Key, i.Arg, o.Val, o.Found, o.Computed)
	},
}

// ---------------------------------------------------------------------------------------------
// controlled execution

type wstate int

const (
	wRunning wstate = iota
	wParked
	wDone
)

type worker struct {
	id     int
	state  wstate
	point  string
	resume chan struct{}
	gid    uint64
}

type controller struct {
	mu       sync.Mutex
	cond     *sync.Cond
	workers  []*worker
	byGid    map[uint64]*worker
	h        *history
	version  int64 // bumped on every state change
	detached bool  // after a stall: hooks become no-ops so leaked goroutines cannot disturb later runs
}

func curGid() uint64 {
	var buf [64]byte
	n := runtime.Stack(buf[:], false)
	// "goroutine 123 ["
	s := string(buf[:n])
	s = strings.TrimPrefix(s, "goroutine ")
	var id uint64
	for i := 0; i < len(s) && s[i] >= '0' && s[i] <= '9'; i++ {
		id = id*10 + uint64(s[i]-'0')
	}
	return id
}

// park is the hook body: the calling worker parks until the controller releases it.
func (c *controller) park(point string) {
	gid := curGid()
	c.mu.Lock()
	w := c.byGid[gid]
	if w == nil || c.detached {
		c.mu.Unlock()
		return
	}
	w.state = wParked
	w.point = point
	c.h.trace = append(c.h.trace, fmt.Sprintf("%d:%s", w.id, point))
	c.version++
	c.cond.Broadcast()
	c.mu.Unlock()
	<-w.resume
}

type chooser func(parked []*worker, step int) int

type runResult struct {
	final      map[string]string
	finalFound map[string]bool
	h          *history
	stalled    bool
	steps      int
	choices    []int
	branches   []int
}

// theRun is set by main; guardLibrary needs it from goroutines that have no other handle on the run.
var theRun *ev.Run

// guardLibrary turns a panic raised inside the library (or by the runtime on its behalf: "WaitGroup is reused",
// "negative WaitGroup counter") into a violation with the history so far.  The process cannot go on after that - other
// workers may be blocked on the broken map for ever - so the run is finished at once.
func guardLibrary(gen, mode string, h *history) {
	if r := recover(); r != nil {
		msg := fmt.Sprint(r)
		class := "other"
		switch {
		case strings.Contains(msg, "WaitGroup is reused"):
			class = "waitgroup-reused-before-wait-returned"
		case strings.Contains(msg, "negative WaitGroup counter"):
			class = "negative-waitgroup-counter"
		case strings.Contains(msg, "nil pointer") || strings.Contains(msg, "interface conversion"):
			class = "nil-or-wrong-type"
		}
		stack := string(debug.Stack())
		if len(stack) > 3000 {
			stack = stack[:3000]
		}
		hist := describe(h)
		theRun.Violation(gen+"/library-panic/"+class, map[string]any{"generation": gen, "mode": mode, "panic": msg, "stack": stack, "history": hist})
		theRun.Finish()
	}
}

const quiescence = 2 * time.Millisecond

// runControlled executes prog on a fresh map with the hook installed; choose picks which parked
// worker to release.  stallAfter is the wall-clock watchdog for "nobody parked, somebody running".
func runControlled(g generation, prog program, choose chooser, stallAfter time.Duration) runResult {
	h := &history{}
	c := &controller{h: h, byGid: map[uint64]*worker{}}
	c.cond = sync.NewCond(&c.mu)
	m := g.newMap()
	g.setHook(func(point string, key interface{}) { c.park(point) })
	defer g.setHook(nil)

	var computeCount sync.Map // key -> *int64 (observed only through history flags)
	_ = computeCount
	ready := make(chan struct{})
	for wi := range prog {
		w := &worker{id: wi, resume: make(chan struct{}), state: wRunning}
		c.workers = append(c.workers, w)
		go func(w *worker, ops []op) {
			defer guardLibrary(g.name, "controlled", h)
			c.mu.Lock()
			w.gid = curGid()
			c.byGid[w.gid] = w
			c.mu.Unlock()
			ready <- struct{}{}
			for oi, o := range ops {
				c.park(fmt.Sprintf("op%d.start", oi))
				e := &event{Worker: w.id, Idx: oi, In: input{o.Kind, o.Key, fmt.Sprintf("g%d.%d", w.id, oi)}}
				h.mu.Lock()
				e.Call = h.tick()
				h.events = append(h.events, e)
				h.mu.Unlock()
				var out output
				switch o.Kind {
				case opLOS:
					computed := false
					v := m.LoadOrStore(o.Key, func() interface{} { computed = true; return asValue(e.In.Arg) })
					out = output{Val: valString(v), Found: true, Computed: computed}
				case opLoad:
					v, ok := m.Load(o.Key)
					out = output{Val: valString(v), Found: ok}
					if !ok {
						out.Val = ""
					}
				case opStore:
					m.Store(o.Key, asValue(e.In.Arg))
				}
				h.mu.Lock()
				e.Out = out
				e.Ret = h.tick()
				h.mu.Unlock()
			}
			c.mu.Lock()
			w.state = wDone
			c.version++
			c.cond.Broadcast()
			c.mu.Unlock()
		}(w, prog[wi])
	}
	for range prog {
		<-ready
	}

	res := runResult{h: h}
	// helper: wait (with timeout) until pred holds; returns false on timeout
	waitFor := func(d time.Duration, pred func() bool) bool {
		deadline := time.Now().Add(d)
		c.mu.Lock()
		defer c.mu.Unlock()
		for !pred() {
			rem := time.Until(deadline)
			if rem <= 0 {
				return false
			}
			t := time.AfterFunc(rem, func() { c.mu.Lock(); c.cond.Broadcast(); c.mu.Unlock() })
			c.cond.Wait()
			t.Stop()
		}
		return true
	}
	// initially every worker reaches its first park
	waitFor(5*time.Second, func() bool {
		for _, w := range c.workers {
			if w.state == wRunning {
				return false
			}
		}
		return true
	})
	for {
		c.mu.Lock()
		var parked []*worker
		alive := 0
		for _, w := range c.workers {
			if w.state == wParked {
				parked = append(parked, w)
			}
			if w.state != wDone {
				alive++
			}
		}
		c.mu.Unlock()
		if alive == 0 {
			break
		}
		if len(parked) == 0 {
			// everybody alive is inside a real primitive: wait for progress or declare a stall
			c.mu.Lock()
			v0 := c.version
			c.mu.Unlock()
			if !waitFor(stallAfter, func() bool { return c.version != v0 }) {
				res.stalled = true
				c.mu.Lock()
				c.detached = true
				c.mu.Unlock()
				return res
			}
			continue
		}
		idx := choose(parked, res.steps) % len(parked)
		res.choices = append(res.choices, idx)
		res.branches = append(res.branches, len(parked))
		res.steps++
		w := parked[idx]
		c.mu.Lock()
		w.state = wRunning
		v0 := c.version
		c.mu.Unlock()
		w.resume <- struct{}{}
		// wait until the released worker parks again / finishes; if it stays silent for the
		// quiescence interval it is presumed blocked in a real primitive and left alone.
		if waitFor(quiescence, func() bool { return w.state != wRunning }) {
			// give goroutines it may have woken (blocked earlier) a moment to reach their next hook
			waitFor(200*time.Microsecond, func() bool {
				for _, x := range c.workers {
					if x.state == wRunning {
						return false
					}
				}
				return true
			})
		}
		_ = v0
	}
	// quiescent: read the final values (the main goroutine is unknown to the controller, hooks pass through)
	res.final, res.finalFound = map[string]string{}, map[string]bool{}
	for _, k := range keys {
		v, ok := m.Load(k)
		res.finalFound[k] = ok
		if ok {
			res.final[k] = valString(v)
		} else {
			res.final[k] = ""
		}
	}
	return res
}

// failure is a stored value that happens to implement error (the D2 client keeps lookup failures in its lazy maps); the
// map must treat it like any other value.
type failure struct{ text string }

func (f failure) Error() string { return f.text }

// asValue turns the unique text of an operation into the value it stores or computes: a plain string, or for every
// third text a value of a type that implements error.
func asValue(arg string) interface{} {
	n := 0
	for i := 0; i < len(arg); i++ {
		n += int(arg[i])
	}
	if n%3 == 0 {
		return failure{arg}
	}
	return arg
}

func valString(v interface{}) string {
	if s, ok := v.(string); ok {
		return s
	}
	if f, ok := v.(failure); ok {
		return f.text
	}
	return fmt.Sprintf("NON-VALUE<%T>", v) // a leaked placeholder or nil
}

// ---------------------------------------------------------------------------------------------
// judging one history

type verdict struct {
	kind   string // "", "not-linearizable", "compute-twice", "leaked-placeholder", "lost-store", "stall"
	detail string
}

func (h *history) ops() ([]porcupine.Operation, bool) {
	h.mu.Lock()
	defer h.mu.Unlock()
	var ops []porcupine.Operation
	pending := false
	maxT := h.clock + 1
	for _, e := range h.events {
		ret := e.Ret
		if ret == 0 {
			pending = true
			ret = maxT // still open at the end of the history
			continue   // open operations of a stalled run are judged by the stall clause only
		}
		ops = append(ops, porcupine.Operation{ClientId: e.Worker, Input: e.In, Output: e.Out, Call: e.Call, Return: ret})
	}
	return ops, pending
}

func describe(h *history) []string {
	h.mu.Lock()
	defer h.mu.Unlock()
	var out []string
	for _, e := range h.events {
		out = append(out, fmt.Sprintf("w%d %s(%s,%s) call@%d ret@%d -> val=%q found=%v computed=%v", e.Worker, e.In.Kind, e.In.Key, e.In.Arg, e.Call, e.Ret, e.Out.Val, e.Out.Found, e.Out.Computed))
	}
	return out
}

func judge(h *history, final map[string]string, finalFound map[string]bool) (verdict, porcupine.CheckResult) {
	ops, _ := h.ops()
	// (a) returned values are real values
	for _, o := range ops {
		out := o.Output.(output)
		if strings.HasPrefix(out.Val, "NON-VALUE") {
			return verdict{"leaked-placeholder", model.DescribeOperation(o.Input, o.Output)}, porcupine.Illegal
		}
	}
	// (b) compute at most once per key unless a Store intervened: with unique values the stronger
	// sequential claim is checked by the model; here the direct count for keys without any Store.
	computed := map[string]int{}
	hasStore := map[string]bool{}
	for _, o := range ops {
		in := o.Input.(input)
		if in.Kind == opStore {
			hasStore[in.Key] = true
		}
		if in.Kind == opLOS && o.Output.(output).Computed {
			computed[in.Key]++
		}
	}
	for k, n := range computed {
		if n > 1 && !hasStore[k] {
			return verdict{"compute-twice", fmt.Sprintf("key %s computed %d times", k, n)}, porcupine.Illegal
		}
	}
	// (c) linearizability
	res, _ := porcupine.CheckOperationsVerbose(model, ops, 2*time.Minute)
	if res == porcupine.Illegal {
		return verdict{"not-linearizable", ""}, res
	}
	if res == porcupine.Unknown {
		return verdict{}, res
	}
	// (d) final value after quiescence must be explainable: append a final Load per key and re-check
	if final != nil {
		maxT := int64(0)
		for _, o := range ops {
			if o.Return > maxT {
				maxT = o.Return
			}
		}
		ext := append([]porcupine.Operation(nil), ops...)
		i := int64(1)
		for k, v := range final {
			ext = append(ext, porcupine.Operation{ClientId: 99, Input: input{opLoad, k, ""}, Output: output{Val: v, Found: finalFound[k]}, Call: maxT + i, Return: maxT + i + 1})
			i += 2
		}
		res2, _ := porcupine.CheckOperationsVerbose(model, ext, 2*time.Minute)
		if res2 == porcupine.Illegal {
			return verdict{"lost-store", fmt.Sprintf("final values %v not explained by any linearization", final)}, res2
		}
		if res2 == porcupine.Unknown {
			return verdict{}, res2
		}
	}
	return verdict{}, porcupine.Ok
}

// ---------------------------------------------------------------------------------------------

var keys = []string{"k0", "k1"}

func essentialPrograms() []program {
	L := func(k opKind, key string) op { return op{k, key} }
	return []program{
		{{L(opLOS, "k0")}, {L(opLOS, "k0")}},
		{{L(opLOS, "k0")}, {L(opLOS, "k0")}, {L(opLOS, "k0")}},
		{{L(opLOS, "k0")}, {L(opLoad, "k0")}},
		{{L(opLOS, "k0")}, {L(opLoad, "k0")}, {L(opLoad, "k0")}},
		{{L(opLOS, "k0")}, {L(opStore, "k0")}},
		{{L(opLOS, "k0")}, {L(opStore, "k0")}, {L(opLoad, "k0")}},
		{{L(opStore, "k0")}, {L(opStore, "k0")}},
		{{L(opStore, "k0")}, {L(opLoad, "k0")}},
		{{L(opLOS, "k0"), L(opLoad, "k0")}, {L(opStore, "k0"), L(opLoad, "k0")}},
		{{L(opLOS, "k0"), L(opLOS, "k1")}, {L(opLOS, "k1"), L(opLOS, "k0")}},
		{{L(opLOS, "k0"), L(opStore, "k0")}, {L(opLOS, "k0"), L(opLoad, "k0")}, {L(opLoad, "k0"), L(opLOS, "k0")}},
		{{L(opStore, "k0"), L(opLOS, "k0")}, {L(opLOS, "k0"), L(opStore, "k1")}, {L(opLoad, "k1"), L(opLoad, "k0")}},
		{{L(opLOS, "k0")}, {L(opStore, "k0"), L(opLoad, "k0")}, {L(opLoad, "k0"), L(opLoad, "k0")}},
	}
}

func randomProgram(rng *rand.Rand) program {
	nw := 2 + rng.Intn(2)
	p := make(program, nw)
	for i := range p {
		n := 1 + rng.Intn(2)
		for j := 0; j < n; j++ {
			k := keys[0]
			if rng.Intn(4) == 0 {
				k = keys[1]
			}
			p[i] = append(p[i], op{opKind(rng.Intn(3)), k})
		}
	}
	return p
}

func main() {
	run := ev.Start("C18")
	theRun = run
	run.Rule("case = (generation, program of <=3 goroutines x <=2 ops over 2 keys, release schedule at the lazy map's yield hooks); " +
		"distinct = distinct (program, hook trace) pairs, non-trivial = at least two operations overlap in the recorded history; " +
		"each history is checked by porcupine v1.3.0 against the sequential map-with-compute-if-absent")
	run.Assume("hooks (build tag verif) are pure yield points; the controller never infers runnability from a hook's position",
		"liveness restated as bounded progress: a stall is a violation only if it repeats when the same schedule is re-run")
	seed := run.Seed
	nRandomProgs := run.Pick(40, 600)
	schedPerProg := run.Pick(25, 150)
	dfsBudget := run.Pick(400, 6000)
	stressRounds := run.Pick(300, 6000)

	type traceKey struct{ prog, trace string }
	distinctTraces := map[traceKey]struct{}{}
	distinctHist := map[string]struct{}{}
	var stallSeen bool

	handle := func(g generation, prog program, res runResult, mode string) {
		run.Eval(1)
		run.Count("schedules."+mode, 1)
		tk := traceKey{g.name + "|" + prog.String(), strings.Join(res.h.trace, ",")}
		if _, ok := distinctTraces[tk]; !ok {
			distinctTraces[tk] = struct{}{}
		}
		desc := describe(res.h)
		hk := g.name + "|" + strings.Join(desc, ";")
		distinctHist[hk] = struct{}{}
		// overlap = some op's call precedes another op's return while after its call
		ops, _ := res.h.ops()
		overlap := false
		for i := range ops {
			for j := range ops {
				if i != j && ops[i].Call < ops[j].Call && ops[j].Call < ops[i].Return {
					overlap = true
				}
			}
		}
		if overlap {
			run.Distinct(tk.prog + "|" + tk.trace)
		}
		if res.stalled {
			return
		}
		v, pr := judge(res.h, res.final, res.finalFound)
		switch pr {
		case porcupine.Ok:
			run.Count("porcupine.ok", 1)
		case porcupine.Illegal:
			run.Count("porcupine.illegal", 1)
		default:
			run.Count("porcupine.unknown", 1)
			run.Inconclusive("porcupine timed out on a history of " + fmt.Sprint(len(ops)) + " operations")
		}
		if v.kind != "" {
			run.Violation(g.name+"/"+v.kind, map[string]any{"generation": g.name, "program": prog.String(), "mode": mode,
				"choices": res.choices, "hook_trace": res.h.trace, "history": desc, "detail": v.detail})
		}
		if len(distinctHist) <= 4 || (overlap && len(distinctHist)%97 == 0) {
			run.Sample(map[string]any{"generation": g.name, "program": prog.String(), "hook_trace": res.h.trace, "history": desc, "porcupine": fmt.Sprint(pr)})
		}
	}

	// winnerReturned: the stall clause applies only when the history shows the LoadOrStore/Store whose
	// computation the waiters depend on has returned.
	stallCheck := func(g generation, prog program, res runResult, choices []int) {
		if !res.stalled {
			return
		}
		run.Count("stalls.first", 1)
		// re-run the same schedule alone with a longer allowance
		again := runControlled(g, prog, func(p []*worker, step int) int {
			if step < len(choices) {
				return choices[step]
			}
			return 0
		}, 10*time.Second)
		if !again.stalled {
			run.Inconclusive("a stall did not reproduce: " + prog.String())
			return
		}
		stallSeen = true
		desc := describe(again.h)
		returned := 0
		for _, e := range again.h.events {
			if e.Ret != 0 {
				returned++
			}
		}
		run.Violation(g.name+"/stall", map[string]any{"generation": g.name, "program": prog.String(), "choices": choices,
			"hook_trace": again.h.trace, "history": desc, "detail": fmt.Sprintf("%d operations returned, the others never returned although no goroutine was runnable at a hook", returned)})
	}

	for _, g := range generations {
		rng := rand.New(rand.NewSource(seed*7919 + int64(len(g.name))))
		progs := essentialPrograms()
		for i := 0; i < nRandomProgs; i++ {
			progs = append(progs, randomProgram(rng))
		}
		// (1) random + PCT-style schedules
		for pi, prog := range progs {
			if stallSeen {
				break
			}
			for s := 0; s < schedPerProg; s++ {
				var ch chooser
				if s%2 == 0 {
					ch = func(p []*worker, step int) int { return rng.Intn(len(p)) }
				} else {
					// PCT-like: fixed random priorities, with one priority change point
					prio := rng.Perm(len(prog))
					change := rng.Intn(12)
					ch = func(p []*worker, step int) int {
						if step == change {
							prio[0], prio[len(prio)-1] = prio[len(prio)-1], prio[0]
						}
						best := 0
						for i := range p {
							if prio[p[i].id] > prio[p[best].id] {
								best = i
							}
						}
						return best
					}
				}
				res := runControlled(g, prog, ch, 3*time.Second)
				handle(g, prog, res, "random")
				stallCheck(g, prog, res, res.choices)
				if stallSeen {
					break
				}
			}
			_ = pi
		}
		// (2) depth-first walk over release decisions for the essential programs
		exhausted := 0
		for _, prog := range essentialPrograms() {
			if stallSeen {
				break
			}
			budget := dfsBudget / len(essentialPrograms())
			prefix := []int{}
			done := false
			for n := 0; n < budget && !done; n++ {
				p := append([]int(nil), prefix...)
				res := runControlled(g, prog, func(pk []*worker, step int) int {
					if step < len(p) {
						return p[step]
					}
					return 0
				}, 3*time.Second)
				handle(g, prog, res, "dfs")
				stallCheck(g, prog, res, res.choices)
				if stallSeen {
					break
				}
				// next prefix: increment the deepest choice that has an untried sibling
				next := append([]int(nil), res.choices...)
				i := len(next) - 1
				for ; i >= 0; i-- {
					if next[i]+1 < res.branches[i] {
						next[i]++
						next = next[:i+1]
						break
					}
				}
				if i < 0 {
					done = true
					exhausted++
				} else {
					prefix = next
				}
			}
		}
		run.Count("dfs.programs_exhausted."+g.name, exhausted)
		// (3) uncontrolled stress (real preemption between hooks): random Gosched / tiny sleeps at the hooks
		if !stallSeen {
			stress(run, g, rng, stressRounds)
		}
	}
	run.Set("distinct_hook_traces", len(distinctTraces))
	run.Set("distinct_histories", len(distinctHist))
	run.Set("generations", []string{"v2", "root"})
	run.Require("porcupine.ok", 100)
	if os.Getenv("VERIF_DEBUG") != "" {
		fmt.Println("distinct traces", len(distinctTraces), "histories", len(distinctHist))
	}
	run.Finish()
}

func stress(run *ev.Run, g generation, rng *rand.Rand, rounds int) {
	var hookSeed int64 = rng.Int63()
	var ctr int64
	g.setHook(func(point string, key interface{}) {
		n := atomic.AddInt64(&ctr, 1)
		x := uint64(n*2654435761+hookSeed) >> 7
		switch x % 5 {
		case 0:
			runtime.Gosched()
		case 1:
			time.Sleep(time.Duration(x%50) * time.Microsecond)
		}
	})
	defer g.setHook(nil)
	for r := 0; r < rounds; r++ {
		m := g.newMap()
		h := &history{}
		nw := 4 + rng.Intn(13)
		progs := make([][]op, nw)
		for i := range progs {
			k := keys[0]
			if rng.Intn(3) == 0 {
				k = keys[1]
			}
			progs[i] = []op{{opKind(rng.Intn(3)), k}}
			if rng.Intn(3) == 0 {
				progs[i] = append(progs[i], op{opKind(rng.Intn(3)), k})
			}
		}
		var wg sync.WaitGroup
		start := make(chan struct{})
		for wi := range progs {
			wg.Add(1)
			go func(wi int) {
				defer wg.Done()
				defer guardLibrary(g.name, "stress", h)
				<-start
				for oi, o := range progs[wi] {
					e := &event{Worker: wi, Idx: oi, In: input{o.Kind, o.Key, fmt.Sprintf("g%d.%d", wi, oi)}}
					h.mu.Lock()
					e.Call = h.tick()
					h.events = append(h.events, e)
					h.mu.Unlock()
					var out output
					switch o.Kind {
					case opLOS:
						computed := false
						v := m.LoadOrStore(o.Key, func() interface{} { computed = true; return asValue(e.In.Arg) })
						out = output{Val: valString(v), Found: true, Computed: computed}
					case opLoad:
						v, ok := m.Load(o.Key)
						out = output{Val: valString(v), Found: ok}
						if !ok {
							out.Val = ""
						}
					case opStore:
						m.Store(o.Key, asValue(e.In.Arg))
					}
					h.mu.Lock()
					e.Out = out
					e.Ret = h.tick()
					h.mu.Unlock()
				}
			}(wi)
		}
		close(start)
		doneCh := make(chan struct{})
		go func() { wg.Wait(); close(doneCh) }()
		select {
		case <-doneCh:
		case <-time.After(20 * time.Second):
			run.Violation(g.name+"/stall", map[string]any{"generation": g.name, "mode": "stress", "history": describe(h),
				"detail": "stress round did not finish within 20 s: operations blocked forever"})
			return
		}
		// final values after quiescence
		final := map[string]string{}
		found := map[string]bool{}
		for _, k := range keys {
			v, ok := m.Load(k)
			found[k] = ok
			if ok {
				final[k] = valString(v)
			} else {
				final[k] = ""
			}
		}
		run.Eval(1)
		run.Count("schedules.stress", 1)
		v, pr := judge(h, final, found)
		switch pr {
		case porcupine.Ok:
			run.Count("porcupine.ok", 1)
		case porcupine.Illegal:
			run.Count("porcupine.illegal", 1)
		default:
			run.Count("porcupine.unknown", 1)
			run.Inconclusive("porcupine timed out on a stress history")
		}
		if v.kind != "" {
			run.Violation(g.name+"/"+v.kind, map[string]any{"generation": g.name, "mode": "stress", "history": describe(h), "final": final, "detail": v.detail})
		}
		if r < 2 {
			run.Sample(map[string]any{"generation": g.name, "mode": "stress", "history": describe(h), "final": final})
		}
		run.Distinct(g.name + "|stress|" + strings.Join(describe(h), ";"))
	}
}
