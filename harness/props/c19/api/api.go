// Package api is the generation-neutral face of the D2 package used by the C19 driver.
package api

type Uris interface{}

type D2 interface {
	Gen() string
	UrisPath(cluster string) string
	NewUris(cluster string) Uris
	// Apply feeds one synthetic tree event to the library's handleUriUpdate.
	Apply(u Uris, path string, data *[]byte) Uris
	Snapshot(u Uris) map[string]map[string]float64
	Same(a, b Uris) bool
	// Choose runs the library's host selection; ok=false when it returned no host.
	Choose(u Uris, schemes []string) (host string, scheme string, ok bool)
	SeedRng(seed int64)
	NewResolver(service, cluster string, schemes []string, u Uris) Resolver
}

type Resolver interface {
	Resolve() (host string, scheme string, err error)
	// Feed pushes one event through the library's own update loop and waits until it was consumed.
	Feed(path string, data *[]byte)
	Current() Uris
	// FeedService pushes a service definition (the znode content) through the library's own service update loop.
	FeedService(data *[]byte)
}
