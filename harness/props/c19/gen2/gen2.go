package gen2

import (
	"sync"

	"github.com/PapaCharlie/go-restli/v2/d2"

	"verifh/props/c19/api"
)

const GENERATION = "v2"

type impl struct{ c *d2.Client }

func New() api.D2 { return &impl{c: new(d2.Client)} }

func (i *impl) Gen() string                    { return GENERATION }
func (i *impl) UrisPath(cluster string) string { return d2.UrisPath(cluster) }
func (i *impl) NewUris(cluster string) api.Uris {
	return d2.VerifNewUris(cluster)
}
func (i *impl) Apply(u api.Uris, path string, data *[]byte) api.Uris {
	return i.c.VerifHandleUriUpdate(u.(*d2.VerifUris), d2.TreeCacheEvent{Path: path, Data: data})
}
func (i *impl) Snapshot(u api.Uris) map[string]map[string]float64 {
	return u.(*d2.VerifUris).Snapshot()
}
func (i *impl) Same(a, b api.Uris) bool { return a.(*d2.VerifUris).SameObject(b.(*d2.VerifUris)) }
func (i *impl) Choose(u api.Uris, schemes []string) (string, string, bool) {
	h := u.(*d2.VerifUris).ChooseHost(schemes)
	if h == nil {
		return "", "", false
	}
	return h.String(), h.Scheme, true
}
func (i *impl) SeedRng(seed int64) { d2.VerifSeedRng(seed) }

type resolver struct {
	c       *d2.Client
	service string
	cluster string
}

func (i *impl) NewResolver(service, cluster string, schemes []string, u api.Uris) api.Resolver {
	c := new(d2.Client)
	c.VerifPreseed(service, &d2.Service{ServiceName: service, ClusterName: cluster, PrioritizedSchemes: schemes}, u.(*d2.VerifUris))
	return &resolver{c: c, service: service, cluster: cluster}
}

func (r *resolver) Resolve() (string, string, error) {
	h, err := r.c.ResolveHostnameAndContextForQuery(r.service, nil)
	if err != nil {
		return "", "", err
	}
	return h.String(), h.Scheme, nil
}

func (r *resolver) Feed(path string, data *[]byte) {
	events := make(chan d2.TreeCacheEvent)
	var wg sync.WaitGroup
	wg.Add(1)
	go func() {
		defer wg.Done()
		r.c.VerifFeedUriEvents(r.cluster, events)
	}()
	events <- d2.TreeCacheEvent{Path: path, Data: data}
	close(events)
	wg.Wait()
}

func (r *resolver) Current() api.Uris { return r.c.VerifCurrentUris(r.cluster) }

func (r *resolver) FeedService(data *[]byte) {
	events := make(chan d2.TreeCacheEvent)
	var wg sync.WaitGroup
	wg.Add(1)
	go func() {
		defer wg.Done()
		r.c.VerifFeedServiceEvents(r.service, events)
	}()
	events <- d2.TreeCacheEvent{Path: d2.ServicesPath(r.service), Data: data}
	close(events)
	wg.Wait()
}
