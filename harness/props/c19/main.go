// C19 — D2 announcement tracking and host selection follow the event history.
//
// Monitors: (1) after every prefix of a synthetic tree-event history the live announcement set must
// equal the reference fold; (2) snapshots handed out earlier must still equal their own deep copy
// after all later events; (3) every host returned by selection must be eligible, an error must be
// returned iff none is, and frequencies must stay within a Hoeffding bound of the weight shares.
package main

import (
	"fmt"
	"math"
	"math/rand"
	"reflect"
	"sort"
	"strings"

	"verifh/ev"
	"verifh/props/c19/api"
	"verifh/props/c19/gen1"
	"verifh/props/c19/gen2"
)

const cluster = "VerifCluster"
const service = "verifService"

// ---------------------------------------------------------------------------------------------
// event kinds and payloads (written by hand from the D2 announcement format)

type evKind int

const (
	kSet1 evKind = iota
	kSet2
	kDelete
	kMalformed
	kWeightless
	nKinds
)

var kindNames = [...]string{"set1", "set2", "delete", "malformed", "weightless"}

type hevent struct {
	Node int
	Kind evKind
	Var  int // payload variant selector
}

func (e hevent) String() string { return fmt.Sprintf("n%d:%s.%d", e.Node, kindNames[e.Kind], e.Var) }

var malformed = []string{
	`{`, ``, `{"weights": 5}`, `{"weights":{"http://[::1":1}}`, `[1,2]`, `{"weights":{"http://a:1":"x"}}`, "\x00\xff",
}
var weightless = []string{
	`{"weights":{}}`, `{}`, `null`, `{"partitionDesc":{"http://h0:80":{"0":{"weight":1}}}}`, `{"clusterName":"x","uriSpecificProperties":{}}`,
}

// payload returns the JSON for a set event and the hosts it announces.
func payload(node int, kind evKind, variant int) (string, map[string]float64) {
	h := map[string]float64{}
	switch kind {
	case kSet1:
		h[fmt.Sprintf("http://host%d:80", node)] = 1
		if variant%2 == 1 {
			h[fmt.Sprintf("https://host%d:443", node)] = 2.5
		}
	case kSet2:
		h[fmt.Sprintf("https://host%d:443", node)] = float64(3 + variant%3)
		if variant%2 == 1 {
			h["http://shared:80"] = 0 // zero weight, shared across nodes
		}
	}
	var parts []string
	var keys []string
	for k := range h {
		keys = append(keys, k)
	}
	sort.Strings(keys)
	for _, k := range keys {
		parts = append(parts, fmt.Sprintf("%q:%v", k, h[k]))
	}
	return `{"weights":{` + strings.Join(parts, ",") + `},"clusterName":"` + cluster + `"}`, h
}

type live map[string]map[string]float64

func (l live) clone() live {
	o := live{}
	for k, v := range l {
		m := map[string]float64{}
		for a, b := range v {
			m[a] = b
		}
		o[k] = m
	}
	return o
}

// fold is the reference: last write per node wins, deletes remove, malformed and weight-less ignored.
func foldStep(l live, nodeKey string, e hevent) ([]byte, bool) {
	switch e.Kind {
	case kSet1, kSet2:
		p, hosts := payload(e.Node, e.Kind, e.Var)
		l[nodeKey] = hosts
		return []byte(p), true
	case kDelete:
		delete(l, nodeKey)
		return nil, false
	case kMalformed:
		return []byte(malformed[e.Var%len(malformed)]), true
	default:
		return []byte(weightless[e.Var%len(weightless)]), true
	}
}

func equalLive(a map[string]map[string]float64, b live) bool {
	if len(a) != len(b) {
		return false
	}
	for k, v := range b {
		if !reflect.DeepEqual(a[k], v) {
			return false
		}
	}
	return true
}

func histString(h []hevent) string {
	var s []string
	for _, e := range h {
		s = append(s, e.String())
	}
	return strings.Join(s, " ")
}

// runHistory drives one history through the library (direct handler or the resolver's own update loop).
func runHistory(run *ev.Run, d api.D2, h []hevent, viaLoop bool) {
	run.Eval(1)
	ref := live{}
	var u api.Uris = d.NewUris(cluster)
	var res api.Resolver
	if viaLoop {
		res = d.NewResolver(service, cluster, nil, u)
	}
	type snap struct {
		obj  api.Uris
		copy map[string]map[string]float64
		at   int
	}
	snaps := []snap{{u, d.Snapshot(u), 0}}
	nontrivial := false
	for i, e := range h {
		nodeKey := fmt.Sprintf("/node-%d", e.Node)
		path := d.UrisPath(cluster) + nodeKey
		data, has := foldStep(ref, nodeKey, e)
		var dp *[]byte
		if has {
			dp = &data
		}
		if viaLoop {
			res.Feed(path, dp)
			u = res.Current()
		} else {
			u = d.Apply(u, path, dp)
		}
		run.Count("events."+kindNames[e.Kind], 1)
		got := d.Snapshot(u)
		if !equalLive(got, ref) {
			min := minimiseFold(d, h[:i+1])
			run.Violation(d.Gen()+"/fold/"+kindNames[min[len(min)-1].Kind], map[string]any{"generation": d.Gen(), "history": histString(min),
				"full_history": histString(h[:i+1]), "live": got, "expected_fold": ref, "via_update_loop": viaLoop})
			return
		}
		if e.Kind == kDelete || e.Kind == kMalformed || e.Kind == kWeightless {
			nontrivial = true
		}
		snaps = append(snaps, snap{u, got, i + 1})
	}
	// snapshots handed out earlier are never modified afterwards
	for _, s := range snaps {
		now := d.Snapshot(s.obj)
		if !reflect.DeepEqual(now, s.copy) {
			run.Violation(d.Gen()+"/snapshot-modified", map[string]any{"generation": d.Gen(), "history": histString(h), "snapshot_taken_after_prefix": s.at,
				"snapshot_then": s.copy, "snapshot_now": now})
			return
		}
	}
	run.Count("snapshots_rechecked", len(snaps))
	if nontrivial && len(h) >= 2 {
		run.Distinct(d.Gen() + "|" + histString(h))
	}
}

// minimiseFold shrinks a violating history (delta debugging on events) using the direct handler.
func minimiseFold(d api.D2, h []hevent) []hevent {
	bad := func(h []hevent) bool {
		ref := live{}
		u := d.NewUris(cluster)
		for _, e := range h {
			nodeKey := fmt.Sprintf("/node-%d", e.Node)
			data, has := foldStep(ref, nodeKey, e)
			var dp *[]byte
			if has {
				dp = &data
			}
			u = d.Apply(u, d.UrisPath(cluster)+nodeKey, dp)
			if !equalLive(d.Snapshot(u), ref) {
				return true
			}
		}
		return false
	}
	if !bad(h) {
		return h
	}
	cur := append([]hevent(nil), h...)
	for changed := true; changed; {
		changed = false
		for i := 0; i < len(cur)-1; i++ {
			cand := append(append([]hevent(nil), cur[:i]...), cur[i+1:]...)
			if bad(cand) {
				cur = cand
				changed = true
				break
			}
		}
	}
	return cur
}

// ---------------------------------------------------------------------------------------------
// selection

type hostDef struct {
	URL    string
	Scheme string
	Weight float64
	Node   int
}

// serviceDefinitions: the scheme priorities in force are those of the latest service definition the client received;
// a definition without priorities means "any scheme", whatever an earlier definition said.
func serviceDefinitions(run *ev.Run, d api.D2) {
	service, cluster := "svcdef", "clusterdef"
	u := d.NewUris(cluster)
	ann := []byte(`{"weights":{"http://plain:80":1,"https://secure:443":1}}`)
	u = d.Apply(u, d.UrisPath(cluster)+"/node1", &ann)
	res := d.NewResolver(service, cluster, []string{"https"}, u)
	def := func(schemes string) *[]byte {
		b := []byte(fmt.Sprintf(`{"serviceName":%q,"clusterName":%q%s}`, service, cluster, schemes))
		return &b
	}
	steps := []struct {
		name    string
		payload *[]byte // nil: keep the pre-seeded definition
		want    map[string]bool
	}{
		{"initial [https]", nil, map[string]bool{"https": true}},
		{"then no prioritizedSchemes member", def(``), map[string]bool{"http": true, "https": true}},
		{"then [http]", def(`,"prioritizedSchemes":["http"]`), map[string]bool{"http": true}},
		{"then prioritizedSchemes null", def(`,"prioritizedSchemes":null`), map[string]bool{"http": true, "https": true}},
		{"then [https,http]", def(`,"prioritizedSchemes":["https","http"]`), map[string]bool{"https": true}},
		{"then []", def(`,"prioritizedSchemes":[]`), map[string]bool{"http": true, "https": true}},
	}
	var history []string
	for _, st := range steps {
		if st.payload != nil {
			res.FeedService(st.payload)
		}
		history = append(history, st.name)
		seen := map[string]bool{}
		var problem string
		for i := 0; i < 400; i++ {
			_, scheme, err := res.Resolve()
			if err != nil {
				problem = "resolution failed: " + err.Error()
				break
			}
			seen[scheme] = true
		}
		run.Eval(1)
		run.Count("service_definition_steps", 1)
		if problem == "" && !reflect.DeepEqual(seen, st.want) {
			problem = fmt.Sprintf("400 resolutions returned schemes %v, the definition in force allows exactly %v", seen, st.want)
		}
		if problem != "" {
			run.Violation(d.Gen()+"/service-definition/schemes-of-an-earlier-definition-in-force", map[string]any{"generation": d.Gen(), "service_definitions_received": history, "detail": problem,
				"announced": []string{"http://plain:80 weight 1", "https://secure:443 weight 1"}})
			return
		}
		run.Distinct(d.Gen() + "|service-definition|" + st.name)
	}
}

func selectionCase(run *ev.Run, d api.D2, hosts []hostDef, prio []string, draws int, viaResolver bool) {
	run.Eval(1)
	// build the announcement set through the real handler
	u := d.NewUris(cluster)
	byNode := map[int][]hostDef{}
	for _, h := range hosts {
		byNode[h.Node] = append(byNode[h.Node], h)
	}
	for n, hs := range byNode {
		var parts []string
		for _, h := range hs {
			parts = append(parts, fmt.Sprintf("%q:%v", h.URL, h.Weight))
		}
		data := []byte(`{"weights":{` + strings.Join(parts, ",") + `}}`)
		u = d.Apply(u, fmt.Sprintf("%s/node-%d", d.UrisPath(cluster), n), &data)
	}
	// reference eligibility
	weight := map[string]float64{}
	scheme := map[string]string{}
	for _, h := range hosts {
		weight[h.URL] += h.Weight
		scheme[h.URL] = h.Scheme
	}
	eligible := map[string]float64{}
	if len(prio) == 0 {
		for k, w := range weight {
			eligible[k] = w
		}
	} else {
		for _, s := range prio {
			for k, w := range weight {
				if scheme[k] == s {
					eligible[k] = w
				}
			}
			if len(eligible) > 0 {
				break
			}
		}
	}
	total := 0.0
	for _, w := range eligible {
		total += w
	}
	desc := map[string]any{"generation": d.Gen(), "hosts": hosts, "prioritized_schemes": prio, "via_resolver": viaResolver}
	var res api.Resolver
	if viaResolver {
		res = d.NewResolver(service, cluster, prio, u)
	}
	counts := map[string]int{}
	for i := 0; i < draws; i++ {
		var host string
		var ok bool
		if viaResolver {
			h, _, err := res.Resolve()
			host, ok = h, err == nil
		} else {
			host, _, ok = d.Choose(u, prio)
		}
		run.Count("draws", 1)
		if len(eligible) == 0 {
			if ok {
				desc["returned"] = host
				run.Violation(d.Gen()+"/selection/host-when-none-eligible", desc)
				return
			}
			continue
		}
		if !ok {
			run.Violation(d.Gen()+"/selection/error-although-eligible", desc)
			return
		}
		w, isEligible := eligible[host]
		if !isEligible {
			desc["returned"] = host
			if _, announced := weight[host]; !announced {
				run.Violation(d.Gen()+"/selection/unannounced-host", desc)
			} else {
				run.Violation(d.Gen()+"/selection/wrong-scheme", desc)
			}
			return
		}
		if w == 0 && total > 0 {
			desc["returned"] = host
			run.Violation(d.Gen()+"/selection/zero-weight-host", desc)
			return
		}
		counts[host]++
	}
	if len(eligible) > 0 && total > 0 && draws >= 1000 {
		// Hoeffding: P(|freq - p| > eps) <= 2 exp(-2 n eps^2); delta = 1e-12
		eps := math.Sqrt(math.Log(2/1e-12) / (2 * float64(draws)))
		for hname, w := range eligible {
			p := w / total
			f := float64(counts[hname]) / float64(draws)
			if math.Abs(f-p) > eps {
				desc["host"], desc["expected_share"], desc["observed_share"], desc["hoeffding_eps"] = hname, p, f, eps
				run.Violation(d.Gen()+"/selection/frequency", desc)
				return
			}
		}
		run.Count("frequency_checks", len(eligible))
	}
	if len(hosts) >= 2 {
		run.Distinct(fmt.Sprintf("%s|sel|%v|%v", d.Gen(), hosts, prio))
	}
}

func main() {
	run := ev.Start("C19")
	defer run.Guard()
	run.Rule("histories: all sequences up to length L over 3 nodes x {set1,set2,delete,malformed,weightless} (exhaustive) plus PRNG histories of length 5-6, each fed event by event to the library's URI handler " +
		"(directly and through its own update loop); the live set is compared with the reference fold after every prefix and every earlier snapshot is re-read at the end. " +
		"selection: announcement sets x prioritized-scheme lists, many draws each, eligibility of every draw + Hoeffding bound on frequencies. " +
		"non-trivial/distinct = distinct histories of >=2 events containing a delete/malformed/weightless event, and distinct (host set, priority list) pairs with >=2 hosts")
	run.Assume("ZooKeeper is replaced by synthetic TreeCacheEvents fed through tag-guarded exports; the claim is about the fold and the selection",
		"frequency check is a distribution-free Hoeffding bound with delta=1e-12: it catches gross errors (uniform instead of weighted), not a 1% bias")
	rng := rand.New(rand.NewSource(run.Seed))
	gens := []api.D2{gen2.New(), gen1.New()}
	exhaustLen := run.Pick(4, 5)
	nRandom := run.Pick(20000, 300000)
	draws := run.Pick(6000, 20000)

	for _, d := range gens {
		d.SeedRng(run.Seed)
		// exhaustive histories (payload variants chosen by position so both variants occur)
		var rec func(prefix []hevent)
		count := 0
		rec = func(prefix []hevent) {
			if len(prefix) > 0 {
				runHistory(run, d, prefix, false)
				count++
			}
			if len(prefix) == exhaustLen || run.NumViolations() > 20 {
				return
			}
			for n := 0; n < 3; n++ {
				for k := evKind(0); k < nKinds; k++ {
					rec(append(append([]hevent(nil), prefix...), hevent{n, k, len(prefix) + n}))
				}
			}
		}
		rec(nil)
		run.Count("histories.exhaustive."+d.Gen(), count)
		for i := 0; i < nRandom && run.NumViolations() <= 20; i++ {
			n := 5 + rng.Intn(2)
			h := make([]hevent, n)
			for j := range h {
				h[j] = hevent{rng.Intn(3), evKind(rng.Intn(int(nKinds))), rng.Intn(16)}
			}
			runHistory(run, d, h, i%10 == 0)
			if i < 2 {
				run.Sample(map[string]any{"generation": d.Gen(), "history": histString(h)})
			}
		}
		run.Count("histories.random."+d.Gen(), nRandom)

		// selection
		prios := [][]string{nil, {"https"}, {"http"}, {"https", "http"}, {"http", "https"}, {"unknown"}, {"unknown", "http"}}
		weights := []float64{0, 1, 3, 99}
		schemes := []string{"http", "https"}
		nsets := run.Pick(40, 400)
		var sets [][]hostDef
		// hand-picked sets first
		sets = append(sets,
			[]hostDef{{"http://a:80", "http", 1, 0}, {"https://b:443", "https", 1, 1}},
			[]hostDef{{"http://a:80", "http", 0, 0}, {"http://b:80", "http", 3, 1}},
			[]hostDef{{"https://a:443", "https", 1, 0}, {"https://h:443", "https", 99, 1}},
			[]hostDef{{"http://a:80", "http", 0, 0}, {"http://b:80", "http", 0, 1}},
			[]hostDef{{"https://a:443", "https", 0, 0}, {"http://b:80", "http", 3, 0}, {"http://c:80", "http", 1, 1}},
			[]hostDef{{"http://dup:80", "http", 1, 0}, {"http://dup:80", "http", 3, 1}, {"http://c:80", "http", 4, 2}},
			[]hostDef{},
		)
		for len(sets) < nsets {
			n := 1 + rng.Intn(4)
			var s []hostDef
			for j := 0; j < n; j++ {
				sc := schemes[rng.Intn(2)]
				port := map[string]int{"http": 80, "https": 443}[sc]
				s = append(s, hostDef{fmt.Sprintf("%s://h%d:%d", sc, j, port), sc, weights[rng.Intn(len(weights))], rng.Intn(3)})
			}
			sets = append(sets, s)
		}
		serviceDefinitions(run, d)
		for si, s := range sets {
			for pi, p := range prios {
				n := draws
				if si >= 7 && (si+pi)%4 != 0 {
					n = 300 // eligibility only on most random sets; full frequency runs on a quarter
				}
				selectionCase(run, d, s, p, n, (si+pi)%5 == 0)
				if si < 1 && pi < 2 {
					run.Sample(map[string]any{"generation": d.Gen(), "hosts": s, "prioritized_schemes": p})
				}
			}
		}
	}
	run.Set("generations", []string{"v2", "root"})
	run.Set("exhaustive_history_length", exhaustLen)
	run.Exhaustive(false)
	run.Require("draws", 10000)
	run.Require("snapshots_rechecked", 1000)
	run.Finish()
}
