package gen2

import "github.com/PapaCharlie/go-restli/v2/codegen/utils"

const GENERATION = "v2"

const (
	ManifestName = utils.ManifestFile /*root:utils.ParsedSpecsFile*/
	Suffix       = utils.GeneratedFileSuffix
)

func Clean(dir string) error { return utils.CleanTargetDir(dir) }
