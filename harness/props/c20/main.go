// C20 — regeneration never touches files the generator does not own.
//
// Monitor: file-system fingerprints (inode, mode, size, mtime, ctime, sha256) of every entry before and
// after CleanTargetDir / GenerateCode, compared with a set-based reference model of "owned" files;
// idempotence; regeneration reproduces the same generated files; thorough tier audits the mutating
// syscalls with strace.
package main

import (
	"crypto/sha256"
	"encoding/hex"
	"fmt"
	"math/rand"
	"os"
	"os/exec"
	"path/filepath"
	"regexp"
	"sort"
	"strings"
	"sync"
	"syscall"

	"verifh/ev"
	"verifh/props/c20/gen1"
	"verifh/props/c20/gen2"
)

type generation struct {
	name     string
	clean    func(string) error
	manifest string
	suffix   string
}

var gens = []generation{
	{"v2", gen2.Clean, gen2.ManifestName, gen2.Suffix},
	{"root", gen1.Clean, gen1.ManifestName, gen1.Suffix},
}

// ---------------------------------------------------------------------------------------------
// tree grammar

type kind int

const (
	kGen      kind = iota // generated file  x.gr.go
	kManifest             // the generator's manifest
	kUserGo               // hand-written .go file (e.g. custom typeref)
	kOther                // arbitrary user file
	kEmptyDir
	kDir              // nested dir (children follow)
	kLinkGen          // symlink named like a generated file pointing at a user file elsewhere
	kDirNamedGen      // directory whose name ends in .gr.go
	kDirNamedManifest // directory named like the generator's manifest
	kLinkDir          // symlink to a directory outside the target that holds generated-looking files and a manifest
	nKinds
)

var kindName = [...]string{"gen", "manifest", "usergo", "other", "emptydir", "dir", "linkgen", "dirnamedgen", "dirnamedmanifest", "linkdir"}

type node struct {
	Kind     kind
	Children []*node
}

func (n *node) String() string {
	if n.Kind == kDir || n.Kind == kDirNamedGen || n.Kind == kDirNamedManifest {
		var c []string
		for _, x := range n.Children {
			c = append(c, x.String())
		}
		return kindName[n.Kind] + "(" + strings.Join(c, ",") + ")"
	}
	return kindName[n.Kind]
}

// enumerate all child lists of length 0..maxEntries over the kinds, nested dirs to depth.
func enumLists(depth, maxEntries int, leafKinds []kind) [][]*node {
	var entryChoices []*node
	for _, k := range leafKinds {
		entryChoices = append(entryChoices, &node{Kind: k})
	}
	if depth > 0 {
		for _, sub := range enumLists(depth-1, maxEntries, leafKinds) {
			if len(sub) == 0 {
				continue // that is kEmptyDir
			}
			entryChoices = append(entryChoices, &node{Kind: kDir, Children: sub})
		}
	}
	var out [][]*node
	var rec func(start int, cur []*node)
	rec = func(start int, cur []*node) {
		out = append(out, append([]*node(nil), cur...))
		if len(cur) == maxEntries {
			return
		}
		for i := start; i < len(entryChoices); i++ { // multisets: order does not matter
			rec(i, append(cur, entryChoices[i]))
		}
	}
	rec(0, nil)
	return out
}

func randomList(rng *rand.Rand, depth int) []*node {
	n := rng.Intn(4)
	var out []*node
	for i := 0; i < n; i++ {
		k := kind(rng.Intn(int(nKinds)))
		if (k == kDir || k == kDirNamedGen || k == kDirNamedManifest) && depth == 0 {
			k = kEmptyDir
		}
		nd := &node{Kind: k}
		if k == kDir || k == kDirNamedGen || k == kDirNamedManifest {
			nd.Children = randomList(rng, depth-1)
			if len(nd.Children) == 0 && k == kDir {
				nd.Kind = kEmptyDir
			}
		}
		out = append(out, nd)
	}
	return out
}

// materialise writes the tree; returns relative paths by class.
type built struct {
	owned        map[string]bool // files the generator owns
	user         map[string]bool // files it does not own (incl. symlink targets)
	dirs         map[string]bool
	emptyDirs    map[string]bool // pre-existing empty directories
	manifestDirs int             // directories named like the manifest
}

func materialise(g generation, root string, children []*node, b *built, rel string, outside string) {
	for i, c := range children {
		switch c.Kind {
		case kGen:
			p := filepath.Join(rel, fmt.Sprintf("f%d%s", i, g.suffix))
			must(os.WriteFile(filepath.Join(root, p), []byte("// generated "+p), 0o444))
			b.owned[p] = true
		case kManifest:
			p := filepath.Join(rel, g.manifest)
			if b.owned[p] || b.dirs[p] {
				continue
			}
			must(os.WriteFile(filepath.Join(root, p), []byte(`{"m":1}`), 0o444))
			b.owned[p] = true
		case kUserGo:
			unames := []string{"Custom%d.go", "Foo%d.gr.extra.go", "gr%d.go", "Type%d_gr.go", "x%dgr.go"}
			p := filepath.Join(rel, fmt.Sprintf(unames[(i+len(rel))%len(unames)], i))
			must(os.WriteFile(filepath.Join(root, p), []byte("package x // user "+p), 0o644))
			b.user[p] = true
		case kOther:
			names := []string{"notes%d.txt", "data%d.gr.go.bak", "x%d.gr.json", ".hidden%d", "Makefile%d", "y%d.GR.GO", "z%d.gr.go~", "m%d-" + g.manifest, g.manifest + ".%d.bak", "README%d.gr.md",
				".DS_Store", "Thumbs.db", "desktop.ini", ".gitkeep", ".gitignore"}
			name := names[(i+len(rel))%len(names)]
			if strings.Contains(name, "%d") {
				name = fmt.Sprintf(name, i)
			}
			p := filepath.Join(rel, name)
			must(os.WriteFile(filepath.Join(root, p), []byte("user data "+p), 0o600))
			b.user[p] = true
		case kEmptyDir:
			p := filepath.Join(rel, fmt.Sprintf("e%d", i))
			must(os.Mkdir(filepath.Join(root, p), 0o755))
			b.dirs[p] = true
			b.emptyDirs[p] = true
		case kLinkDir:
			// the user's link to another output directory: neither the link nor anything behind it is the generator's
			p := filepath.Join(rel, fmt.Sprintf("linked%d", i))
			must(os.Symlink(filepath.Join(filepath.Dir(outside), "outside-dir"), filepath.Join(root, p)))
			b.user[p] = true
		case kDir, kDirNamedGen, kDirNamedManifest:
			// package directories may carry any name the generator or a user gives them ("internal" namespaces are written
			// to "_internal")
			p := filepath.Join(rel, fmt.Sprintf([]string{"d%d", "_internal%d", ".dot%d", "d%d"}[(i+len(rel))%4], i))
			if c.Kind == kDirNamedGen {
				p = filepath.Join(rel, fmt.Sprintf("pkg%d%s", i, g.suffix))
			}
			if c.Kind == kDirNamedManifest {
				p = filepath.Join(rel, g.manifest)
				if _, err := os.Lstat(filepath.Join(root, p)); err == nil {
					continue
				}
				b.manifestDirs++
			}
			must(os.Mkdir(filepath.Join(root, p), 0o755))
			b.dirs[p] = true
			if len(c.Children) == 0 {
				b.emptyDirs[p] = true
			}
			materialise(g, root, c.Children, b, p, outside)
		case kLinkGen:
			// a symlink with a generated-looking name pointing at a user file outside the target
			p := filepath.Join(rel, fmt.Sprintf("link%d%s", i, g.suffix))
			must(os.Symlink(outside, filepath.Join(root, p)))
			b.owned[p] = true
		}
	}
}

func must(err error) {
	if err != nil {
		panic(err)
	}
}

type fingerprint struct {
	Ino   uint64
	Mode  uint32
	Size  int64
	Mtime int64
	Ctime int64
	Sha   string
}

func fp(path string) (fingerprint, bool) {
	var st syscall.Stat_t
	if err := syscall.Lstat(path, &st); err != nil {
		return fingerprint{}, false
	}
	f := fingerprint{Ino: st.Ino, Mode: st.Mode, Size: st.Size, Mtime: st.Mtim.Nano(), Ctime: st.Ctim.Nano()}
	if st.Mode&syscall.S_IFMT == syscall.S_IFREG {
		data, err := os.ReadFile(path)
		if err == nil {
			s := sha256.Sum256(data)
			f.Sha = hex.EncodeToString(s[:])
		}
	}
	return f, true
}

func listAll(root string) (files, dirs []string) {
	_ = filepath.Walk(root, func(p string, info os.FileInfo, err error) error {
		if err != nil || p == root {
			return nil
		}
		r, _ := filepath.Rel(root, p)
		if info.IsDir() {
			dirs = append(dirs, r)
		} else {
			files = append(files, r)
		}
		return nil
	})
	sort.Strings(files)
	sort.Strings(dirs)
	return
}

// hasUserBelow: does dir (relative) contain a non-owned file in its subtree?
func hasBelow(set map[string]bool, dir string) bool {
	for f := range set {
		if dir == "." || dir == "" || strings.HasPrefix(f, dir+string(os.PathSeparator)) {
			return true
		}
	}
	return false
}

type caseDesc struct {
	Gen    string `json:"generation"`
	Tree   string `json:"tree"`
	Target string `json:"target"`
}

// checkClean runs one clean case and judges it. target: "abs" (absolute path), "dot" (cwd "."), "missing".
func checkClean(run *ev.Run, g generation, children []*node, target string, scratch string) {
	run.Eval(1)
	base, err := os.MkdirTemp(scratch, "c20-")
	must(err)
	defer func() { _ = exec.Command("chmod", "-R", "u+w", base).Run(); os.RemoveAll(base) }()
	outside := filepath.Join(base, "outside-user-file.txt")
	must(os.WriteFile(outside, []byte("outside"), 0o644))
	outsideDir := filepath.Join(base, "outside-dir")
	must(os.MkdirAll(filepath.Join(outsideDir, "pkg"), 0o755))
	for _, f := range []string{"Other" + g.suffix, g.manifest, "keep.txt", filepath.Join("pkg", "Deep"+g.suffix)} {
		must(os.WriteFile(filepath.Join(outsideDir, f), []byte("another run's "+f), 0o444))
	}
	outsideBefore := map[string]fingerprint{}
	of, od := listAll(outsideDir)
	for _, f := range append(of, od...) {
		outsideBefore[f], _ = fp(filepath.Join(outsideDir, f))
	}
	root := filepath.Join(base, "target")
	desc := caseDesc{g.name, "[" + joinNodes(children) + "]", target}
	if target == "missing" {
		if err := g.clean(root); err != nil {
			run.Violation(g.name+"/clean/error-on-missing-target", map[string]any{"case": desc, "error": err.Error()})
		}
		if _, err := os.Lstat(root); err == nil {
			run.Violation(g.name+"/clean/created-missing-target", map[string]any{"case": desc})
		}
		return
	}
	must(os.Mkdir(root, 0o755))
	b := &built{owned: map[string]bool{}, user: map[string]bool{}, dirs: map[string]bool{}, emptyDirs: map[string]bool{}}
	materialise(g, root, children, b, "", outside)
	before := map[string]fingerprint{}
	for f := range b.user {
		before[f], _ = fp(filepath.Join(root, f))
	}
	outsideFp, _ := fp(outside)

	arg := root
	if target == "dot" {
		cwd, _ := os.Getwd()
		must(os.Chdir(root))
		arg = "."
		defer os.Chdir(cwd)
	}
	outsideIntact := func() {
		if now, ok := fp(outside); !ok || now != outsideFp {
			run.Violation(g.name+"/clean/symlink-target-touched", map[string]any{"case": desc})
		}
		for f, was := range outsideBefore {
			if now, ok := fp(filepath.Join(outsideDir, f)); !ok || now != was {
				run.Violation(g.name+"/clean/reached-outside-the-target-through-a-link", map[string]any{"case": desc, "entry": f, "still_there": ok})
				return
			}
		}
	}
	if err := g.clean(arg); err != nil {
		if b.manifestDirs > 0 {
			// a directory where the manifest file would be: refusing to go on is acceptable, touching what is not the
			// generator's is not
			run.Count("observed_only.clean_error_with_manifest_named_directory", 1)
			for f, was := range before {
				if now, ok := fp(filepath.Join(root, f)); !ok || now != was {
					run.Violation(g.name+"/clean/user-file-touched-by-failed-clean", map[string]any{"case": desc, "file": f, "still_there": ok, "error": err.Error()})
					break
				}
			}
			outsideIntact()
			return
		}
		run.Violation(g.name+"/clean/error", map[string]any{"case": desc, "error": err.Error()})
		return
	}
	judgeAfterClean(run, g, desc, root, b, before, target == "dot", "clean")
	outsideIntact()
	// idempotence
	if _, err := os.Lstat(root); err == nil {
		f1, d1 := listAll(root)
		snap := map[string]fingerprint{}
		for _, f := range f1 {
			snap[f], _ = fp(filepath.Join(root, f))
		}
		if err := g.clean(arg); err != nil {
			run.Violation(g.name+"/clean/second-clean-error", map[string]any{"case": desc, "error": err.Error()})
			return
		}
		f2, d2 := listAll(root)
		if _, err := os.Lstat(root); err != nil {
			// root removed by the second clean only: it was left empty by the first
			run.Violation(g.name+"/clean/not-idempotent", map[string]any{"case": desc, "detail": "second clean removed the target that the first one left"})
			return
		}
		if strings.Join(f1, "|") != strings.Join(f2, "|") || strings.Join(d1, "|") != strings.Join(d2, "|") {
			run.Violation(g.name+"/clean/not-idempotent", map[string]any{"case": desc, "after_first": append(f1, d1...), "after_second": append(f2, d2...)})
			return
		}
		for _, f := range f2 {
			if now, _ := fp(filepath.Join(root, f)); now != snap[f] {
				run.Violation(g.name+"/clean/not-idempotent", map[string]any{"case": desc, "file": f})
				return
			}
		}
	}
	nontrivial := len(b.owned) > 0 && (len(b.user) > 0 || len(b.dirs) > 0)
	if nontrivial {
		run.Distinct(g.name + "|" + desc.Tree + "|" + target)
	}
	run.Count("clean_cases."+target, 1)
}

func joinNodes(ns []*node) string {
	var s []string
	for _, n := range ns {
		s = append(s, n.String())
	}
	return strings.Join(s, ",")
}

func judgeAfterClean(run *ev.Run, g generation, desc caseDesc, root string, b *built, before map[string]fingerprint, isDot bool, phase string) bool {
	ok := true
	viol := func(sig string, d map[string]any) {
		d["case"] = desc
		run.Violation(g.name+"/"+phase+"/"+sig, d)
		ok = false
	}
	// 1. every non-owned file untouched
	for f, was := range before {
		now, exists := fp(filepath.Join(root, f))
		if !exists {
			viol("user-file-removed", map[string]any{"file": f})
			continue
		}
		if now != was {
			viol("user-file-touched", map[string]any{"file": f, "before": was, "after": now})
		}
	}
	// 2. every owned file gone
	for f := range b.owned {
		if _, exists := fp(filepath.Join(root, f)); exists {
			viol("owned-file-survives", map[string]any{"file": f})
		}
	}
	// 3. directories
	check := func(d string, abs string) {
		_, exists := fp(abs)
		hasUser := hasBelow(b.user, d)
		if hasUser && !exists {
			viol("nonempty-dir-removed", map[string]any{"dir": d})
			return
		}
		if exists {
			entries, _ := os.ReadDir(abs)
			if len(entries) == 0 && !b.emptyDirs[d] && !(d == "." && isDot) {
				if d == "." && len(b.owned) == 0 && len(b.dirs) == 0 {
					return // the target itself was empty to begin with: keeping it is allowed
				}
				viol("dir-left-empty-survives", map[string]any{"dir": d})
			}
		}
	}
	for d := range b.dirs {
		check(d, filepath.Join(root, d))
	}
	check(".", root)
	if isDot {
		if _, exists := fp(root); !exists {
			viol("current-dir-removed", map[string]any{})
		}
	}
	// 4. nothing new appeared
	files, _ := listAll(root)
	for _, f := range files {
		if !b.user[f] && !b.owned[f] {
			viol("unexpected-new-file", map[string]any{"file": f})
		}
	}
	return ok
}

// ---------------------------------------------------------------------------------------------
// regeneration through the real generator (child process per run: the generator has global state)

func hashTree(root string, onlySuffix string, manifest string) map[string]string {
	out := map[string]string{}
	files, _ := listAll(root)
	for _, f := range files {
		if strings.HasSuffix(f, onlySuffix) || filepath.Base(f) == manifest {
			data, _ := os.ReadFile(filepath.Join(root, f))
			s := sha256.Sum256(data)
			out[f] = hex.EncodeToString(s[:])
		}
	}
	return out
}

func regenCases(run *ev.Run, scratch string, rng *rand.Rand, n int) {
	genBin := os.Getenv("VERIF_GEN_BIN")
	if genBin == "" {
		run.Inconclusive("VERIF_GEN_BIN not set: regeneration cases not run")
		return
	}
	g := gens[0]
	manifest := filepath.Join(os.Getenv("VERIF_WORK_DIR"), "h", "props", "c20", "testdata", "manifest.json")
	dep := filepath.Join(os.Getenv("VERIF_REPO"), "v2", "restlidata", "generated", "go-restli-manifest.gr.json")
	generate := func(dir string) error {
		cmd := exec.Command(genBin, dir, manifest, dep)
		out, err := cmd.CombinedOutput()
		if err != nil {
			return fmt.Errorf("%v: %s", err, tail(string(out)))
		}
		return nil
	}
	base, err := os.MkdirTemp(scratch, "c20r-")
	must(err)
	defer func() { _ = exec.Command("chmod", "-R", "u+w", base).Run(); os.RemoveAll(base) }()
	// reference generation into an empty directory
	ref := filepath.Join(base, "ref")
	if err := generate(ref); err != nil {
		run.Violation("v2/regen/generator-failed", map[string]any{"error": err.Error()})
		return
	}
	refHash := hashTree(ref, g.suffix, g.manifest)
	if len(refHash) < 5 {
		run.Inconclusive("reference generation produced too few files")
		return
	}
	// the same generation below <output>/<package root> (--generate-with-package-root): what an earlier run without the
	// flag, or under another package root, left anywhere in the output directory is still the generator's to remove
	{
		run.Eval(1)
		dir := filepath.Join(base, "with-root")
		must(os.MkdirAll(dir, 0o755))
		generateWithRoot := func() error {
			cmd := exec.Command(genBin, dir, manifest, dep)
			cmd.Env = append(os.Environ(), "VERIF_GEN_WITH_PACKAGE_ROOT=1")
			out, err := cmd.CombinedOutput()
			if err != nil {
				return fmt.Errorf("%v: %s", err, tail(string(out)))
			}
			return nil
		}
		if err := generateWithRoot(); err != nil {
			run.Violation("v2/regen/generator-failed-with-package-root", map[string]any{"error": err.Error()})
		} else {
			first := hashTree(dir, g.suffix, g.manifest)
			stale := []string{"old/pkg/Stale" + g.suffix, "old/" + g.manifest, "Top" + g.suffix, "other.example/root/x/Y" + g.suffix}
			for _, rel := range stale {
				p := filepath.Join(dir, rel)
				must(os.MkdirAll(filepath.Dir(p), 0o755))
				must(os.WriteFile(p, []byte("// stale generated"), 0o444))
			}
			userFile := filepath.Join(dir, "old", "keep.txt")
			must(os.WriteFile(userFile, []byte("keep"), 0o644))
			was, _ := fp(userFile)
			desc := map[string]any{"case": "regenerate with --generate-with-package-root over stale output elsewhere in the output directory"}
			if err := generateWithRoot(); err != nil {
				desc["error"] = err.Error()
				run.Violation("v2/regen/generator-failed-with-package-root", desc)
			} else {
				for _, rel := range stale {
					if _, ok := fp(filepath.Join(dir, rel)); ok {
						desc["file"] = rel
						run.Violation("v2/regen/stale-generated-file-survives/with-package-root", desc)
						break
					}
				}
				if now, ok := fp(userFile); !ok || now != was {
					run.Violation("v2/regen/user-file-touched", desc)
				}
				if second := hashTree(dir, g.suffix, g.manifest); fmt.Sprint(second) != fmt.Sprint(first) {
					desc["diff"] = diffMaps(first, second)
					run.Violation("v2/regen/generated-files-differ-from-fresh-generation/with-package-root", desc)
				}
				run.Count("regen_with_package_root_cases", 1)
			}
		}
	}
	var genDirs []string
	seen := map[string]bool{}
	for f := range refHash {
		d := filepath.Dir(f)
		if !seen[d] {
			seen[d] = true
			genDirs = append(genDirs, d)
		}
	}
	sort.Strings(genDirs)
	var genFiles []string
	for f := range refHash {
		genFiles = append(genFiles, f)
	}
	sort.Strings(genFiles)
	decoySuffixes := []string{".tmp", ".bak", "~", ".orig", ".swp", ".new", ".old", ".lock", ".part", ".tmp~"}
	for i := 0; i < n; i++ {
		run.Eval(1)
		dir := filepath.Join(base, fmt.Sprintf("t%d", i))
		must(os.MkdirAll(dir, 0o755))
		desc := map[string]any{"case": "regenerate into populated directory", "n": i}
		// start from a previous generation in half of the cases
		if i%2 == 0 {
			if err := generate(dir); err != nil {
				run.Violation("v2/regen/generator-failed", map[string]any{"error": err.Error()})
				return
			}
		}
		// sprinkle user files, stale generated files, custom sources beside generated code
		user := map[string]fingerprint{}
		stale := []string{}
		place := func(rel string, content string, mode os.FileMode, isUser bool) {
			p := filepath.Join(dir, rel)
			must(os.MkdirAll(filepath.Dir(p), 0o755))
			if _, err := os.Lstat(p); err == nil {
				return
			}
			must(os.WriteFile(p, []byte(content), mode))
			if isUser {
				user[rel], _ = fp(p)
			} else {
				stale = append(stale, rel)
			}
		}
		for _, d := range genDirs {
			if rng.Intn(2) == 0 {
				place(filepath.Join(d, "CustomThing.go"), "package custom // hand written", 0o644, true)
			}
			if rng.Intn(2) == 0 {
				place(filepath.Join(d, "README.md"), "docs", 0o600, true)
			}
			if rng.Intn(2) == 0 {
				place(filepath.Join(d, "Stale"+fmt.Sprint(i)+g.suffix), "// stale generated", 0o444, false)
			}
		}
		// user files named like scratch / backup siblings of the files this very run writes (seed C20m: a writer that
		// stages its output in "<file>.tmp" removes and renames away a user file of that name).  Chosen by position, so
		// that no PRNG draw moves.
		for j, f := range genFiles {
			if (i+j)%2 == 0 {
				mode := os.FileMode(0o644)
				if (i+j)%4 == 0 {
					mode = 0o444
				}
				place(f+decoySuffixes[(i+j/2)%len(decoySuffixes)], "user file beside "+filepath.Base(f), mode, true)
			}
			if (i+j)%5 == 0 {
				place(filepath.Join(filepath.Dir(f), "."+filepath.Base(f)+decoySuffixes[(i+j)%len(decoySuffixes)]), "hidden user file", 0o600, true)
			}
		}
		place("userdir/keep.txt", "keep", 0o644, true)
		place("olddir/sub/Old"+g.suffix, "// stale", 0o444, false)
		place("doc.go", "package main // user", 0o644, true)
		if err := generate(dir); err != nil {
			desc["error"] = err.Error()
			run.Violation("v2/regen/generator-failed-on-populated-dir", desc)
			continue
		}
		for rel, was := range user {
			now, ok := fp(filepath.Join(dir, rel))
			if !ok {
				desc["file"] = rel
				run.Violation("v2/regen/user-file-removed", desc)
			} else if now != was {
				desc["file"], desc["before"], desc["after"] = rel, was, now
				run.Violation("v2/regen/user-file-touched", desc)
			}
		}
		for _, rel := range stale {
			if _, ok := fp(filepath.Join(dir, rel)); ok {
				desc["file"] = rel
				run.Violation("v2/regen/stale-generated-file-survives", desc)
			}
		}
		if _, ok := fp(filepath.Join(dir, "olddir")); ok {
			run.Violation("v2/regen/dir-left-empty-survives", desc)
		}
		got := hashTree(dir, g.suffix, g.manifest)
		if fmt.Sprint(got) != fmt.Sprint(refHash) {
			desc["diff"] = diffMaps(refHash, got)
			run.Violation("v2/regen/generated-files-differ-from-fresh-generation", desc)
		}
		run.Count("regen_cases", 1)
		run.Count("regen_user_files_watched", len(user))
		run.Distinct(fmt.Sprintf("regen|%d|%d|%d", i, len(user), len(stale)))
	}
}

func diffMaps(a, b map[string]string) []string {
	var out []string
	for k, v := range a {
		if b[k] != v {
			out = append(out, "differs or missing: "+k)
		}
	}
	for k := range b {
		if _, ok := a[k]; !ok {
			out = append(out, "extra: "+k)
		}
	}
	sort.Strings(out)
	if len(out) > 10 {
		out = out[:10]
	}
	return out
}

func tail(s string) string {
	if len(s) > 600 {
		return s[len(s)-600:]
	}
	return s
}

// ---------------------------------------------------------------------------------------------
// strace audit (thorough): every mutating syscall must target an owned file or a removable directory

var straceLine = regexp.MustCompile(`^(?:\[pid\s+\d+\]\s+|\d+\s+)?(unlink|unlinkat|rmdir|rename|renameat|renameat2|openat|open|chmod|fchmodat|truncate|creat|mkdir|mkdirat|symlink|symlinkat|link|linkat|utimensat|chown|fchownat)\((.*)`)
var quoted = regexp.MustCompile(`"((?:[^"\\]|\\.)*)"`)

func straceAudit(run *ev.Run, g generation, children []*node, scratch string) {
	self, _ := os.Executable()
	base, err := os.MkdirTemp(scratch, "c20s-")
	must(err)
	defer func() { _ = exec.Command("chmod", "-R", "u+w", base).Run(); os.RemoveAll(base) }()
	outside := filepath.Join(base, "outside-user-file.txt")
	must(os.WriteFile(outside, []byte("outside"), 0o644))
	root := filepath.Join(base, "target")
	must(os.Mkdir(root, 0o755))
	b := &built{owned: map[string]bool{}, user: map[string]bool{}, dirs: map[string]bool{}, emptyDirs: map[string]bool{}}
	materialise(g, root, children, b, "", outside)
	log := filepath.Join(base, "strace.log")
	cmd := exec.Command("strace", "-f", "-e", "trace=%file", "-o", log, self, "--clean-child", g.name, root)
	if out, err := cmd.CombinedOutput(); err != nil {
		run.Count("strace.unavailable", 1)
		_ = out
		return
	}
	data, _ := os.ReadFile(log)
	desc := caseDesc{g.name, "[" + joinNodes(children) + "]", "abs(strace)"}
	run.Eval(1)
	for _, line := range strings.Split(string(data), "\n") {
		m := straceLine.FindStringSubmatch(strings.TrimSpace(line))
		if m == nil {
			continue
		}
		call, args := m[1], m[2]
		if strings.Contains(line, "= -1 ") {
			continue // failed call changed nothing
		}
		qs := quoted.FindAllStringSubmatch(args, -1)
		if len(qs) == 0 {
			continue
		}
		if call == "openat" || call == "open" {
			if !strings.Contains(args, "O_WRONLY") && !strings.Contains(args, "O_RDWR") && !strings.Contains(args, "O_TRUNC") && !strings.Contains(args, "O_CREAT") {
				continue
			}
		}
		for _, q := range qs {
			p := q[1]
			if !filepath.IsAbs(p) {
				continue
			}
			rel, err := filepath.Rel(root, p)
			if err != nil || strings.HasPrefix(rel, "..") {
				if p == outside {
					run.Violation(g.name+"/strace/touched-outside-file", map[string]any{"case": desc, "syscall": line})
				}
				continue
			}
			run.Count("strace.mutating_calls", 1)
			if b.user[rel] {
				run.Violation(g.name+"/strace/mutating-syscall-on-user-file", map[string]any{"case": desc, "syscall": line})
			} else if b.dirs[rel] && hasBelow(b.user, rel) && (call == "rmdir" || call == "unlinkat" || call == "rename") {
				// an attempted rmdir of a non-empty directory fails with ENOTEMPTY and was skipped above;
				// a *successful* one on a directory holding user files is a violation
				run.Violation(g.name+"/strace/removed-dir-with-user-files", map[string]any{"case": desc, "syscall": line})
			}
		}
	}
	run.Count("strace.audits", 1)
}

func main() {
	if len(os.Args) >= 4 && os.Args[1] == "--clean-child" {
		for _, g := range gens {
			if g.name == os.Args[2] {
				if err := g.clean(os.Args[3]); err != nil {
					fmt.Println("clean error:", err)
					os.Exit(3)
				}
			}
		}
		return
	}
	run := ev.Start("C20")
	defer run.Guard()
	run.Rule("case = (generation, directory tree, target form); trees: all multisets of <=3 entries per level over {generated file, manifest, user .go, other file, empty dir, nested dir} to depth D (exhaustive), " +
		"plus PRNG trees to depth 3 including symlinks and directories named like generated files; each tree is built on disk, every entry fingerprinted (inode, mode, size, mtime, ctime, sha256), the real CleanTargetDir run on it " +
		"(absolute target, current directory, missing target) and the result compared with the ownership model; then cleaned again (idempotence). Regeneration cases run the real generator in child processes into populated directories. " +
		"non-trivial = tree holds at least one owned file and at least one non-owned entry; distinct = distinct (generation, tree, target form)")
	run.Assume("pre-existing empty directories may be kept or removed (the statement fixes only non-empty ones and those emptied by the removal)",
		"a manifest-named file is owned at any depth (with --generate-with-package-root the manifest lives below the output directory)")
	scratch := filepath.Join(os.Getenv("VERIF_WORK_DIR"), "fs")
	if os.Getenv("VERIF_WORK_DIR") == "" {
		scratch = filepath.Join(os.TempDir(), "verif-c20")
	}
	must(os.MkdirAll(scratch, 0o755))
	rng := rand.New(rand.NewSource(run.Seed))
	leaf := []kind{kGen, kManifest, kUserGo, kOther, kEmptyDir}
	depth := 1
	lists := enumLists(depth, run.Pick(2, 3), leaf)
	run.Set("exhaustive_depth", depth)
	run.Set("exhaustive_entries_per_level", run.Pick(2, 3))
	run.Set("enumerated_trees", len(lists))
	type job struct {
		g      generation
		l      []*node
		target string
	}
	var par, seq []job
	add := func(j job) {
		if j.target == "dot" {
			seq = append(seq, j)
		} else {
			par = append(par, j)
		}
	}
	for _, g := range gens {
		for i, l := range lists {
			target := "abs"
			if i%7 == 3 {
				target = "dot"
			}
			add(job{g, l, target})
			if i < 3 && g.name == "v2" {
				run.Sample(caseDesc{g.name, "[" + joinNodes(l) + "]", target})
			}
		}
		add(job{g, nil, "missing"})
		add(job{g, nil, "dot"})
		nr := run.Pick(3000, 30000)
		for i := 0; i < nr; i++ {
			l := randomList(rng, 3)
			target := "abs"
			if i%5 == 0 {
				target = "dot"
			}
			add(job{g, l, target})
			if i < 2 {
				run.Sample(caseDesc{g.name, "[" + joinNodes(l) + "]", target})
			}
		}
	}
	// absolute-path cases in parallel (they never depend on the working directory); "." cases one at a time
	var wg sync.WaitGroup
	ch := make(chan job, 64)
	for w := 0; w < 12; w++ {
		wg.Add(1)
		go func() {
			defer wg.Done()
			for j := range ch {
				checkClean(run, j.g, j.l, j.target, scratch)
			}
		}()
	}
	for _, j := range par {
		ch <- j
	}
	close(ch)
	wg.Wait()
	for _, j := range seq {
		checkClean(run, j.g, j.l, j.target, scratch)
	}
	for _, g := range gens {
		for i := 0; i < run.Pick(8, 150); i++ {
			straceAudit(run, g, randomList(rng, 3), scratch)
		}
	}
	regenCases(run, scratch, rng, run.Pick(6, 40))
	run.Set("generations", []string{"v2", "root"})
	run.Require("clean_cases.abs", 500)
	run.Require("regen_cases", 2)
	run.Finish()
}
