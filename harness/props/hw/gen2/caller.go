package gen2

import (
	"bytes"
	"context"
	"io"
	"net/http"
	"net/url"

	"github.com/PapaCharlie/go-restli/v2/restli"
)

// Wire is what the tap saw on the client side of one exchange.
type Wire struct {
	Method       string      `json:"method"`
	Target       string      `json:"target"`
	Header       http.Header `json:"header"`
	Body         string      `json:"body"`
	Status       int         `json:"status"`
	RespHeader   http.Header `json:"resp_header,omitempty"`
	RespBody     string      `json:"resp_body,omitempty"`
	TransportErr string      `json:"transport_err,omitempty"`
}

type tap struct {
	rt   http.RoundTripper
	last *Wire
}

func (t *tap) RoundTrip(req *http.Request) (*http.Response, error) {
	w := &Wire{Method: req.Method, Target: req.URL.RequestURI(), Header: req.Header.Clone()}
	if req.Body != nil {
		b, _ := io.ReadAll(req.Body)
		req.Body.Close()
		w.Body = string(b)
		req.Body = io.NopCloser(bytes.NewReader(b))
	}
	t.last = w
	resp, err := t.rt.RoundTrip(req)
	if err != nil {
		w.TransportErr = err.Error()
		return resp, err
	}
	b, rerr := io.ReadAll(resp.Body)
	resp.Body.Close()
	if rerr != nil {
		w.TransportErr = "read body: " + rerr.Error()
	}
	resp.Body = io.NopCloser(bytes.NewReader(b))
	w.Status, w.RespHeader, w.RespBody = resp.StatusCode, resp.Header.Clone(), string(b)
	return resp, nil
}

type fixedResolver struct{ u *url.URL }

func (r fixedResolver) ResolveHostnameAndContextForQuery(string, *url.URL) (*url.URL, error) {
	return r.u, nil
}

type pathString struct{ root, path string }

func (p pathString) RootResource() string          { return p.root }
func (p pathString) ResourcePath() (string, error) { return p.path, nil }

// Caller sends hand-built Rest.li requests through the library's own request construction and client.
type Caller struct {
	Base      *url.URL
	Threshold int
	Strict    bool
	Transport http.RoundTripper
}

// Do builds the request with NewGetRequest / NewDeleteRequest / NewJsonRequest and sends it with Client.Do.
// The returned error is the library's (restli.Error, UnexpectedStatusCodeError, transport errors ...).
func (c *Caller) Do(httpMethod, restliMethod, root, path string, query *string, body []byte, extra http.Header) (*Wire, error) {
	rt := c.Transport
	if rt == nil {
		rt = http.DefaultTransport
	}
	t := &tap{rt: rt}
	cl := &restli.Client{Client: &http.Client{Transport: t}, HostnameResolver: fixedResolver{c.Base},
		StrictResponseDeserialization: c.Strict, QueryTunnellingThreshold: c.Threshold}
	var q restli.QueryParamsEncoder
	if query != nil {
		q = restli.QueryParamsString(*query)
	}
	ctx := context.Background()
	if extra != nil {
		ctx = restli.ExtraRequestHeaders(ctx, func() (http.Header, error) { return extra, nil })
	}
	m := restli.MethodNameMapping[restliMethod]
	var rp restli.ResourcePath = pathString{root, path}
	var req *http.Request
	var err error
	switch {
	case body != nil:
		req, err = restli.NewJsonRequest(cl, ctx, rp, q, httpMethod, m, &Raw{JSON: body}, nil)
	case httpMethod == http.MethodDelete:
		req, err = restli.NewDeleteRequest(cl, ctx, rp, q, m)
	default:
		req, err = restli.NewGetRequest(cl, ctx, rp, q, m)
		if err == nil && httpMethod != http.MethodGet {
			req.Method = httpMethod
		}
	}
	if err != nil {
		return nil, err
	}
	resp, err := cl.Do(req)
	if resp != nil && resp.Body != nil {
		io.Copy(io.Discard, resp.Body)
		resp.Body.Close()
	}
	return t.last, err
}

// Tunnel exposes the codec pair.
func EncodeTunnelled(httpMethod, query string, body []byte) ([]byte, http.Header) {
	return restli.EncodeTunnelledQuery(httpMethod, query, body)
}

func DecodeTunnelled(req *http.Request) error { return restli.DecodeTunnelledQuery(req) }

// DescribeError classifies the error returned by the library's client.
func DescribeError(err error) (kind string, status int, message string) {
	switch e := err.(type) {
	case nil:
		return "none", 0, ""
	case *restli.Error:
		st := 0
		if e.Status != nil {
			st = int(*e.Status)
		}
		msg := ""
		if e.Message != nil {
			msg = *e.Message
		}
		return "restli.Error", st, msg
	case *restli.UnexpectedStatusCodeError:
		return "UnexpectedStatusCodeError", e.Response.StatusCode, string(e.ResponseBody)
	case *url.Error:
		return "url.Error", 0, e.Error()
	default:
		return "other", 0, err.Error()
	}
}
