package gen2

import (
	"bytes"
	"fmt"
	"io"
	"net/http"
	"net/http/httptest"
)

// InProc is a RoundTripper that hands a copy of the request to the handler on the calling goroutine. Unlike a loopback
// socket it adds no synchronisation of its own between requests, so the race detector sees exactly the ordering the
// library itself establishes.
type InProc struct{ H http.Handler }

func (t InProc) RoundTrip(req *http.Request) (resp *http.Response, err error) {
	var body []byte
	if req.Body != nil {
		body, _ = io.ReadAll(req.Body)
		req.Body.Close()
	}
	sreq := httptest.NewRequest(req.Method, req.URL.RequestURI(), bytes.NewReader(body))
	sreq.Header = req.Header.Clone()
	sreq.Host = req.URL.Host
	sreq.ContentLength = int64(len(body))
	rec := httptest.NewRecorder()
	defer func() {
		if p := recover(); p != nil {
			// net/http would close the connection
			resp, err = nil, fmt.Errorf("handler panicked: %v", p)
		}
	}()
	t.H.ServeHTTP(rec, sreq)
	resp = rec.Result()
	resp.Request = req
	return resp, nil
}

// SegmentsString is how a chain of resource path segments reads in a FilterEvent.
func SegmentsString(segs []Segment) string {
	s := ""
	for i, sg := range segs {
		if i > 0 {
			s += "/"
		}
		s += fmt.Sprint(newSegment(sg))
	}
	return s
}
