// Package gen2 (hand-written kit) registers arbitrary resource trees directly through the exported generic
// restli.Register* functions with tiny hand-written path / params / entity types, records every invocation of
// resource code and lets the driver script the outcome.  The root-generation copy (gen1) is derived by derive.sh.
package gen2

import (
	"context"
	"errors"
	"fmt"
	"net/http"
	"sort"
	"strings"
	"sync"

	"github.com/PapaCharlie/go-restli/v2/restli"
	"github.com/PapaCharlie/go-restli/v2/restlicodec"
	common "github.com/PapaCharlie/go-restli/v2/restlidata/generated/com/linkedin/restli/common"
)

const GENERATION = "v2"

// ---------------------------------------------------------------------------------------------
// hand-written types

// Raw is an entity whose wire form is kept verbatim.
type Raw struct {
	JSON []byte
	// Unserializable makes MarshalRestLi return an error, Explode makes it panic (what a nil record nested in a generated
	// type does): both stand for "what resource code returned cannot be serialized"
	Unserializable, Explode bool
}

func (r *Raw) NewInstance() *Raw { return new(Raw) }
func (r *Raw) MarshalRestLi(w restlicodec.Writer) error {
	if r == nil {
		return errors.New("nil Raw entity")
	}
	if r.Explode {
		var nested *Raw
		_ = nested.JSON[0] // nil dereference, like a generated marshaler reaching a nil nested record
	}
	if r.Unserializable {
		return errors.New("kit: this entity cannot be serialized")
	}
	w.WriteRawBytes(r.JSON)
	return nil
}
func (r *Raw) UnmarshalRestLi(reader restlicodec.Reader) error {
	b, err := reader.ReadRawBytes()
	if err != nil {
		return err
	}
	r.JSON = append([]byte(nil), b...)
	if strings.Contains(string(b), `"__undecodable__"`) {
		return errors.New("kit: body marked undecodable")
	}
	return nil
}

// Keys is the resource path type: it expects exactly N string keys (N fixed per registration through the
// type parameter-free constructor below).
type Keys0 struct{ K []string }
type Keys1 struct{ K []string }
type Keys2 struct{ K []string }
type Keys3 struct{ K []string }

func readKeys(n int, segments []restlicodec.Reader) ([]string, error) {
	if len(segments) != n {
		return nil, fmt.Errorf("kit: expected %d entity keys, got %d", n, len(segments))
	}
	out := make([]string, n)
	for i, s := range segments {
		v, err := s.ReadString()
		if err != nil {
			return nil, err
		}
		if v == "__undecodable__" {
			return nil, errors.New("kit: key marked undecodable")
		}
		out[i] = v
	}
	return out, nil
}

func (k *Keys0) NewInstance() *Keys0 { return new(Keys0) }
func (k *Keys1) NewInstance() *Keys1 { return new(Keys1) }
func (k *Keys2) NewInstance() *Keys2 { return new(Keys2) }
func (k *Keys3) NewInstance() *Keys3 { return new(Keys3) }
func (k *Keys0) UnmarshalResourcePath(s []restlicodec.Reader) (err error) {
	k.K, err = readKeys(0, s)
	return
}
func (k *Keys1) UnmarshalResourcePath(s []restlicodec.Reader) (err error) {
	k.K, err = readKeys(1, s)
	return
}
func (k *Keys2) UnmarshalResourcePath(s []restlicodec.Reader) (err error) {
	k.K, err = readKeys(2, s)
	return
}
func (k *Keys3) UnmarshalResourcePath(s []restlicodec.Reader) (err error) {
	k.K, err = readKeys(3, s)
	return
}

// Params accepts any query parameters and keeps their raw (still encoded) values.
type Params struct{ Raw map[string]string }

func (p *Params) NewInstance() *Params { return &Params{} }
func (p *Params) DecodeQueryParams(reader restlicodec.QueryParamsReader) error {
	p.Raw = map[string]string{}
	for k, r := range reader {
		b, err := r.ReadRawBytes()
		if err != nil {
			return err
		}
		p.Raw[k] = string(b)
	}
	if _, bad := p.Raw["undecodable"]; bad {
		return errors.New("kit: query parameter marked undecodable")
	}
	return nil
}

// BatchParams decodes ids as strings plus any other params.
type BatchParams struct{ Raw map[string]string }

func (p *BatchParams) NewInstance() *BatchParams { return &BatchParams{} }
func (p *BatchParams) DecodeQueryParams(reader restlicodec.QueryParamsReader) (ids []string, err error) {
	p.Raw = map[string]string{}
	for k, r := range reader {
		if k == "ids" {
			ids, err = restlicodec.ReadArray(restlicodec.Reader(r), restlicodec.Reader.ReadString)
			if err != nil {
				return nil, err
			}
			continue
		}
		b, err := r.ReadRawBytes()
		if err != nil {
			return nil, err
		}
		p.Raw[k] = string(b)
	}
	if _, bad := p.Raw["undecodable"]; bad {
		return nil, errors.New("kit: query parameter marked undecodable")
	}
	return ids, nil
}

// ActionParams is the body of an action.
type ActionParams = Raw

// ---------------------------------------------------------------------------------------------
// recording

type Invocation struct {
	Resource   string            `json:"resource"` // registered path, e.g. "coll/sub"
	Method     string            `json:"method"`   // rest.li method name, "finder:<name>" or "action:<name>"
	Keys       []string          `json:"keys,omitempty"`
	BatchKeys  []string          `json:"batch_keys,omitempty"`
	Params     map[string]string `json:"params,omitempty"`
	Body       string            `json:"body,omitempty"`
	HTTPMethod string            `json:"http_method"`
	Path       string            `json:"path"`
	RawQuery   string            `json:"raw_query"`
	Headers    http.Header       `json:"headers,omitempty"`
	ReqID      string            `json:"req_id,omitempty"`
	CtxMethod  string            `json:"ctx_method,omitempty"` // what GetMethodFromContext reports inside resource code
}

// Outcome scripts what resource code returns.
type Outcome struct {
	Err            error
	Panic          any
	DoPanic        bool
	Status         int    // overrides ctx.ResponseStatus when non-zero
	Body           []byte // entity JSON for methods returning one
	NilEntity      bool   // return a typed nil entity without error
	Unserializable bool   // the returned entity's MarshalRestLi returns an error
	Explode        bool   // the returned entity's MarshalRestLi panics
	BatchStatuses  map[string]int
	BatchErrors    map[string]*common.ErrorResponse
	BatchResults   map[string][]byte
	CreatedID      string
}

type Recorder struct {
	mu     sync.Mutex
	events []Invocation
	Script func(inv *Invocation) Outcome // nil = success with defaults
}

func (r *Recorder) record(ctx *restli.RequestContext, inv Invocation) Outcome {
	inv.HTTPMethod = ctx.Request.Method
	inv.Path = ctx.RequestPath()
	inv.RawQuery = ctx.Request.URL.RawQuery
	inv.Headers = ctx.Request.Header.Clone()
	inv.ReqID = ctx.Request.Header.Get("X-Verif-Req")
	func() {
		defer func() { _ = recover() }()
		inv.CtxMethod = restli.GetMethodFromContext(ctx.Request.Context()).String()
	}()
	r.mu.Lock()
	r.events = append(r.events, inv)
	script := r.Script
	r.mu.Unlock()
	var o Outcome
	if script != nil {
		o = script(&inv)
	}
	if o.Status != 0 {
		ctx.ResponseStatus = o.Status
	}
	if o.DoPanic {
		panic(o.Panic)
	}
	return o
}

// Drain returns and clears the invocation log.
func (r *Recorder) Drain() []Invocation {
	r.mu.Lock()
	defer r.mu.Unlock()
	out := r.events
	r.events = nil
	return out
}

// ---------------------------------------------------------------------------------------------
// tree specification

type Segment struct {
	Name         string
	IsCollection bool
}

type ActionSpec struct {
	Name     string
	OnEntity bool
}

type ResourceSpec struct {
	Segments []Segment
	Methods  []string // rest.li method names (get, create, ...)
	Finders  []string
	Actions  []ActionSpec
}

func (rs ResourceSpec) PathName() string {
	var n []string
	for _, s := range rs.Segments {
		n = append(n, s.Name)
	}
	return strings.Join(n, "/")
}

func (rs ResourceSpec) parentKeys() int {
	n := 0
	for _, s := range rs.Segments[:len(rs.Segments)-1] {
		if s.IsCollection {
			n++
		}
	}
	return n
}

func entityBody(o Outcome) *Raw {
	if o.NilEntity {
		return nil
	}
	if o.Body == nil {
		return &Raw{JSON: []byte(`{"ok":true}`), Unserializable: o.Unserializable, Explode: o.Explode}
	}
	return &Raw{JSON: o.Body, Unserializable: o.Unserializable, Explode: o.Explode}
}

func batchResponse[V restlicodec.Marshaler](o Outcome, keys []string, mk func(k string) V) *common.BatchResponse[string, V] {
	res := &common.BatchResponse[string, V]{}
	if o.BatchStatuses == nil && o.BatchErrors == nil && o.BatchResults == nil {
		for _, k := range keys {
			res.AddResult(k, mk(k))
		}
		if res.Results == nil {
			res.Results = map[string]V{}
		}
		return res
	}
	res.Results = map[string]V{}
	for k := range o.BatchResults {
		res.AddResult(k, mk(k))
	}
	for k, s := range o.BatchStatuses {
		res.AddStatus(k, s)
	}
	for k, e := range o.BatchErrors {
		res.AddError(k, e)
	}
	return res
}

func sortedKeys[V any](m map[string]V) []string {
	var out []string
	for k := range m {
		out = append(out, k)
	}
	sort.Strings(out)
	return out
}

// registerFor registers every method of rs with path type RPc (collection-level, parent keys only) and RPe
// (entity-level, parent keys + own key).
func registerFor[RPc restli.ResourcePathUnmarshaler[RPc], RPe restli.ResourcePathUnmarshaler[RPe]](
	s restli.Server, rs ResourceSpec, rec *Recorder,
	keysOfC func(RPc) []string, keysOfE func(RPe) []string,
) {
	var segs []restli.ResourcePathSegment
	for _, sg := range rs.Segments {
		segs = append(segs, restli.NewResourcePathSegment(sg.Name, sg.IsCollection))
	}
	name := rs.PathName()
	isColl := rs.Segments[len(rs.Segments)-1].IsCollection
	for _, m := range rs.Methods {
		m := m
		inv := func(keys []string, p map[string]string, body *Raw) Invocation {
			i := Invocation{Resource: name, Method: m, Keys: keys, Params: p}
			if body != nil {
				i.Body = string(body.JSON)
			}
			return i
		}
		switch m {
		case "get":
			if isColl {
				restli.RegisterGet(s, segs, func(ctx *restli.RequestContext, rp RPe, qp *Params) (*Raw, error) {
					o := rec.record(ctx, inv(keysOfE(rp), qp.Raw, nil))
					return entityBody(o), o.Err
				})
			} else {
				restli.RegisterGet(s, segs, func(ctx *restli.RequestContext, rp RPc, qp *Params) (*Raw, error) {
					o := rec.record(ctx, inv(keysOfC(rp), qp.Raw, nil))
					return entityBody(o), o.Err
				})
			}
		case "delete":
			if isColl {
				restli.RegisterDelete(s, segs, func(ctx *restli.RequestContext, rp RPe, qp *Params) error {
					return rec.record(ctx, inv(keysOfE(rp), qp.Raw, nil)).Err
				})
			} else {
				restli.RegisterDelete(s, segs, func(ctx *restli.RequestContext, rp RPc, qp *Params) error {
					return rec.record(ctx, inv(keysOfC(rp), qp.Raw, nil)).Err
				})
			}
		case "update":
			if isColl {
				restli.RegisterUpdate(s, segs, nil, func(ctx *restli.RequestContext, rp RPe, v *Raw, qp *Params) error {
					return rec.record(ctx, inv(keysOfE(rp), qp.Raw, v)).Err
				})
			} else {
				restli.RegisterUpdate(s, segs, nil, func(ctx *restli.RequestContext, rp RPc, v *Raw, qp *Params) error {
					return rec.record(ctx, inv(keysOfC(rp), qp.Raw, v)).Err
				})
			}
		case "partial_update":
			if isColl {
				restli.RegisterPartialUpdate(s, segs, nil, func(ctx *restli.RequestContext, rp RPe, v *Raw, qp *Params) error {
					return rec.record(ctx, inv(keysOfE(rp), qp.Raw, v)).Err
				})
			} else {
				restli.RegisterPartialUpdate(s, segs, nil, func(ctx *restli.RequestContext, rp RPc, v *Raw, qp *Params) error {
					return rec.record(ctx, inv(keysOfC(rp), qp.Raw, v)).Err
				})
			}
		case "create":
			restli.RegisterCreate(s, segs, nil, func(ctx *restli.RequestContext, rp RPc, v *Raw, qp *Params) (*common.CreatedEntity[string], error) {
				o := rec.record(ctx, inv(keysOfC(rp), qp.Raw, v))
				if o.Err != nil {
					return nil, o.Err
				}
				id := o.CreatedID
				if id == "" {
					id = "new-id"
				}
				return &common.CreatedEntity[string]{Id: id}, nil
			})
		case "get_all":
			restli.RegisterGetAll(s, segs, func(ctx *restli.RequestContext, rp RPc, qp *Params) (*common.Elements[*Raw], error) {
				o := rec.record(ctx, inv(keysOfC(rp), qp.Raw, nil))
				if o.Err != nil {
					return nil, o.Err
				}
				return &common.Elements[*Raw]{Elements: []*Raw{entityBody(Outcome{Body: o.Body, Unserializable: o.Unserializable, Explode: o.Explode})}}, nil
			})
		case "batch_get":
			restli.RegisterBatchGet(s, segs, func(ctx *restli.RequestContext, rp RPc, keys []string, qp *BatchParams) (*common.BatchResponse[string, *Raw], error) {
				i := inv(keysOfC(rp), qp.Raw, nil)
				i.BatchKeys = keys
				o := rec.record(ctx, i)
				if o.Err != nil {
					return nil, o.Err
				}
				return batchResponse(o, keys, func(k string) *Raw {
					if b, ok := o.BatchResults[k]; ok {
						return &Raw{JSON: b}
					}
					return &Raw{JSON: []byte(`{"k":true}`)}
				}), nil
			})
		case "batch_delete":
			restli.RegisterBatchDelete(s, segs, func(ctx *restli.RequestContext, rp RPc, keys []string, qp *BatchParams) (*common.BatchResponse[string, *common.BatchEntityUpdateResponse], error) {
				i := inv(keysOfC(rp), qp.Raw, nil)
				i.BatchKeys = keys
				o := rec.record(ctx, i)
				if o.Err != nil {
					return nil, o.Err
				}
				return batchResponse(o, keys, func(k string) *common.BatchEntityUpdateResponse {
					return &common.BatchEntityUpdateResponse{Status: 204}
				}), nil
			})
		case "batch_update":
			restli.RegisterBatchUpdate(s, segs, nil, func(ctx *restli.RequestContext, rp RPc, entities map[string]*Raw, qp *BatchParams) (*common.BatchResponse[string, *common.BatchEntityUpdateResponse], error) {
				i := inv(keysOfC(rp), qp.Raw, nil)
				i.BatchKeys = sortedKeys(entities)
				o := rec.record(ctx, i)
				if o.Err != nil {
					return nil, o.Err
				}
				return batchResponse(o, i.BatchKeys, func(k string) *common.BatchEntityUpdateResponse {
					return &common.BatchEntityUpdateResponse{Status: 204}
				}), nil
			})
		case "batch_partial_update":
			restli.RegisterBatchPartialUpdate(s, segs, nil, func(ctx *restli.RequestContext, rp RPc, entities map[string]*Raw, qp *BatchParams) (*common.BatchResponse[string, *common.BatchEntityUpdateResponse], error) {
				i := inv(keysOfC(rp), qp.Raw, nil)
				i.BatchKeys = sortedKeys(entities)
				o := rec.record(ctx, i)
				if o.Err != nil {
					return nil, o.Err
				}
				return batchResponse(o, i.BatchKeys, func(k string) *common.BatchEntityUpdateResponse {
					return &common.BatchEntityUpdateResponse{Status: 204}
				}), nil
			})
		case "batch_create":
			restli.RegisterBatchCreate(s, segs, nil, func(ctx *restli.RequestContext, rp RPc, entities []*Raw, qp *Params) ([]*common.CreatedEntity[string], error) {
				i := inv(keysOfC(rp), qp.Raw, nil)
				for _, e := range entities {
					i.Body += string(e.JSON) + ";"
				}
				o := rec.record(ctx, i)
				if o.Err != nil {
					return nil, o.Err
				}
				var out []*common.CreatedEntity[string]
				for n := range entities {
					out = append(out, &common.CreatedEntity[string]{Id: fmt.Sprintf("id%d", n), Status: 201})
				}
				return out, nil
			})
		default:
			panic("kit: unknown method " + m)
		}
	}
	for _, f := range rs.Finders {
		f := f
		restli.RegisterFinder(s, segs, f, func(ctx *restli.RequestContext, rp RPc, qp *Params) (*common.Elements[*Raw], error) {
			o := rec.record(ctx, Invocation{Resource: name, Method: "finder:" + f, Keys: keysOfC(rp), Params: qp.Raw})
			if o.Err != nil {
				return nil, o.Err
			}
			return &common.Elements[*Raw]{Elements: []*Raw{entityBody(Outcome{Body: o.Body, Unserializable: o.Unserializable, Explode: o.Explode})}}, nil
		})
	}
	for _, a := range rs.Actions {
		a := a
		if a.OnEntity {
			restli.RegisterActionWithResults(s, segs, a.Name, restlicodec.WriteString, func(ctx *restli.RequestContext, rp RPe, p *Raw) (string, error) {
				o := rec.record(ctx, Invocation{Resource: name, Method: "action:" + a.Name, Keys: keysOfE(rp), Body: string(p.JSON)})
				return "done", o.Err
			})
		} else {
			restli.RegisterActionWithResults(s, segs, a.Name, restlicodec.WriteString, func(ctx *restli.RequestContext, rp RPc, p *Raw) (string, error) {
				o := rec.record(ctx, Invocation{Resource: name, Method: "action:" + a.Name, Keys: keysOfC(rp), Body: string(p.JSON)})
				return "done", o.Err
			})
		}
	}
}

// Register registers one resource.
func Register(s restli.Server, rs ResourceSpec, rec *Recorder) {
	k0 := func(k *Keys0) []string { return k.K }
	k1 := func(k *Keys1) []string { return k.K }
	k2 := func(k *Keys2) []string { return k.K }
	k3 := func(k *Keys3) []string { return k.K }
	n := rs.parentKeys()
	isColl := rs.Segments[len(rs.Segments)-1].IsCollection
	switch {
	case n == 0 && isColl:
		registerFor[*Keys0, *Keys1](s, rs, rec, k0, k1)
	case n == 0:
		registerFor[*Keys0, *Keys0](s, rs, rec, k0, k0)
	case n == 1 && isColl:
		registerFor[*Keys1, *Keys2](s, rs, rec, k1, k2)
	case n == 1:
		registerFor[*Keys1, *Keys1](s, rs, rec, k1, k1)
	case n == 2 && isColl:
		registerFor[*Keys2, *Keys3](s, rs, rec, k2, k3)
	case n == 2:
		registerFor[*Keys2, *Keys2](s, rs, rec, k2, k2)
	default:
		panic("kit: too many parent keys")
	}
}

// ---------------------------------------------------------------------------------------------
// filters

type FilterEvent struct {
	Filter   int      `json:"filter"`
	Phase    string   `json:"phase"` // pre / post
	Method   string   `json:"method,omitempty"`
	Segments string   `json:"segments,omitempty"`
	Keys     []string `json:"keys,omitempty"`
	Finder   string   `json:"finder,omitempty"`
	Action   string   `json:"action,omitempty"`
	ReqID    string   `json:"req_id,omitempty"`
	SawCtx   []int    `json:"saw_ctx,omitempty"` // ids of earlier context-adding filters visible in the request context
}

type FilterLog struct {
	mu     sync.Mutex
	events []FilterEvent
}

func (l *FilterLog) Drain() []FilterEvent {
	l.mu.Lock()
	defer l.mu.Unlock()
	out := l.events
	l.events = nil
	return out
}

type filterKey int

// Filter kinds: "pass", "ctx" (adds a context value), "fail" (PreRequest returns an error)
type testFilter struct {
	id   int
	kind string
	log  *FilterLog
}

func (f *testFilter) PreRequest(req *http.Request) (context.Context, error) {
	ev := FilterEvent{Filter: f.id, Phase: "pre", ReqID: req.Header.Get("X-Verif-Req")}
	func() {
		defer func() {
			if r := recover(); r != nil {
				ev.Method = fmt.Sprint("PANIC:", r)
			}
		}()
		ctx := req.Context()
		m := restli.GetMethodFromContext(ctx)
		ev.Method = m.String()
		var names []string
		for _, sgm := range restli.GetResourcePathSegmentsFromContext(ctx) {
			names = append(names, fmt.Sprint(sgm))
		}
		ev.Segments = strings.Join(names, "/")
		for _, r := range restli.GetEntitySegmentsFromContext(ctx) {
			s, err := r.ReadString()
			if err != nil {
				s = "ERR:" + err.Error()
			}
			ev.Keys = append(ev.Keys, s)
		}
		if m == restli.Method_finder {
			ev.Finder = restli.GetFinderNameFromContext(ctx)
		}
		if m == restli.Method_action {
			ev.Action = restli.GetActionNameFromContext(ctx)
		}
		for i := 0; i < 8; i++ {
			if ctx.Value(filterKey(i)) != nil {
				ev.SawCtx = append(ev.SawCtx, i)
			}
		}
	}()
	f.log.mu.Lock()
	f.log.events = append(f.log.events, ev)
	f.log.mu.Unlock()
	switch f.kind {
	case "ctx":
		id := req.Header.Get("X-Verif-Req")
		if id == "" {
			id = "-"
		}
		return context.WithValue(req.Context(), filterKey(f.id), id), nil
	case "fail":
		return nil, &common.ErrorResponse{Status: restli.Int32Pointer(403), Message: restli.StringPointer("filter says no")}
	}
	return nil, nil
}

func (f *testFilter) PostRequest(ctx context.Context, h http.Header) error {
	ev := FilterEvent{Filter: f.id, Phase: "post"}
	for i := 0; i < 8; i++ {
		if v := ctx.Value(filterKey(i)); v != nil {
			ev.SawCtx = append(ev.SawCtx, i)
			// context-adding filters store the request id: it attributes this event to its request
			if id, ok := v.(string); ok && id != "" {
				ev.ReqID = id
			}
		}
	}
	// what the request context says about the request after resource code has returned
	func() {
		defer func() {
			if r := recover(); r != nil {
				ev.Method = fmt.Sprint("PANIC:", r)
			}
		}()
		ev.Method = restli.GetMethodFromContext(ctx).String()
		for _, r := range restli.GetEntitySegmentsFromContext(ctx) {
			s, err := r.ReadString()
			if err != nil {
				s = "ERR:" + err.Error()
			}
			ev.Keys = append(ev.Keys, s)
		}
	}()
	f.log.mu.Lock()
	f.log.events = append(f.log.events, ev)
	f.log.mu.Unlock()
	return nil
}

func NewFilters(kinds []string, log *FilterLog) []restli.Filter {
	var out []restli.Filter
	for i, k := range kinds {
		out = append(out, &testFilter{id: i, kind: k, log: log})
	}
	return out
}

// ---------------------------------------------------------------------------------------------
// servers

func NewServer(filters []restli.Filter) restli.Server { return restli.NewServer(filters...) }
func NewPrefixedServer(prefix string, filters []restli.Filter) restli.Server {
	return restli.NewPrefixedServer(prefix, filters...)
}

var MethodNames = func() []string {
	var out []string
	for n := range restli.MethodNameMapping {
		out = append(out, n)
	}
	sort.Strings(out)
	return out
}()

func NewErrorResponse(status *int32, message *string) error {
	return &common.ErrorResponse{Status: status, Message: message}
}

func newSegment(sg Segment) restli.ResourcePathSegment {
	return restli.NewResourcePathSegment(sg.Name, sg.IsCollection)
}

// QueryEscape is the library's own escaper for values of query parameters.
func QueryEscape(s string) string { return restlicodec.Ror2QueryEscape(s) }

// EntityPath is prefix + key, the key encoded by the library's own path writer (the way generated ResourcePath()
// implementations do it).
func EntityPath(prefix, key string) string {
	w := restlicodec.NewRor2PathWriter()
	w.RawPathSegment(prefix)
	w.WriteString(key)
	return w.Finalize()
}

// EveryKeyFailed is the outcome of a batch method in which no key succeeded: per-key errors only.
func EveryKeyFailed(keys []string, status int32) Outcome {
	o := Outcome{BatchErrors: map[string]*common.ErrorResponse{}}
	for _, k := range keys {
		o.BatchErrors[k] = &common.ErrorResponse{Status: restli.Int32Pointer(status), Message: restli.StringPointer("no " + k)}
	}
	return o
}
