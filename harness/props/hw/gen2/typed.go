package gen2

import (
	"context"
	"net/http"
	"net/url"
	"sync"

	"github.com/PapaCharlie/go-restli/v2/restli"
	"github.com/PapaCharlie/go-restli/v2/restlicodec"
	common "github.com/PapaCharlie/go-restli/v2/restlidata/generated/com/linkedin/restli/common"
)

// Typed drives the library's generic client functions (restli.Get, BatchGet, ...) with the kit's hand-written
// types: string keys, Raw entities.  Every call returns what the wire tap saw.
type Typed struct {
	Base      *url.URL
	Threshold int
	Strict    bool
	Transport http.RoundTripper
	Extra     http.Header
	// Shared, when set, makes every call go through one shared *restli.Client; ReqID travels in X-Verif-Req and
	// selects the per-call view of the shared wire tap.
	Shared *SharedClient
	ReqID  string
}

// SharedClient is one restli.Client used by many goroutines; its transport files every exchange under the
// request id found in the X-Verif-Req header.
type SharedClient struct {
	Client *restli.Client
	rt     http.RoundTripper
	mu     sync.Mutex
	views  map[string]*tap
}

func NewSharedClient(base *url.URL, threshold int, strict bool, rt http.RoundTripper) *SharedClient {
	if rt == nil {
		rt = http.DefaultTransport
	}
	s := &SharedClient{rt: rt, views: map[string]*tap{}}
	s.Client = &restli.Client{Client: &http.Client{Transport: s}, HostnameResolver: fixedResolver{base}, StrictResponseDeserialization: strict, QueryTunnellingThreshold: threshold}
	return s
}

func (s *SharedClient) RoundTrip(req *http.Request) (*http.Response, error) {
	s.mu.Lock()
	v := s.views[req.Header.Get("X-Verif-Req")]
	s.mu.Unlock()
	if v == nil {
		return s.rt.RoundTrip(req)
	}
	return v.RoundTrip(req)
}

func (s *SharedClient) view(id string) *tap {
	v := &tap{rt: s.rt}
	s.mu.Lock()
	s.views[id] = v
	s.mu.Unlock()
	return v
}

// Forget drops the per-call view of id.
func (s *SharedClient) Forget(id string) {
	s.mu.Lock()
	delete(s.views, id)
	s.mu.Unlock()
}

func (t *Typed) client() (*restli.Client, *tap, context.Context) {
	if t.Shared != nil {
		h := http.Header{"X-Verif-Req": {t.ReqID}}
		for k, v := range t.Extra {
			h[k] = v
		}
		return t.Shared.Client, t.Shared.view(t.ReqID), restli.ExtraRequestHeaders(context.Background(), func() (http.Header, error) { return h, nil })
	}
	rt := t.Transport
	if rt == nil {
		rt = http.DefaultTransport
	}
	tp := &tap{rt: rt}
	ctx := context.Background()
	if t.Extra != nil {
		ctx = restli.ExtraRequestHeaders(ctx, func() (http.Header, error) { return t.Extra, nil })
	}
	return &restli.Client{Client: &http.Client{Transport: tp}, HostnameResolver: fixedResolver{t.Base}, StrictResponseDeserialization: t.Strict, QueryTunnellingThreshold: t.Threshold}, tp, ctx
}

func rp(root, path string) restli.ResourcePath { return pathString{root, path} }

func q(s *string) restli.QueryParamsEncoder {
	if s == nil {
		return nil
	}
	return restli.QueryParamsString(*s)
}

func (t *Typed) Get(root, path string, query *string) (*Raw, *Wire, error) {
	c, tp, ctx := t.client()
	v, err := restli.Get[*Raw](c, ctx, rp(root, path), q(query))
	return v, tp.last, err
}

func (t *Typed) GetAll(root, path string, query *string) ([]*Raw, *Wire, error) {
	c, tp, ctx := t.client()
	v, err := restli.GetAll[*Raw](c, ctx, rp(root, path), q(query))
	if v == nil {
		return nil, tp.last, err
	}
	return v.Elements, tp.last, err
}

func (t *Typed) Find(root, path string, query string) ([]*Raw, *Wire, error) {
	c, tp, ctx := t.client()
	v, err := restli.Find[*Raw](c, ctx, rp(root, path), restli.QueryParamsString(query))
	if v == nil {
		return nil, tp.last, err
	}
	return v.Elements, tp.last, err
}

func (t *Typed) Create(root, path string, body []byte) (id string, status int, w *Wire, err error) {
	c, tp, ctx := t.client()
	ce, err := restli.Create[string](c, ctx, rp(root, path), &Raw{JSON: body}, nil, nil)
	if ce != nil {
		id, status = ce.Id, ce.Status
	}
	return id, status, tp.last, err
}

func (t *Typed) Update(root, path string, body []byte) (*Wire, error) {
	c, tp, ctx := t.client()
	err := restli.Update(c, ctx, rp(root, path), &Raw{JSON: body}, nil, nil)
	return tp.last, err
}

func (t *Typed) PartialUpdate(root, path string, body []byte) (*Wire, error) {
	c, tp, ctx := t.client()
	err := restli.PartialUpdate(c, ctx, rp(root, path), &Raw{JSON: body}, nil, nil)
	return tp.last, err
}

func (t *Typed) Delete(root, path string) (*Wire, error) {
	c, tp, ctx := t.client()
	err := restli.Delete(c, ctx, rp(root, path), nil)
	return tp.last, err
}

func (t *Typed) Action(root, path, action string, body []byte) (string, *Wire, error) {
	c, tp, ctx := t.client()
	v, err := restli.DoActionRequestWithResults(c, ctx, rp(root, path), restli.QueryParamsString("action="+action), &Raw{JSON: body}, restlicodec.Reader.ReadString)
	return v, tp.last, err
}

type BatchResult struct {
	Results  map[string]string
	Statuses map[string]int
	Errors   map[string]string
}

func (t *Typed) BatchGet(root, path string, keys []string) (*BatchResult, *Wire, error) {
	c, tp, ctx := t.client()
	res, err := restli.BatchGet[string, *Raw](c, ctx, rp(root, path), keys, nil)
	return convertBatch(res, func(r *Raw) string { return string(r.JSON) }), tp.last, err
}

func (t *Typed) BatchDelete(root, path string, keys []string) (*BatchResult, *Wire, error) {
	c, tp, ctx := t.client()
	res, err := restli.BatchDelete[string](c, ctx, rp(root, path), keys, nil)
	return convertBatch(res, func(r *common.BatchEntityUpdateResponse) string { return "" }), tp.last, err
}

func (t *Typed) BatchUpdate(root, path string, entities map[string][]byte) (*BatchResult, *Wire, error) {
	c, tp, ctx := t.client()
	m := map[string]*Raw{}
	for k, v := range entities {
		m[k] = &Raw{JSON: v}
	}
	res, err := restli.BatchUpdate[string, *Raw](c, ctx, rp(root, path), m, nil, nil)
	return convertBatch(res, func(r *common.BatchEntityUpdateResponse) string { return "" }), tp.last, err
}

func (t *Typed) BatchPartialUpdate(root, path string, entities map[string][]byte) (*BatchResult, *Wire, error) {
	c, tp, ctx := t.client()
	m := map[string]*Raw{}
	for k, v := range entities {
		m[k] = &Raw{JSON: v}
	}
	res, err := restli.BatchPartialUpdate[string, *Raw](c, ctx, rp(root, path), m, nil, nil)
	return convertBatch(res, func(r *common.BatchEntityUpdateResponse) string { return "" }), tp.last, err
}

func (t *Typed) BatchCreate(root, path string, bodies [][]byte) ([]string, *Wire, error) {
	c, tp, ctx := t.client()
	var in []*Raw
	for _, b := range bodies {
		in = append(in, &Raw{JSON: b})
	}
	res, err := restli.BatchCreate[string, *Raw](c, ctx, rp(root, path), in, nil, nil)
	var ids []string
	for _, r := range res {
		ids = append(ids, r.Id)
	}
	return ids, tp.last, err
}

func convertBatch[V restlicodec.Marshaler](res *common.BatchResponse[string, V], show func(V) string) *BatchResult {
	if res == nil {
		return nil
	}
	out := &BatchResult{Results: map[string]string{}, Statuses: map[string]int{}, Errors: map[string]string{}}
	for k, v := range res.Results {
		out.Results[k] = show(v)
	}
	for k, v := range res.Statuses {
		out.Statuses[k] = v
	}
	for k, v := range res.Errors {
		msg := ""
		if v != nil && v.Message != nil {
			msg = *v.Message
		}
		out.Errors[k] = msg
	}
	return out
}
