// Package refcodec is the independent reference codec pair: JSON and ROR2 encoders / decoders written from
// the Rest.li 2.0 protocol description and the property statements.  It shares no code with go-restli.
package refcodec

import (
	"bytes"
	"encoding/json"
	"fmt"
	"math"
	"math/rand"
	"sort"
	"strconv"
	"strings"
	"unicode/utf8"

	"verifh/corpus"
	"verifh/model"
)

// ---------------------------------------------------------------------------------------------
// JSON encoding of abstract values

// AvroString maps a byte string to the protocol's textual form: one code point U+00XX per byte.
func AvroString(b string) string {
	var sb strings.Builder
	for i := 0; i < len(b); i++ {
		sb.WriteRune(rune(b[i]))
	}
	return sb.String()
}

// FromAvroString is the inverse; ok=false when a code point above U+00FF occurs.
func FromAvroString(s string) (string, bool) {
	out := make([]byte, 0, len(s))
	for _, r := range s {
		if r > 0xff || r == utf8.RuneError {
			return "", false
		}
		out = append(out, byte(r))
	}
	return string(out), true
}

type JSONStyle struct {
	Rng        *rand.Rand // nil = canonical (sorted keys, compact, minimal escapes)
	Whitespace bool
	AltEscapes bool // \uXXXX for arbitrary characters, \/ for slash
	Unknown    bool // inject unknown extra members into objects
	AltNumbers bool // alternative spellings in float positions only
}

func quote(s string, st *JSONStyle) string {
	var b strings.Builder
	b.WriteByte('"')
	for _, r := range s {
		alt := st != nil && st.AltEscapes && st.Rng != nil && st.Rng.Intn(3) == 0
		switch {
		case r == '"':
			b.WriteString(`\"`)
		case r == '\\':
			b.WriteString(`\\`)
		case r == '/' && alt:
			b.WriteString(`\/`)
		case r == '\n' && !alt:
			b.WriteString(`\n`)
		case r == '\r' && !alt:
			b.WriteString(`\r`)
		case r == '\t' && !alt:
			b.WriteString(`\t`)
		case r < 0x20 || alt:
			if r > 0xffff {
				r1, r2 := utf16pair(r)
				fmt.Fprintf(&b, `\u%04x\u%04x`, r1, r2)
			} else {
				fmt.Fprintf(&b, `\u%04x`, r)
			}
		default:
			b.WriteRune(r)
		}
	}
	b.WriteByte('"')
	return b.String()
}

func utf16pair(r rune) (rune, rune) {
	r -= 0x10000
	return 0xd800 + (r>>10)&0x3ff, 0xdc00 + r&0x3ff
}

func ws(st *JSONStyle) string {
	if st == nil || !st.Whitespace || st.Rng == nil {
		return ""
	}
	return []string{"", " ", "\n", "\t ", "  \r\n"}[st.Rng.Intn(5)]
}

func floatText(f float64, bits int, st *JSONStyle) string {
	switch {
	case f != f:
		return `"NaN"`
	case math.IsInf(f, 1):
		return `"Infinity"`
	case math.IsInf(f, -1):
		return `"-Infinity"`
	}
	txt := strconv.FormatFloat(f, 'g', -1, bits)
	if st != nil && st.AltNumbers && st.Rng != nil {
		switch st.Rng.Intn(4) {
		case 0:
			txt = strconv.FormatFloat(f, 'e', -1, bits)
		case 1:
			if f == math.Trunc(f) && math.Abs(f) < 1e15 {
				txt = strconv.FormatFloat(f, 'f', 1, bits) // 100.0
			}
		case 2:
			txt = strings.Replace(strconv.FormatFloat(f, 'E', -1, bits), "E+", "E", 1)
		}
	}
	if strings.HasPrefix(txt, "+") {
		txt = txt[1:]
	}
	return txt
}

// EncodeJSON writes the reference JSON document of v (of type t).
func EncodeJSON(s *corpus.Schema, t corpus.TypeExpr, v *model.Value, st *JSONStyle) string {
	var b strings.Builder
	encJSON(&b, s, t, v, st, 0)
	return b.String()
}

var unknownShapes = []string{`1`, `"x"`, `null`, `true`, `{"a":{"b":[1,{"c":null}]}}`, `[1,[2,[3]],{"k":"v"}]`, `{}`, `[]`, `-1.5e-3`, `"(a:b)"`, `{"$set":{"x":1}}`}

func encJSON(b *strings.Builder, s *corpus.Schema, t corpus.TypeExpr, v *model.Value, st *JSONStyle, depth int) {
	et, td := model.Resolve(s, t)
	type kv struct{ k, v string }
	writeObj := func(entries []kv, allowUnknown bool) {
		if st != nil && st.Rng != nil {
			st.Rng.Shuffle(len(entries), func(i, j int) { entries[i], entries[j] = entries[j], entries[i] })
			if st.Unknown && allowUnknown {
				n := st.Rng.Intn(3)
				for i := 0; i < n; i++ {
					e := kv{fmt.Sprintf("zz_unknown_%d_%d", depth, i), unknownShapes[st.Rng.Intn(len(unknownShapes))]}
					pos := st.Rng.Intn(len(entries) + 1)
					entries = append(entries[:pos], append([]kv{e}, entries[pos:]...)...)
				}
			}
		} else {
			sort.Slice(entries, func(i, j int) bool { return entries[i].k < entries[j].k })
		}
		b.WriteString("{" + ws(st))
		for i, e := range entries {
			if i > 0 {
				b.WriteString("," + ws(st))
			}
			b.WriteString(quote(e.k, st) + ws(st) + ":" + ws(st) + e.v)
		}
		b.WriteString(ws(st) + "}")
	}
	sub := func(t corpus.TypeExpr, v *model.Value) string {
		var sb strings.Builder
		encJSON(&sb, s, t, v, st, depth+1)
		return sb.String()
	}
	switch v.Kind {
	case model.KInt32, model.KInt64:
		b.WriteString(strconv.FormatInt(v.I, 10))
	case model.KFloat32:
		b.WriteString(floatText(float64(float32(v.F)), 32, st))
	case model.KFloat64:
		b.WriteString(floatText(v.F, 64, st))
	case model.KBool:
		b.WriteString(strconv.FormatBool(v.B))
	case model.KString, model.KEnum:
		b.WriteString(quote(v.S, st))
	case model.KBytes, model.KFixed:
		b.WriteString(quote(AvroString(v.S), st))
	case model.KArray:
		b.WriteString("[" + ws(st))
		for i, e := range v.Elems {
			if i > 0 {
				b.WriteString("," + ws(st))
			}
			b.WriteString(sub(*et.Array, e))
		}
		b.WriteString(ws(st) + "]")
	case model.KMap:
		var entries []kv
		for k, e := range v.Entries {
			entries = append(entries, kv{k, sub(*et.Map, e)})
		}
		writeObj(entries, false) // every key of a map is data: nothing can be "unknown"
	case model.KUnion:
		if v.Alias == "" {
			b.WriteString("null")
			return
		}
		for _, m := range td.Members {
			if m.Alias == v.Alias {
				writeObj([]kv{{m.Alias, sub(m.Type, v.Member)}}, false)
			}
		}
	case model.KRecord:
		rt := td
		var entries []kv
		if td.Kind == "complexkey" {
			rt = s.Lookup(td.Key)
			if p := v.Fields["$params"]; p != nil {
				entries = append(entries, kv{"$params", sub(corpus.R(td.Params), p)})
			}
		}
		for _, f := range s.AllFields(rt) {
			if fv := v.Fields[f.Name]; fv != nil {
				entries = append(entries, kv{f.Name, sub(f.Type, fv)})
			}
		}
		writeObj(entries, true)
	}
}

// ---------------------------------------------------------------------------------------------
// JSON decoding (strict, schema directed) on top of encoding/json

type DecodeOpts struct {
	AllowUnknown bool // unknown record members are skipped (true when judging conforming documents, false when judging library output)
}

func ParseJSON(data []byte) (any, error) {
	dec := json.NewDecoder(bytes.NewReader(data))
	dec.UseNumber()
	var tree any
	if err := dec.Decode(&tree); err != nil {
		return nil, err
	}
	if dec.More() {
		return nil, fmt.Errorf("trailing data after JSON value")
	}
	// encoding/json tolerates trailing whitespace only
	var extra any
	if err := dec.Decode(&extra); err == nil {
		return nil, fmt.Errorf("trailing JSON value")
	}
	if !utf8.Valid(data) {
		return nil, fmt.Errorf("document is not valid UTF-8")
	}
	return tree, nil
}

func DecodeJSON(s *corpus.Schema, t corpus.TypeExpr, data []byte, o DecodeOpts) (*model.Value, error) {
	tree, err := ParseJSON(data)
	if err != nil {
		return nil, err
	}
	return FromTree(s, t, tree, o, "$")
}

// FromTree converts a generic JSON tree (encoding/json with UseNumber) into an abstract value.
func FromTree(s *corpus.Schema, t corpus.TypeExpr, tree any, o DecodeOpts, path string) (*model.Value, error) {
	et, td := model.Resolve(s, t)
	bad := func(want string) (*model.Value, error) {
		return nil, fmt.Errorf("%s: expected %s, found %T (%v)", path, want, tree, tree)
	}
	floatOf := func(bits int) (float64, error) {
		switch x := tree.(type) {
		case json.Number:
			return strconv.ParseFloat(string(x), bits)
		case string:
			switch x {
			case "NaN":
				return math.NaN(), nil
			case "Infinity":
				return math.Inf(1), nil
			case "-Infinity":
				return math.Inf(-1), nil
			}
		}
		return 0, fmt.Errorf("%s: expected a number, found %T (%v)", path, tree, tree)
	}
	if td == nil {
		switch {
		case et.Prim != "":
			switch et.Prim {
			case "int32", "int64":
				n, ok := tree.(json.Number)
				if !ok {
					return bad("an integer")
				}
				bits := 64
				if et.Prim == "int32" {
					bits = 32
				}
				i, err := strconv.ParseInt(string(n), 10, bits)
				if err != nil {
					return nil, fmt.Errorf("%s: %v", path, err)
				}
				if et.Prim == "int32" {
					return model.Int32(int32(i)), nil
				}
				return model.Int64(i), nil
			case "float32":
				f, err := floatOf(32)
				if err != nil {
					return nil, err
				}
				return model.Float32(float32(f)), nil
			case "float64":
				f, err := floatOf(64)
				if err != nil {
					return nil, err
				}
				return model.Float64(f), nil
			case "bool":
				x, ok := tree.(bool)
				if !ok {
					return bad("a boolean")
				}
				return model.Bool(x), nil
			case "string":
				x, ok := tree.(string)
				if !ok {
					return bad("a string")
				}
				return model.String(x), nil
			case "bytes":
				x, ok := tree.(string)
				if !ok {
					return bad("a string (bytes)")
				}
				raw, ok := FromAvroString(x)
				if !ok {
					return nil, fmt.Errorf("%s: bytes string holds a code point above U+00FF: %q", path, x)
				}
				return &model.Value{Kind: model.KBytes, S: raw}, nil
			}
		case et.Array != nil:
			x, ok := tree.([]any)
			if !ok {
				return bad("an array")
			}
			v := &model.Value{Kind: model.KArray}
			for i, e := range x {
				ev, err := FromTree(s, *et.Array, e, o, fmt.Sprintf("%s[%d]", path, i))
				if err != nil {
					return nil, err
				}
				v.Elems = append(v.Elems, ev)
			}
			return v, nil
		case et.Map != nil:
			x, ok := tree.(map[string]any)
			if !ok {
				return bad("an object (map)")
			}
			v := &model.Value{Kind: model.KMap, Entries: map[string]*model.Value{}}
			for k, e := range x {
				ev, err := FromTree(s, *et.Map, e, o, path+"."+k)
				if err != nil {
					return nil, err
				}
				v.Entries[k] = ev
			}
			return v, nil
		}
		return nil, fmt.Errorf("bad type")
	}
	switch td.Kind {
	case "enum":
		x, ok := tree.(string)
		if !ok {
			return bad("an enum symbol")
		}
		for _, sym := range td.Symbols {
			if sym == x {
				return &model.Value{Kind: model.KEnum, S: x}, nil
			}
		}
		return &model.Value{Kind: model.KEnum, S: ""}, nil // unknown symbol -> the distinguished unknown value
	case "fixed":
		x, ok := tree.(string)
		if !ok {
			return bad("a string (fixed)")
		}
		raw, ok := FromAvroString(x)
		if !ok {
			return nil, fmt.Errorf("%s: fixed string holds a code point above U+00FF", path)
		}
		if len(raw) != td.Size {
			return nil, fmt.Errorf("%s: fixed of size %d has %d bytes", path, td.Size, len(raw))
		}
		return &model.Value{Kind: model.KFixed, S: raw}, nil
	case "union":
		if tree == nil {
			if !td.HasNull {
				return nil, fmt.Errorf("%s: null for a non-nullable union", path)
			}
			return &model.Value{Kind: model.KUnion}, nil
		}
		x, ok := tree.(map[string]any)
		if !ok {
			return bad("a union object")
		}
		if len(x) == 0 && td.HasNull {
			return &model.Value{Kind: model.KUnion}, nil // observed-only leniency: {} for "no member"
		}
		if len(x) != 1 {
			return nil, fmt.Errorf("%s: union object with %d members", path, len(x))
		}
		for k, e := range x {
			for _, m := range td.Members {
				if m.Alias == k {
					mv, err := FromTree(s, m.Type, e, o, path+"<"+k+">")
					if err != nil {
						return nil, err
					}
					return &model.Value{Kind: model.KUnion, Alias: k, Member: mv}, nil
				}
			}
			return nil, fmt.Errorf("%s: unknown union member %q", path, k)
		}
	case "record", "complexkey":
		x, ok := tree.(map[string]any)
		if !ok {
			return bad("an object (record)")
		}
		rt := td
		v := &model.Value{Kind: model.KRecord, Fields: map[string]*model.Value{}}
		known := map[string]corpus.TypeExpr{}
		if td.Kind == "complexkey" {
			rt = s.Lookup(td.Key)
			known["$params"] = corpus.R(td.Params)
		}
		for _, f := range s.AllFields(rt) {
			known[f.Name] = f.Type
		}
		for k, e := range x {
			ft, ok := known[k]
			if !ok {
				if o.AllowUnknown {
					continue
				}
				return nil, fmt.Errorf("%s: unknown member %q", path, k)
			}
			if e == nil {
				// null member == absent, except for nullable unions
				if _, ftd := model.Resolve(s, ft); ftd != nil && ftd.Kind == "union" && ftd.HasNull {
					v.Fields[k] = &model.Value{Kind: model.KUnion}
				}
				continue
			}
			fv, err := FromTree(s, ft, e, o, path+"."+k)
			if err != nil {
				return nil, err
			}
			v.Fields[k] = fv
		}
		return v, nil
	}
	return nil, fmt.Errorf("bad kind")
}

// FillDefaults returns a copy of v in which every absent defaulted field (at any depth) carries the schema's
// default literal, decoded by this reference decoder — what decoding is stated to do.
func FillDefaults(s *corpus.Schema, t corpus.TypeExpr, v *model.Value) *model.Value {
	if v == nil {
		return nil
	}
	et, td := model.Resolve(s, t)
	c := model.Clone(v)
	switch v.Kind {
	case model.KArray:
		for i, e := range c.Elems {
			c.Elems[i] = FillDefaults(s, *et.Array, e)
		}
	case model.KMap:
		for k, e := range c.Entries {
			c.Entries[k] = FillDefaults(s, *et.Map, e)
		}
	case model.KUnion:
		if td != nil && v.Alias != "" {
			for _, m := range td.Members {
				if m.Alias == v.Alias {
					c.Member = FillDefaults(s, m.Type, v.Member)
				}
			}
		}
	case model.KRecord:
		rt := td
		if td.Kind == "complexkey" {
			rt = s.Lookup(td.Key)
			if p := c.Fields["$params"]; p != nil {
				c.Fields["$params"] = FillDefaults(s, corpus.R(td.Params), p)
			}
		}
		for _, f := range s.AllFields(rt) {
			fv := c.Fields[f.Name]
			if fv == nil && f.Default != nil {
				d, err := DecodeJSON(s, f.Type, []byte(*f.Default), DecodeOpts{})
				if err != nil {
					panic(fmt.Sprintf("corpus default literal %s for %s does not decode: %v", *f.Default, f.Name, err))
				}
				c.Fields[f.Name] = FillDefaults(s, f.Type, d)
				continue
			}
			if fv != nil {
				c.Fields[f.Name] = FillDefaults(s, f.Type, fv)
			}
		}
	}
	return c
}

// JSONKeyOrders scans a JSON document with encoding/json's tokenizer and returns the key sequence of every
// object in order of appearance.
func JSONKeyOrders(data []byte) ([][]string, error) {
	dec := json.NewDecoder(bytes.NewReader(data))
	dec.UseNumber()
	var orders [][]string
	type frame struct {
		isObj   bool
		idx     int
		wantKey bool
	}
	var stack []frame
	for {
		tok, err := dec.Token()
		if err != nil {
			if err.Error() == "EOF" {
				break
			}
			return nil, err
		}
		top := func() *frame {
			if len(stack) == 0 {
				return nil
			}
			return &stack[len(stack)-1]
		}
		switch t := tok.(type) {
		case json.Delim:
			switch t {
			case '{':
				if f := top(); f != nil && f.isObj {
					f.wantKey = true
				}
				orders = append(orders, nil)
				stack = append(stack, frame{true, len(orders) - 1, true})
			case '[':
				if f := top(); f != nil && f.isObj {
					f.wantKey = true
				}
				stack = append(stack, frame{false, 0, false})
			case '}', ']':
				stack = stack[:len(stack)-1]
			}
		default:
			if f := top(); f != nil && f.isObj {
				if f.wantKey {
					orders[f.idx] = append(orders[f.idx], t.(string))
					f.wantKey = false
				} else {
					f.wantKey = true
				}
			}
		}
	}
	return orders, nil
}
