package refcodec

import (
	"reflect"
	"testing"
)

func TestKeyOrders(t *testing.T) {
	o, err := JSONKeyOrders([]byte(`{"b":1,"a":{"z":[{"y":1,"x":2}],"w":null},"c":[1,2]}`))
	if err != nil || !reflect.DeepEqual(o, [][]string{{"b", "a", "c"}, {"z", "w"}, {"y", "x"}}) {
		t.Fatal(o, err)
	}
	r, err := ROR2KeyOrders(`(b:1,a:(z:List((y:1,x:2)),w:''),c:List(1,2))`, Header)
	if err != nil || !reflect.DeepEqual(r, [][]string{{"b", "a", "c"}, {"z", "w"}, {"y", "x"}}) {
		t.Fatal(r, err)
	}
}
