package refcodec

import (
	"fmt"
	"math"
	"math/rand"
	"sort"
	"strconv"
	"strings"
	"unicode/utf8"

	"verifh/corpus"
	"verifh/model"
)

// Flavour of the Rest.li 2.0 object representation.
type Flavour int

const (
	Header Flavour = iota // X-RestLi-Id, batch response keys: only % , ( ) ' : are escaped
	Path                  // URL path segments
	Query                 // URL query values
)

func (f Flavour) String() string { return [...]string{"ror2-header", "ror2-path", "ror2-query"}[f] }

// ---------------------------------------------------------------------------------------------
// reference parser: text -> tree (map[string]any | []any | string), all strings percent-decoded

type ror2Parser struct {
	in  string
	pos int
	fl  Flavour
}

func ParseROR2(text string, fl Flavour) (any, error) {
	p := &ror2Parser{in: text, fl: fl}
	v, err := p.value()
	if err != nil {
		return nil, err
	}
	if p.pos != len(p.in) {
		return nil, fmt.Errorf("trailing text at %d in %q", p.pos, text)
	}
	return v, nil
}

func (p *ror2Parser) value() (any, error) {
	switch {
	case strings.HasPrefix(p.in[p.pos:], "List("):
		p.pos += 5
		out := []any{}
		if p.peek() == ')' {
			p.pos++
			return out, nil
		}
		for {
			v, err := p.value()
			if err != nil {
				return nil, err
			}
			out = append(out, v)
			switch p.peek() {
			case ',':
				p.pos++
			case ')':
				p.pos++
				return out, nil
			default:
				return nil, fmt.Errorf("expected , or ) at %d in %q", p.pos, p.in)
			}
		}
	case p.peek() == '(':
		p.pos++
		out := map[string]any{}
		if p.peek() == ')' {
			p.pos++
			return out, nil
		}
		for {
			k, err := p.token(true)
			if err != nil {
				return nil, err
			}
			if p.peek() != ':' {
				return nil, fmt.Errorf("expected : after key at %d in %q", p.pos, p.in)
			}
			p.pos++
			v, err := p.value()
			if err != nil {
				return nil, err
			}
			if _, dup := out[k]; dup {
				return nil, fmt.Errorf("duplicate key %q in %q", k, p.in)
			}
			out[k] = v
			switch p.peek() {
			case ',':
				p.pos++
			case ')':
				p.pos++
				return out, nil
			default:
				return nil, fmt.Errorf("expected , or ) at %d in %q", p.pos, p.in)
			}
		}
	default:
		return p.token(false)
	}
}

func (p *ror2Parser) peek() byte {
	if p.pos < len(p.in) {
		return p.in[p.pos]
	}
	return 0
}

// rawAllowed tells whether byte c may appear unescaped inside a primitive token of the flavour.
func rawAllowed(c byte, fl Flavour) bool {
	if c >= 'a' && c <= 'z' || c >= 'A' && c <= 'Z' || c >= '0' && c <= '9' {
		return true
	}
	switch fl {
	case Header:
		// the protocol's "reduced" header encoding escapes exactly these six characters and nothing else
		return c != '%' && c != ',' && c != '(' && c != ')' && c != '\'' && c != ':'
	case Path:
		return strings.IndexByte("-._~!$&*+;=@", c) >= 0
	default:
		return strings.IndexByte("-._~!$*;@/?", c) >= 0
	}
}

func (p *ror2Parser) token(isKey bool) (string, error) {
	start := p.pos
	if strings.HasPrefix(p.in[p.pos:], "''") {
		p.pos += 2
		return "", nil
	}
	var out []byte
	for p.pos < len(p.in) {
		c := p.in[p.pos]
		if c == ',' || c == ')' || c == ':' || c == '(' || c == '\'' {
			break
		}
		if c == '%' {
			if p.pos+3 > len(p.in) {
				return "", fmt.Errorf("truncated percent escape at %d in %q", p.pos, p.in)
			}
			h, err := strconv.ParseUint(p.in[p.pos+1:p.pos+3], 16, 8)
			if err != nil {
				return "", fmt.Errorf("invalid percent escape at %d in %q", p.pos, p.in)
			}
			out = append(out, byte(h))
			p.pos += 3
			continue
		}
		if !rawAllowed(c, p.fl) {
			return "", fmt.Errorf("character %q may not appear unescaped in a %s value (at %d in %q)", c, p.fl, p.pos, p.in)
		}
		out = append(out, c)
		p.pos++
	}
	if p.pos == start {
		return "", fmt.Errorf("empty token at %d in %q (the empty string is written '')", p.pos, p.in)
	}
	return string(out), nil
}

// ---------------------------------------------------------------------------------------------
// reference printer

type ROR2Style struct {
	EscapeAll bool // percent-encode every byte of every token (alternative but legal)
	Shuffle   func(n int, swap func(i, j int))
	Unknown   bool // inject unknown extra members into records
	Rng       *rand.Rand
}

var unknownROR2 = []string{"1", "x", "''", "(a:(b:List(1,(c:d))))", "List(1,List(2),(k:v))", "()", "List()", "a%20b", "%28x%29"}

func escapeToken(s string, fl Flavour, st *ROR2Style) string {
	if s == "" {
		return "''"
	}
	var b strings.Builder
	for i := 0; i < len(s); i++ {
		c := s[i]
		if st != nil && st.EscapeAll && fl != Header {
			fmt.Fprintf(&b, "%%%02X", c)
			continue
		}
		safe := c >= 'a' && c <= 'z' || c >= 'A' && c <= 'Z' || c >= '0' && c <= '9' || c == '-' || c == '.' || c == '_' || c == '~'
		if fl == Header {
			safe = rawAllowed(c, Header)
		}
		if safe {
			b.WriteByte(c)
		} else {
			fmt.Fprintf(&b, "%%%02X", c)
		}
	}
	return b.String()
}

func ror2Float(f float64, bits int) string {
	switch {
	case f != f:
		return "NaN"
	case math.IsInf(f, 1):
		return "Infinity"
	case math.IsInf(f, -1):
		return "-Infinity"
	}
	return strconv.FormatFloat(f, 'g', -1, bits)
}

// EncodeROR2 prints the reference ROR2 text of v.
func EncodeROR2(s *corpus.Schema, t corpus.TypeExpr, v *model.Value, fl Flavour, st *ROR2Style) string {
	et, td := model.Resolve(s, t)
	type kv struct{ k, v string }
	obj := func(entries []kv, allowUnknown bool) string {
		if st != nil && st.Unknown && st.Rng != nil && allowUnknown {
			n := st.Rng.Intn(3)
			for i := 0; i < n; i++ {
				entries = append(entries, kv{fmt.Sprintf("zzUnknown%d", i), unknownROR2[st.Rng.Intn(len(unknownROR2))]})
			}
		}
		if st != nil && st.Shuffle != nil {
			st.Shuffle(len(entries), func(i, j int) { entries[i], entries[j] = entries[j], entries[i] })
		} else {
			sort.Slice(entries, func(i, j int) bool { return entries[i].k < entries[j].k })
		}
		var parts []string
		for _, e := range entries {
			parts = append(parts, escapeToken(e.k, fl, st)+":"+e.v)
		}
		return "(" + strings.Join(parts, ",") + ")"
	}
	switch v.Kind {
	case model.KInt32, model.KInt64:
		return escapeToken(strconv.FormatInt(v.I, 10), fl, nil)
	case model.KFloat32:
		return escapeToken(ror2Float(float64(float32(v.F)), 32), fl, nil)
	case model.KFloat64:
		return escapeToken(ror2Float(v.F, 64), fl, nil)
	case model.KBool:
		return strconv.FormatBool(v.B)
	case model.KString, model.KEnum:
		return escapeToken(v.S, fl, st)
	case model.KBytes, model.KFixed:
		return escapeToken(AvroString(v.S), fl, st)
	case model.KArray:
		var parts []string
		for _, e := range v.Elems {
			parts = append(parts, EncodeROR2(s, *et.Array, e, fl, st))
		}
		return "List(" + strings.Join(parts, ",") + ")"
	case model.KMap:
		var entries []kv
		for k, e := range v.Entries {
			entries = append(entries, kv{k, EncodeROR2(s, *et.Map, e, fl, st)})
		}
		return obj(entries, false)
	case model.KUnion:
		if v.Alias == "" {
			return "()"
		}
		for _, m := range td.Members {
			if m.Alias == v.Alias {
				return obj([]kv{{m.Alias, EncodeROR2(s, m.Type, v.Member, fl, st)}}, false)
			}
		}
	case model.KRecord:
		rt := td
		var entries []kv
		if td.Kind == "complexkey" {
			rt = s.Lookup(td.Key)
			if p := v.Fields["$params"]; p != nil {
				entries = append(entries, kv{"$params", EncodeROR2(s, corpus.R(td.Params), p, fl, st)})
			}
		}
		for _, f := range s.AllFields(rt) {
			if fv := v.Fields[f.Name]; fv != nil {
				entries = append(entries, kv{f.Name, EncodeROR2(s, f.Type, fv, fl, st)})
			}
		}
		return obj(entries, true)
	}
	panic("bad value")
}

// DecodeROR2 parses text with the reference parser and converts the tree to a value of type t.
func DecodeROR2(s *corpus.Schema, t corpus.TypeExpr, text string, fl Flavour, o DecodeOpts) (*model.Value, error) {
	tree, err := ParseROR2(text, fl)
	if err != nil {
		return nil, err
	}
	return fromROR2Tree(s, t, tree, o, "$")
}

func fromROR2Tree(s *corpus.Schema, t corpus.TypeExpr, tree any, o DecodeOpts, path string) (*model.Value, error) {
	et, td := model.Resolve(s, t)
	str := func() (string, error) {
		x, ok := tree.(string)
		if !ok {
			return "", fmt.Errorf("%s: expected a primitive, found %T", path, tree)
		}
		return x, nil
	}
	if td == nil {
		switch {
		case et.Prim != "":
			x, err := str()
			if err != nil {
				return nil, err
			}
			switch et.Prim {
			case "int32":
				i, err := strconv.ParseInt(x, 10, 32)
				if err != nil {
					return nil, fmt.Errorf("%s: %v", path, err)
				}
				return model.Int32(int32(i)), nil
			case "int64":
				i, err := strconv.ParseInt(x, 10, 64)
				if err != nil {
					return nil, fmt.Errorf("%s: %v", path, err)
				}
				return model.Int64(i), nil
			case "float32", "float64":
				bits := 64
				if et.Prim == "float32" {
					bits = 32
				}
				var f float64
				switch x {
				case "NaN":
					f = math.NaN()
				case "Infinity":
					f = math.Inf(1)
				case "-Infinity":
					f = math.Inf(-1)
				default:
					f, err = strconv.ParseFloat(x, bits)
					if err != nil {
						return nil, fmt.Errorf("%s: %v", path, err)
					}
				}
				if bits == 32 {
					return model.Float32(float32(f)), nil
				}
				return model.Float64(f), nil
			case "bool":
				switch x {
				case "true":
					return model.Bool(true), nil
				case "false":
					return model.Bool(false), nil
				}
				return nil, fmt.Errorf("%s: bad boolean %q", path, x)
			case "string":
				if !utf8.ValidString(x) {
					return nil, fmt.Errorf("%s: string is not valid UTF-8", path)
				}
				return model.String(x), nil
			case "bytes":
				raw, ok := FromAvroString(x)
				if !ok {
					return nil, fmt.Errorf("%s: bytes text is not a sequence of code points <= U+00FF", path)
				}
				return &model.Value{Kind: model.KBytes, S: raw}, nil
			}
		case et.Array != nil:
			x, ok := tree.([]any)
			if !ok {
				return nil, fmt.Errorf("%s: expected List(...), found %T", path, tree)
			}
			v := &model.Value{Kind: model.KArray}
			for i, e := range x {
				ev, err := fromROR2Tree(s, *et.Array, e, o, fmt.Sprintf("%s[%d]", path, i))
				if err != nil {
					return nil, err
				}
				v.Elems = append(v.Elems, ev)
			}
			return v, nil
		case et.Map != nil:
			x, ok := tree.(map[string]any)
			if !ok {
				return nil, fmt.Errorf("%s: expected (...), found %T", path, tree)
			}
			v := &model.Value{Kind: model.KMap, Entries: map[string]*model.Value{}}
			for k, e := range x {
				ev, err := fromROR2Tree(s, *et.Map, e, o, path+"."+k)
				if err != nil {
					return nil, err
				}
				v.Entries[k] = ev
			}
			return v, nil
		}
	}
	switch td.Kind {
	case "enum":
		x, err := str()
		if err != nil {
			return nil, err
		}
		for _, sym := range td.Symbols {
			if sym == x {
				return &model.Value{Kind: model.KEnum, S: x}, nil
			}
		}
		return &model.Value{Kind: model.KEnum}, nil
	case "fixed":
		x, err := str()
		if err != nil {
			return nil, err
		}
		raw, ok := FromAvroString(x)
		if !ok || len(raw) != td.Size {
			return nil, fmt.Errorf("%s: bad fixed %q", path, x)
		}
		return &model.Value{Kind: model.KFixed, S: raw}, nil
	case "union":
		x, ok := tree.(map[string]any)
		if !ok {
			return nil, fmt.Errorf("%s: expected a union object", path)
		}
		if len(x) == 0 && td.HasNull {
			return &model.Value{Kind: model.KUnion}, nil
		}
		if len(x) != 1 {
			return nil, fmt.Errorf("%s: union object with %d members", path, len(x))
		}
		for k, e := range x {
			for _, m := range td.Members {
				if m.Alias == k {
					mv, err := fromROR2Tree(s, m.Type, e, o, path+"<"+k+">")
					if err != nil {
						return nil, err
					}
					return &model.Value{Kind: model.KUnion, Alias: k, Member: mv}, nil
				}
			}
			return nil, fmt.Errorf("%s: unknown union member %q", path, k)
		}
	case "record", "complexkey":
		x, ok := tree.(map[string]any)
		if !ok {
			return nil, fmt.Errorf("%s: expected an object, found %T", path, tree)
		}
		rt := td
		known := map[string]corpus.TypeExpr{}
		if td.Kind == "complexkey" {
			rt = s.Lookup(td.Key)
			known["$params"] = corpus.R(td.Params)
		}
		for _, f := range s.AllFields(rt) {
			known[f.Name] = f.Type
		}
		v := &model.Value{Kind: model.KRecord, Fields: map[string]*model.Value{}}
		for k, e := range x {
			ft, ok := known[k]
			if !ok {
				if o.AllowUnknown {
					continue
				}
				return nil, fmt.Errorf("%s: unknown member %q", path, k)
			}
			fv, err := fromROR2Tree(s, ft, e, o, path+"."+k)
			if err != nil {
				return nil, err
			}
			v.Fields[k] = fv
		}
		return v, nil
	}
	return nil, fmt.Errorf("bad type")
}

// ROR2KeyOrders scans text and returns, for every map in it (outermost first, depth-first), the sequence of its
// decoded keys in the order they appear — an order-aware token scan, not a re-parse into a map.
func ROR2KeyOrders(text string, fl Flavour) ([][]string, error) {
	p := &ror2Parser{in: text, fl: fl}
	var orders [][]string
	var walk func() error
	walk = func() error {
		switch {
		case strings.HasPrefix(p.in[p.pos:], "List("):
			p.pos += 5
			if p.peek() == ')' {
				p.pos++
				return nil
			}
			for {
				if err := walk(); err != nil {
					return err
				}
				switch p.peek() {
				case ',':
					p.pos++
				case ')':
					p.pos++
					return nil
				default:
					return fmt.Errorf("expected , or ) at %d in %q", p.pos, p.in)
				}
			}
		case p.peek() == '(':
			p.pos++
			idx := len(orders)
			orders = append(orders, nil)
			if p.peek() == ')' {
				p.pos++
				return nil
			}
			for {
				k, err := p.token(true)
				if err != nil {
					return err
				}
				orders[idx] = append(orders[idx], k)
				if p.peek() != ':' {
					return fmt.Errorf("expected : at %d in %q", p.pos, p.in)
				}
				p.pos++
				if err := walk(); err != nil {
					return err
				}
				switch p.peek() {
				case ',':
					p.pos++
				case ')':
					p.pos++
					return nil
				default:
					return fmt.Errorf("expected , or ) at %d in %q", p.pos, p.in)
				}
			}
		default:
			_, err := p.token(false)
			return err
		}
	}
	if err := walk(); err != nil {
		return nil, err
	}
	if p.pos != len(p.in) {
		return nil, fmt.Errorf("trailing text at %d in %q", p.pos, text)
	}
	return orders, nil
}
