package refcodec

import (
	"fmt"
	"math"
	"math/rand"
	"sort"
	"strconv"
	"strings"

	"verifh/corpus"
	"verifh/model"
)

// Null marks an explicit null member in a document tree.
type Null struct{}

// ToTree converts an abstract value into a generic document tree: map[string]any, []any and typed Go leaves
// (int32, int64, float32, float64, bool, string; bytes/fixed as []byte; enums as string).
func ToTree(s *corpus.Schema, t corpus.TypeExpr, v *model.Value) any {
	et, td := model.Resolve(s, t)
	switch v.Kind {
	case model.KInt32:
		return int32(v.I)
	case model.KInt64:
		return v.I
	case model.KFloat32:
		return float32(v.F)
	case model.KFloat64:
		return v.F
	case model.KBool:
		return v.B
	case model.KString, model.KEnum:
		return v.S
	case model.KBytes, model.KFixed:
		return []byte(v.S)
	case model.KArray:
		out := make([]any, 0, len(v.Elems))
		for _, e := range v.Elems {
			out = append(out, ToTree(s, *et.Array, e))
		}
		return out
	case model.KMap:
		out := map[string]any{}
		for k, e := range v.Entries {
			out[k] = ToTree(s, *et.Map, e)
		}
		return out
	case model.KUnion:
		out := map[string]any{}
		if v.Alias != "" {
			for _, m := range td.Members {
				if m.Alias == v.Alias {
					out[m.Alias] = ToTree(s, m.Type, v.Member)
				}
			}
		}
		return out
	case model.KRecord:
		out := map[string]any{}
		rt := td
		if td.Kind == "complexkey" {
			rt = s.Lookup(td.Key)
			if p := v.Fields["$params"]; p != nil {
				out["$params"] = ToTree(s, corpus.R(td.Params), p)
			}
		}
		for _, f := range s.AllFields(rt) {
			if fv := v.Fields[f.Name]; fv != nil {
				out[f.Name] = ToTree(s, f.Type, fv)
			}
		}
		return out
	}
	panic("bad value")
}

// TreeJSON serialises a document tree as JSON; keys are permuted by rng when it is not nil.
func TreeJSON(tree any, rng *rand.Rand) string {
	var b strings.Builder
	treeJSON(&b, tree, rng)
	return b.String()
}

func treeJSON(b *strings.Builder, tree any, rng *rand.Rand) {
	switch x := tree.(type) {
	case Null, nil:
		b.WriteString("null")
	case int32:
		b.WriteString(strconv.FormatInt(int64(x), 10))
	case int64:
		b.WriteString(strconv.FormatInt(x, 10))
	case int:
		b.WriteString(strconv.Itoa(x))
	case float32:
		b.WriteString(floatText(float64(x), 32, nil))
	case float64:
		b.WriteString(floatText(x, 64, nil))
	case bool:
		b.WriteString(strconv.FormatBool(x))
	case string:
		b.WriteString(quote(x, nil))
	case []byte:
		b.WriteString(quote(AvroString(string(x)), nil))
	case []any:
		b.WriteByte('[')
		for i, e := range x {
			if i > 0 {
				b.WriteByte(',')
			}
			treeJSON(b, e, rng)
		}
		b.WriteByte(']')
	case map[string]any:
		keys := make([]string, 0, len(x))
		for k := range x {
			keys = append(keys, k)
		}
		sort.Strings(keys)
		if rng != nil {
			rng.Shuffle(len(keys), func(i, j int) { keys[i], keys[j] = keys[j], keys[i] })
		}
		b.WriteByte('{')
		for i, k := range keys {
			if i > 0 {
				b.WriteByte(',')
			}
			b.WriteString(quote(k, nil) + ":")
			treeJSON(b, x[k], rng)
		}
		b.WriteByte('}')
	default:
		panic(fmt.Sprintf("treeJSON: %T", tree))
	}
}

// TreeROR2 serialises a document tree as ROR2 text of the given flavour (explicit nulls cannot be expressed
// and must not occur).
func TreeROR2(tree any, fl Flavour, rng *rand.Rand) string {
	switch x := tree.(type) {
	case int32:
		return escapeToken(strconv.FormatInt(int64(x), 10), fl, nil)
	case int64:
		return escapeToken(strconv.FormatInt(x, 10), fl, nil)
	case int:
		return strconv.Itoa(x)
	case float32:
		return escapeToken(ror2Float(float64(x), 32), fl, nil)
	case float64:
		return escapeToken(ror2Float(x, 64), fl, nil)
	case bool:
		return strconv.FormatBool(x)
	case string:
		return escapeToken(x, fl, nil)
	case []byte:
		return escapeToken(AvroString(string(x)), fl, nil)
	case []any:
		var parts []string
		for _, e := range x {
			parts = append(parts, TreeROR2(e, fl, rng))
		}
		return "List(" + strings.Join(parts, ",") + ")"
	case map[string]any:
		keys := make([]string, 0, len(x))
		for k := range x {
			keys = append(keys, k)
		}
		sort.Strings(keys)
		if rng != nil {
			rng.Shuffle(len(keys), func(i, j int) { keys[i], keys[j] = keys[j], keys[i] })
		}
		var parts []string
		for _, k := range keys {
			parts = append(parts, escapeToken(k, fl, nil)+":"+TreeROR2(x[k], fl, rng))
		}
		return "(" + strings.Join(parts, ",") + ")"
	}
	panic(fmt.Sprintf("TreeROR2: %T", tree))
}

// MissingRequired is the reference missing-field calculator: it walks schema and document tree together and
// returns the full paths (dot-joined keys, [i] for array items) of every required field — not optional, not
// defaulted, not excluded — that is absent or null in a record that is itself present.
func MissingRequired(s *corpus.Schema, t corpus.TypeExpr, tree any, path string, excluded func(path []string) bool, scope []string) []string {
	et, td := model.Resolve(s, t)
	join := func(k string) string {
		if path == "" {
			return k
		}
		return path + "." + k
	}
	var out []string
	if td == nil {
		switch {
		case et.Array != nil:
			if a, ok := tree.([]any); ok {
				for i, e := range a {
					out = append(out, MissingRequired(s, *et.Array, e, fmt.Sprintf("%s[%d]", path, i), excluded, append(append([]string{}, scope...), "*"))...)
				}
			}
		case et.Map != nil:
			if m, ok := tree.(map[string]any); ok {
				for k, e := range m {
					if _, isNull := e.(Null); isNull {
						continue
					}
					out = append(out, MissingRequired(s, *et.Map, e, join(k), excluded, append(append([]string{}, scope...), k))...)
				}
			}
		}
		return out
	}
	m, ok := tree.(map[string]any)
	if !ok {
		return nil
	}
	switch td.Kind {
	case "union":
		for _, mem := range td.Members {
			if e, ok := m[mem.Alias]; ok {
				if _, isNull := e.(Null); !isNull {
					out = append(out, MissingRequired(s, mem.Type, e, join(mem.Alias), excluded, append(append([]string{}, scope...), mem.Alias))...)
				}
			}
		}
	case "record", "complexkey":
		rt := td
		if td.Kind == "complexkey" {
			rt = s.Lookup(td.Key)
			if p, ok := m["$params"]; ok {
				out = append(out, MissingRequired(s, corpus.R(td.Params), p, join("$params"), excluded, append(append([]string{}, scope...), "$params"))...)
			}
		}
		for _, f := range s.AllFields(rt) {
			e, present := m[f.Name]
			if _, isNull := e.(Null); isNull {
				present = false
			}
			sub := append(append([]string{}, scope...), f.Name)
			if !present {
				if !f.Optional && f.Default == nil && (excluded == nil || !excluded(sub)) {
					out = append(out, join(f.Name))
				}
				continue
			}
			out = append(out, MissingRequired(s, f.Type, e, join(f.Name), excluded, sub)...)
		}
	}
	sort.Strings(out)
	return out
}

// ZeroValue is what a Go value of the generated type holds for a position the decoder never touched.
func ZeroValue(s *corpus.Schema, t corpus.TypeExpr) *model.Value {
	et, td := model.Resolve(s, t)
	if td == nil {
		switch {
		case et.Prim != "":
			switch et.Prim {
			case "int32":
				return model.Int32(0)
			case "int64":
				return model.Int64(0)
			case "float32":
				return model.Float32(0)
			case "float64":
				return model.Float64(0)
			case "bool":
				return model.Bool(false)
			case "string":
				return model.String("")
			default:
				return &model.Value{Kind: model.KBytes}
			}
		case et.Array != nil:
			return &model.Value{Kind: model.KArray}
		default:
			return &model.Value{Kind: model.KMap, Entries: map[string]*model.Value{}}
		}
	}
	switch td.Kind {
	case "enum":
		return &model.Value{Kind: model.KEnum}
	case "fixed":
		return &model.Value{Kind: model.KFixed, S: strings.Repeat("\x00", td.Size)}
	case "union":
		return &model.Value{Kind: model.KUnion}
	default:
		rt := td
		if td.Kind == "complexkey" {
			rt = s.Lookup(td.Key)
		}
		v := &model.Value{Kind: model.KRecord, Fields: map[string]*model.Value{}}
		for _, f := range s.AllFields(rt) {
			if !f.Optional && f.Default == nil {
				v.Fields[f.Name] = ZeroValue(s, f.Type)
			}
		}
		return v
	}
}

// Zeroize fills every absent required field (at any depth, in present records) with the Go zero value.
func Zeroize(s *corpus.Schema, t corpus.TypeExpr, v *model.Value) *model.Value {
	if v == nil {
		return nil
	}
	et, td := model.Resolve(s, t)
	c := model.Clone(v)
	switch v.Kind {
	case model.KArray:
		for i, e := range c.Elems {
			c.Elems[i] = Zeroize(s, *et.Array, e)
		}
	case model.KMap:
		for k, e := range c.Entries {
			c.Entries[k] = Zeroize(s, *et.Map, e)
		}
	case model.KUnion:
		if td != nil && v.Alias != "" {
			for _, m := range td.Members {
				if m.Alias == v.Alias {
					c.Member = Zeroize(s, m.Type, v.Member)
				}
			}
		}
	case model.KRecord:
		rt := td
		if td.Kind == "complexkey" {
			rt = s.Lookup(td.Key)
			if p := c.Fields["$params"]; p != nil {
				c.Fields["$params"] = Zeroize(s, corpus.R(td.Params), p)
			}
		}
		for _, f := range s.AllFields(rt) {
			fv := c.Fields[f.Name]
			if fv == nil {
				if !f.Optional && f.Default == nil {
					c.Fields[f.Name] = ZeroValue(s, f.Type)
				}
				continue
			}
			c.Fields[f.Name] = Zeroize(s, f.Type, fv)
		}
	}
	return c
}

var _ = math.NaN

// TreeToValue reads a document tree back into an abstract value, skipping unknown members and explicit nulls.
func TreeToValue(s *corpus.Schema, t corpus.TypeExpr, tree any) *model.Value {
	et, td := model.Resolve(s, t)
	if td == nil {
		switch {
		case et.Prim != "":
			switch x := tree.(type) {
			case int32:
				return model.Int32(x)
			case int64:
				return model.Int64(x)
			case float32:
				return model.Float32(x)
			case float64:
				return model.Float64(x)
			case bool:
				return model.Bool(x)
			case string:
				return model.String(x)
			case []byte:
				return &model.Value{Kind: model.KBytes, S: string(x)}
			}
			panic(fmt.Sprintf("TreeToValue: leaf %T for %s", tree, et.Prim))
		case et.Array != nil:
			v := &model.Value{Kind: model.KArray}
			for _, e := range tree.([]any) {
				v.Elems = append(v.Elems, TreeToValue(s, *et.Array, e))
			}
			return v
		default:
			v := &model.Value{Kind: model.KMap, Entries: map[string]*model.Value{}}
			for k, e := range tree.(map[string]any) {
				v.Entries[k] = TreeToValue(s, *et.Map, e)
			}
			return v
		}
	}
	switch td.Kind {
	case "enum":
		return &model.Value{Kind: model.KEnum, S: tree.(string)}
	case "fixed":
		return &model.Value{Kind: model.KFixed, S: string(tree.([]byte))}
	case "union":
		m := tree.(map[string]any)
		for _, mem := range td.Members {
			if e, ok := m[mem.Alias]; ok {
				return &model.Value{Kind: model.KUnion, Alias: mem.Alias, Member: TreeToValue(s, mem.Type, e)}
			}
		}
		return &model.Value{Kind: model.KUnion}
	default:
		m := tree.(map[string]any)
		rt := td
		v := &model.Value{Kind: model.KRecord, Fields: map[string]*model.Value{}}
		if td.Kind == "complexkey" {
			rt = s.Lookup(td.Key)
			if p, ok := m["$params"]; ok {
				if _, isNull := p.(Null); !isNull {
					v.Fields["$params"] = TreeToValue(s, corpus.R(td.Params), p)
				}
			}
		}
		for _, f := range s.AllFields(rt) {
			e, ok := m[f.Name]
			if !ok {
				continue
			}
			if _, isNull := e.(Null); isNull {
				continue
			}
			v.Fields[f.Name] = TreeToValue(s, f.Type, e)
		}
		return v
	}
}

// RecordPositions lists every (container, key) at which a record field is present in the tree: the places
// where a field can be deleted, nulled or an unknown member injected.
type Position struct {
	Container map[string]any
	Key       string
	Path      string
	Required  bool
}

func RecordPositions(s *corpus.Schema, t corpus.TypeExpr, tree any, path string) (fields []Position, records []map[string]any) {
	et, td := model.Resolve(s, t)
	if td == nil {
		switch {
		case et.Array != nil:
			if a, ok := tree.([]any); ok {
				for i, e := range a {
					f, r := RecordPositions(s, *et.Array, e, fmt.Sprintf("%s[%d]", path, i))
					fields, records = append(fields, f...), append(records, r...)
				}
			}
		case et.Map != nil:
			if m, ok := tree.(map[string]any); ok {
				for _, k := range sortedKeys(m) {
					f, r := RecordPositions(s, *et.Map, m[k], path+"."+k)
					fields, records = append(fields, f...), append(records, r...)
				}
			}
		}
		return
	}
	m, ok := tree.(map[string]any)
	if !ok {
		return
	}
	switch td.Kind {
	case "union":
		for _, mem := range td.Members {
			if e, ok := m[mem.Alias]; ok {
				f, r := RecordPositions(s, mem.Type, e, path+"."+mem.Alias)
				fields, records = append(fields, f...), append(records, r...)
			}
		}
	case "record", "complexkey":
		records = append(records, m)
		rt := td
		if td.Kind == "complexkey" {
			rt = s.Lookup(td.Key)
		}
		for _, f := range s.AllFields(rt) {
			if e, ok := m[f.Name]; ok {
				fields = append(fields, Position{m, f.Name, path + "." + f.Name, !f.Optional && f.Default == nil})
				ff, r := RecordPositions(s, f.Type, e, path+"."+f.Name)
				fields, records = append(fields, ff...), append(records, r...)
			}
		}
	}
	return
}

func sortedKeys(m map[string]any) []string {
	keys := make([]string, 0, len(m))
	for k := range m {
		keys = append(keys, k)
	}
	sort.Strings(keys)
	return keys
}

// CloneTree deep-copies a document tree.
func CloneTree(tree any) any {
	switch x := tree.(type) {
	case map[string]any:
		c := make(map[string]any, len(x))
		for k, v := range x {
			c[k] = CloneTree(v)
		}
		return c
	case []any:
		c := make([]any, len(x))
		for i, v := range x {
			c[i] = CloneTree(v)
		}
		return c
	case []byte:
		return append([]byte(nil), x...)
	}
	return tree
}

// Prune is the reference exclusion: it removes from v every value at a path matching one of the specs
// (slash-separated, "*" standing for an array item or a map key), each with its whole subtree.
func Prune(s *corpus.Schema, t corpus.TypeExpr, v *model.Value, specs []string) *model.Value {
	var parsed [][]string
	for _, sp := range specs {
		parsed = append(parsed, strings.Split(strings.TrimPrefix(sp, "/"), "/"))
	}
	return prune(s, t, v, parsed, nil)
}

// SpecMatches tells whether path is excluded by one of the specs (a spec excludes its whole subtree).
func SpecMatches(specs [][]string, path []string) bool {
	for _, sp := range specs {
		if len(sp) > len(path) {
			continue
		}
		ok := true
		for i := range sp {
			if sp[i] != "*" && sp[i] != path[i] {
				ok = false
				break
			}
		}
		if ok {
			return true
		}
	}
	return false
}

func prune(s *corpus.Schema, t corpus.TypeExpr, v *model.Value, specs [][]string, path []string) *model.Value {
	if v == nil {
		return nil
	}
	et, td := model.Resolve(s, t)
	c := model.Clone(v)
	sub := func(k string) []string { return append(append([]string{}, path...), k) }
	switch v.Kind {
	case model.KArray:
		// array items are never removed individually by the writer (the wildcard level addresses what is inside them)
		for i, e := range c.Elems {
			c.Elems[i] = prune(s, *et.Array, e, specs, sub("*"))
		}
	case model.KMap:
		for k, e := range v.Entries {
			if SpecMatches(specs, sub(k)) {
				delete(c.Entries, k)
				continue
			}
			c.Entries[k] = prune(s, *et.Map, e, specs, sub(k))
		}
	case model.KUnion:
		if td != nil && v.Alias != "" {
			if SpecMatches(specs, sub(v.Alias)) {
				return &model.Value{Kind: model.KUnion}
			}
			for _, m := range td.Members {
				if m.Alias == v.Alias {
					c.Member = prune(s, m.Type, v.Member, specs, sub(v.Alias))
				}
			}
		}
	case model.KRecord:
		rt := td
		if td.Kind == "complexkey" {
			rt = s.Lookup(td.Key)
		}
		for _, f := range s.AllFields(rt) {
			fv := v.Fields[f.Name]
			if fv == nil {
				continue
			}
			if SpecMatches(specs, sub(f.Name)) {
				delete(c.Fields, f.Name)
				continue
			}
			c.Fields[f.Name] = prune(s, f.Type, fv, specs, sub(f.Name))
		}
	}
	return c
}
