package rig

import (
	"fmt"
	"reflect"
	"sort"

	"verifh/bridge"
	"verifh/corpus"
	"verifh/model"
	"verifh/refcodec"
)

// ExcludedFor returns the exclusion paths the protocol applies to the request body of a method.
func (e *Endpoint) ExcludedFor(method string) []string {
	switch method {
	case "create", "batch_create":
		return e.Res.ReadOnly
	case "update", "batch_update", "partial_update", "batch_partial_update":
		return append(append([]string{}, e.Res.ReadOnly...), e.Res.CreateOnly...)
	}
	return nil
}

// expectedEntity is what resource code must see for an entity the caller passed: excluded fields pruned,
// defaults filled, untouched required positions at their Go zero value.
func (e *Endpoint) expectedEntity(method string, v *model.Value) *model.Value {
	if v == nil || e.Res.Schema == nil {
		return v
	}
	t := *e.Res.Schema
	s := e.Set.Schema
	return refcodec.Zeroize(s, t, refcodec.FillDefaults(s, t, refcodec.Prune(s, t, v, e.ExcludedFor(method))))
}

func filledPatch(s *corpus.Schema, td *corpus.TypeDef, p *bridge.Patch) *bridge.Patch {
	if p == nil {
		return nil
	}
	out := bridge.NewPatch()
	for _, f := range s.AllFields(td) {
		if v := p.Set[f.Name]; v != nil {
			out.Set[f.Name] = refcodec.FillDefaults(s, f.Type, v)
		}
		if p.Delete[f.Name] {
			out.Delete[f.Name] = true
		}
		if np := p.Nested[f.Name]; np != nil {
			_, ftd := model.Resolve(s, f.Type)
			out.Nested[f.Name] = filledPatch(s, ftd, np)
		}
	}
	return out
}

// CompareCalls returns "" when resource code saw exactly what the caller passed.
func (e *Endpoint) CompareCalls(m *corpus.MethodSpec, sent, seen *Call) string {
	if seen.Method != sent.Method || seen.Resource != sent.Resource {
		return fmt.Sprintf("method: sent %s.%s, resource code saw %s.%s", sent.Resource, sent.Method, seen.Resource, seen.Method)
	}
	if len(sent.ParentKeys) != len(seen.ParentKeys) {
		return "parent key count"
	}
	for i := range sent.ParentKeys {
		if d := model.Diff(sent.ParentKeys[i], seen.ParentKeys[i], fmt.Sprintf("parentKey[%d]", i)); d != "" {
			return d
		}
	}
	if d := model.Diff(sent.Key, seen.Key, "key"); d != "" {
		return d
	}
	if (sent.Keys == nil) != (seen.Keys == nil) {
		return "keys presence"
	}
	if sent.Keys != nil {
		// the ids parameter is a set: order is not part of the contract, multiplicity is
		a, b := keyTexts(sent.Keys), keyTexts(seen.Keys)
		if !reflect.DeepEqual(a, b) {
			return fmt.Sprintf("batch keys: sent %q, seen %q", a, b)
		}
	}
	if d := model.Diff(e.expectedEntity(sent.Method, sent.Entity), seen.Entity, "entity"); d != "" {
		return d
	}
	if len(sent.Entities) != len(seen.Entities) {
		return fmt.Sprintf("entities: sent %d, seen %d", len(sent.Entities), len(seen.Entities))
	}
	for i := range sent.Entities {
		if d := model.Diff(e.expectedEntity(sent.Method, sent.Entities[i]), seen.Entities[i], fmt.Sprintf("entities[%d]", i)); d != "" {
			return d
		}
	}
	if len(sent.ByKey) != len(seen.ByKey) {
		return fmt.Sprintf("entity map: sent %d entries, seen %d", len(sent.ByKey), len(seen.ByKey))
	}
	for k, v := range sent.ByKey {
		w, ok := seen.ByKey[k]
		if !ok {
			return fmt.Sprintf("entity map: key %s missing on the server (server keys %q)", k, mapKeys(seen.ByKey))
		}
		if d := model.Diff(e.expectedEntity(sent.Method, v), w, "entity["+k+"]"); d != "" {
			return d
		}
	}
	if (sent.Patch == nil) != (seen.Patch == nil) {
		return "patch presence"
	}
	if sent.Patch != nil {
		if d := bridge.EqualPatch(filledPatch(e.Set.Schema, e.schemaTD(), sent.Patch), seen.Patch); d != "" {
			return "patch: " + d
		}
	}
	if len(sent.PatchByKey) != len(seen.PatchByKey) {
		return fmt.Sprintf("patch map: sent %d entries, seen %d", len(sent.PatchByKey), len(seen.PatchByKey))
	}
	for k, p := range sent.PatchByKey {
		w, ok := seen.PatchByKey[k]
		if !ok || w == nil {
			return fmt.Sprintf("patch map: key %s missing on the server", k)
		}
		if d := bridge.EqualPatch(filledPatch(e.Set.Schema, e.schemaTD(), p), w); d != "" {
			return "patch[" + k + "]: " + d
		}
	}
	if d := model.Diff(e.expectedParams(m, sent.Params), seen.Params, "params"); d != "" {
		return d
	}
	return ""
}

func (e *Endpoint) expectedParams(m *corpus.MethodSpec, v *model.Value) *model.Value {
	if v == nil {
		return nil
	}
	td := e.ParamsDef(m)
	c := model.Clone(v)
	for _, f := range td.Fields {
		if fv := c.Fields[f.Name]; fv != nil {
			c.Fields[f.Name] = refcodec.FillDefaults(e.Set.Schema, f.Type, fv)
		} else if f.Default != nil {
			// a parameter the caller left out arrives with its default
			if d, err := refcodec.DecodeJSON(e.Set.Schema, f.Type, []byte(*f.Default), refcodec.DecodeOpts{}); err == nil {
				c.Fields[f.Name] = refcodec.FillDefaults(e.Set.Schema, f.Type, d)
			}
		}
	}
	return c
}

func keyTexts(ks []*model.Value) []string {
	out := []string{}
	for _, k := range ks {
		out = append(out, KeyText(k))
	}
	sort.Strings(out)
	return out
}

func mapKeys[V any](m map[string]V) []string {
	var out []string
	for k := range m {
		out = append(out, k)
	}
	sort.Strings(out)
	return out
}

// CompareOutcomes returns "" when the caller received exactly what resource code returned (scripted).
func (e *Endpoint) CompareOutcomes(m *corpus.MethodSpec, scripted, got *Outcome) string {
	s := e.Set.Schema
	fill := func(t corpus.TypeExpr, v *model.Value) *model.Value { return refcodec.FillDefaults(s, t, v) }
	schema := e.resultTypes(m)
	if got.Err != nil {
		return fmt.Sprintf("caller got an error: %s %s", got.Err.Kind, got.Err.Text)
	}
	switch {
	case m.Kind == "ACTION":
		if m.Return != nil {
			return model.Diff(fill(*m.Return, scripted.ActionResult), got.ActionResult, "actionResult")
		}
	case m.Kind == "FINDER" || m.Name == "get_all":
		if len(scripted.Elements) != len(got.Elements) {
			return fmt.Sprintf("elements: returned %d, received %d", len(scripted.Elements), len(got.Elements))
		}
		for i := range scripted.Elements {
			if d := model.Diff(fill(schema, scripted.Elements[i]), got.Elements[i], fmt.Sprintf("elements[%d]", i)); d != "" {
				return d
			}
		}
		if (scripted.Paging == nil) != (got.Paging == nil) {
			return fmt.Sprintf("paging: returned %v, received %v", scripted.Paging, got.Paging)
		}
		if scripted.Paging != nil {
			a, b := scripted.Paging, got.Paging
			wantTotal := int32(0) // the schema default of CollectionMetadata.total, which decoding fills in
			if a.Total != nil {
				wantTotal = *a.Total
			}
			if a.Start != b.Start || a.Count != b.Count || b.Total == nil || *b.Total != wantTotal {
				return fmt.Sprintf("paging: returned %d/%d/%v, received %d/%d/%v", a.Start, a.Count, deref32(a.Total), b.Start, b.Count, deref32(b.Total))
			}
		}
		if m.Metadata != nil {
			return model.Diff(fill(*m.Metadata, scripted.Metadata), got.Metadata, "metadata")
		}
	case m.Name == "get" || (m.Name == "partial_update" && m.ReturnEntity):
		return model.Diff(fill(schema, scripted.Entity), got.Entity, "entity")
	case m.Name == "create":
		if d := model.Diff(scripted.CreatedID, got.CreatedID, "createdId"); d != "" {
			return d
		}
		want := scripted.Status
		if want == 0 {
			want = 201
		}
		if got.Status != want {
			return fmt.Sprintf("create status: returned %d, received %d", want, got.Status)
		}
		if m.ReturnEntity {
			return model.Diff(fill(schema, scripted.Entity), got.Entity, "entity")
		}
	case m.Name == "batch_create":
		if len(scripted.Created) != len(got.Created) {
			return fmt.Sprintf("created: returned %d, received %d", len(scripted.Created), len(got.Created))
		}
		for i := range scripted.Created {
			if d := model.Diff(scripted.Created[i].ID, got.Created[i].ID, fmt.Sprintf("created[%d].id", i)); d != "" {
				return d
			}
			if scripted.Created[i].Status != got.Created[i].Status {
				return fmt.Sprintf("created[%d].status: %d vs %d", i, scripted.Created[i].Status, got.Created[i].Status)
			}
			if m.ReturnEntity {
				if d := model.Diff(fill(schema, scripted.Created[i].Entity), got.Created[i].Entity, fmt.Sprintf("created[%d].entity", i)); d != "" {
					return d
				}
			}
		}
	case m.Name == "batch_get" || m.Name == "batch_delete" || m.Name == "batch_update" || m.Name == "batch_partial_update":
		if !reflect.DeepEqual(mapKeys(scripted.Results), mapKeys(got.Results)) {
			return fmt.Sprintf("batch results keys: returned %q, received %q", mapKeys(scripted.Results), mapKeys(got.Results))
		}
		for k, v := range scripted.Results {
			if m.Name == "batch_get" {
				if d := model.Diff(fill(schema, v), got.Results[k], "results["+k+"]"); d != "" {
					return d
				}
			} else {
				want := scripted.ResultStatus[k]
				if want == 0 {
					want = 204
				}
				if got.ResultStatus[k] != want {
					return fmt.Sprintf("results[%s].status: returned %d, received %d", k, want, got.ResultStatus[k])
				}
			}
		}
		if !reflect.DeepEqual(scripted.Statuses, got.Statuses) && !(len(scripted.Statuses) == 0 && len(got.Statuses) == 0) {
			return fmt.Sprintf("batch statuses: returned %v, received %v", scripted.Statuses, got.Statuses)
		}
		if !reflect.DeepEqual(mapKeys(scripted.Errors), mapKeys(got.Errors)) {
			return fmt.Sprintf("batch errors keys: returned %q, received %q", mapKeys(scripted.Errors), mapKeys(got.Errors))
		}
		for k, ei := range scripted.Errors {
			g := got.Errors[k]
			if !eqP32(ei.Status, g.Status) || !eqPS(ei.Message, g.Message) {
				return fmt.Sprintf("errors[%s]: returned %v/%v, received %v/%v", k, deref32(ei.Status), derefS(ei.Message), deref32(g.Status), derefS(g.Message))
			}
		}
		for k, same := range got.KeyIdentity {
			if !same {
				return fmt.Sprintf("batch response entry %s is not filed under the caller's own key value", k)
			}
		}
	}
	return ""
}

func eqP32(a, b *int32) bool { return (a == nil) == (b == nil) && (a == nil || *a == *b) }
func eqPS(a, b *string) bool { return (a == nil) == (b == nil) && (a == nil || *a == *b) }
