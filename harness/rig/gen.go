package rig

import (
	"fmt"
	"math/rand"

	"verifh/bridge"
	"verifh/corpus"
	"verifh/model"
)

// keyPart strips complex-key params (key equality ignores them).
func keyPart(v *model.Value) *model.Value {
	c := model.Clone(v)
	if c != nil && c.Fields != nil {
		delete(c.Fields, "$params")
	}
	return c
}

// GenCall draws the arguments of one call.
func (e *Endpoint) GenCall(m *corpus.MethodSpec, g *model.Gen, rng *rand.Rand) *Call {
	c := &Call{Resource: e.Res.Namespace, Method: m.Name}
	if m.Kind != "REST_METHOD" {
		c.Method = map[string]string{"FINDER": "finder:", "ACTION": "action:"}[m.Kind] + m.Name
	}
	s := e.Set.Schema
	for _, p := range e.plan(m) {
		switch p.role {
		case roleParent:
			c.ParentKeys = append(c.ParentKeys, g.Value(p.t, 1))
		case roleKey:
			c.Key = g.Value(p.t, 1)
		case roleEntity:
			c.Entity = g.Value(p.t, 1)
		case roleKeys:
			c.Keys = e.distinctKeys(g, p.t, rng.Intn(5))
		case roleEntities:
			n := rng.Intn(4)
			c.Entities = []*model.Value{}
			for i := 0; i < n; i++ {
				c.Entities = append(c.Entities, g.Value(p.t, 1))
			}
		case roleEntityMap:
			c.ByKey, c.KeyOf = map[string]*model.Value{}, map[string]*model.Value{}
			for _, k := range e.distinctKeys(g, *e.keyType(), rng.Intn(4)) {
				c.ByKey[KeyText(k)], c.KeyOf[KeyText(k)] = g.Value(p.t, 1), k
			}
		case rolePatch:
			c.Patch = e.genPatch(g, rng, e.schemaTD(), 0)
		case rolePatchMap:
			c.PatchByKey, c.KeyOf = map[string]*bridge.Patch{}, map[string]*model.Value{}
			for _, k := range e.distinctKeys(g, *e.keyType(), rng.Intn(4)) {
				c.PatchByKey[KeyText(k)], c.KeyOf[KeyText(k)] = e.genPatch(g, rng, e.schemaTD(), 0), k
			}
		case roleParams:
			td := e.ParamsDef(m)
			v := &model.Value{Kind: model.KRecord, Fields: map[string]*model.Value{}}
			for _, f := range td.Fields {
				if (f.Optional || f.Default != nil) && rng.Intn(2) == 0 {
					continue
				}
				if (f.Name == "start" || f.Name == "count") && m.Paging {
					v.Fields[f.Name] = model.Int32(int32(rng.Intn(1000)))
					continue
				}
				v.Fields[f.Name] = g.Value(f.Type, 1)
			}
			c.Params = v
		}
	}
	_ = s
	c.Shown = c.Show()
	return c
}

func (e *Endpoint) distinctKeys(g *model.Gen, t corpus.TypeExpr, n int) []*model.Value {
	out := []*model.Value{}
	seen := map[string]bool{}
	for tries := 0; len(out) < n && tries < 50; tries++ {
		k := g.Value(t, 1)
		id := model.Show(keyPart(k))
		// float keys: +0 and -0 are equal keys
		if seen[id] {
			continue
		}
		seen[id] = true
		out = append(out, k)
	}
	return out
}

// genPatch draws a legal partial update avoiding the resource's read-only / create-only fields.
func (e *Endpoint) genPatch(g *model.Gen, rng *rand.Rand, td *corpus.TypeDef, depth int) *bridge.Patch {
	p := bridge.NewPatch()
	s := e.Set.Schema
	excluded := map[string]bool{}
	if depth == 0 {
		for _, x := range append(append([]string{}, e.Res.ReadOnly...), e.Res.CreateOnly...) {
			excluded[firstSegment(x)] = true
		}
	}
	for _, f := range s.AllFields(td) {
		if excluded[f.Name] {
			continue
		}
		_, ftd := model.Resolve(s, f.Type)
		isRec := ftd != nil && ftd.Kind == "record" && f.Type.Ref != ""
		switch rng.Intn(4) {
		case 0:
			p.Set[f.Name] = g.Value(f.Type, 2)
		case 1:
			if f.Optional || f.Default != nil {
				p.Delete[f.Name] = true
			}
		case 2:
			if isRec && depth < 2 {
				p.Nested[f.Name] = e.genPatch(g, rng, ftd, depth+1)
			}
		}
	}
	return p
}

func firstSegment(path string) string {
	for i := 0; i < len(path); i++ {
		if path[i] == '/' {
			return path[:i]
		}
	}
	return path
}

// GenOutcome draws a successful scripted outcome for a call.
func (e *Endpoint) GenOutcome(m *corpus.MethodSpec, c *Call, g *model.Gen, rng *rand.Rand) *Outcome {
	o := &Outcome{}
	schema := e.resultTypes(m)
	switch {
	case m.Kind == "ACTION":
		if m.Return != nil {
			o.ActionResult = g.Value(*m.Return, 1)
		}
	case m.Kind == "FINDER" || m.Name == "get_all":
		n := rng.Intn(4)
		o.Elements = []*model.Value{}
		for i := 0; i < n; i++ {
			o.Elements = append(o.Elements, g.Value(schema, 1))
		}
		if rng.Intn(2) == 0 {
			o.Paging = &Paging{Start: int32(rng.Intn(100)), Count: int32(n)}
			if rng.Intn(2) == 0 {
				t := int32(rng.Intn(10000))
				o.Paging.Total = &t
			}
		}
		if m.Metadata != nil {
			o.Metadata = g.Value(*m.Metadata, 1)
		}
	case m.Name == "get" || (m.Name == "partial_update" && m.ReturnEntity):
		o.Entity = g.Value(schema, 1)
	case m.Name == "create":
		o.CreatedID = g.Value(*e.keyType(), 1)
		if m.ReturnEntity {
			o.Entity = g.Value(schema, 1)
		}
		if rng.Intn(3) == 0 {
			o.Status = 200 + rng.Intn(3)
		}
	case m.Name == "batch_create":
		for range c.Entities {
			cr := Created{ID: g.Value(*e.keyType(), 1), Status: 201}
			if m.ReturnEntity {
				cr.Entity = g.Value(schema, 1)
			}
			o.Created = append(o.Created, cr)
		}
	case m.Name == "batch_get" || m.Name == "batch_delete" || m.Name == "batch_update" || m.Name == "batch_partial_update":
		o.Results, o.Statuses, o.Errors, o.ResultStatus = map[string]*model.Value{}, map[string]int{}, map[string]*ErrInfo{}, map[string]int{}
		var keys []*model.Value
		keys = append(keys, c.Keys...)
		for _, k := range c.KeyOf {
			keys = append(keys, k)
		}
		for i, k := range keys {
			kt := KeyText(k)
			o.SetKeyValue(kt, k)
			switch (i + rng.Intn(3)) % 4 {
			case 3:
				st := int32(404)
				msg := fmt.Sprintf("no such entity %d", i)
				o.Errors[kt] = &ErrInfo{Status: &st, Message: &msg}
			default:
				if m.Name == "batch_get" {
					o.Results[kt] = g.Value(schema, 1)
					if rng.Intn(2) == 0 {
						o.Statuses[kt] = 200
					}
				} else {
					o.Results[kt] = nil
					o.ResultStatus[kt] = []int{204, 200, 202}[rng.Intn(3)]
				}
			}
		}
	}
	o.Shown = o.Show()
	return o
}
