// Package rig drives generated clients and generated resource registrations generically, by reflection:
// calls are described as abstract values, sent through the generated Client, observed inside generated
// MockResource functions (filled with reflect.MakeFunc closures) and returned to the caller; both ends are
// converted back to abstract values so that a monitor can join "what the caller passed" with "what resource
// code saw" and "what resource code returned" with "what the caller got".
package rig

import (
	"fmt"
	"net/http"
	"reflect"
	"sort"
	"strings"
	"sync"

	"github.com/PapaCharlie/go-restli/v2/restli"
	common "github.com/PapaCharlie/go-restli/v2/restlidata/generated/com/linkedin/restli/common"

	"verifh/bridge"
	"verifh/corpus"
	"verifh/model"
)

// FuncName is the Go method name of a method on the generated Client / Resource interfaces.
func FuncName(m *corpus.MethodSpec) string {
	switch m.Kind {
	case "FINDER":
		return "FindBy" + corpus.GoFieldName(m.Name)
	case "ACTION":
		return corpus.GoFieldName(m.Name) + "Action"
	}
	parts := strings.Split(m.Name, "_")
	for i := range parts {
		parts[i] = strings.ToUpper(parts[i][:1]) + parts[i][1:]
	}
	return strings.Join(parts, "")
}

// Call is the abstract form of one invocation (as made by the caller, or as seen by resource code).
type Call struct {
	Resource   string                   `json:"resource"`
	Method     string                   `json:"method"`
	ParentKeys []*model.Value           `json:"-"`
	Key        *model.Value             `json:"-"`
	Keys       []*model.Value           `json:"-"` // batch_get / batch_delete
	Entity     *model.Value             `json:"-"` // create / update
	Entities   []*model.Value           `json:"-"` // batch_create
	ByKey      map[string]*model.Value  `json:"-"` // batch_update: canonical key text -> entity
	KeyOf      map[string]*model.Value  `json:"-"` // canonical key text -> key value
	Patch      *bridge.Patch            `json:"-"`
	PatchByKey map[string]*bridge.Patch `json:"-"`
	Params     *model.Value             `json:"-"` // query / action parameters as a record value (paging as start / count)
	ReqID      string                   `json:"req_id,omitempty"`
	Shown      string                   `json:"shown"`
}

// KeyText is the canonical text of a key value (complex keys: key part and params).
func KeyText(v *model.Value) string { return model.Show(v) }

// Show renders the call for evidence and replay files.
func (c *Call) Show() string {
	var b strings.Builder
	fmt.Fprintf(&b, "%s.%s(", c.Resource, c.Method)
	var parts []string
	for _, k := range c.ParentKeys {
		parts = append(parts, "parent="+model.Show(k))
	}
	if c.Key != nil {
		parts = append(parts, "key="+model.Show(c.Key))
	}
	if c.Keys != nil {
		var ks []string
		for _, k := range c.Keys {
			ks = append(ks, model.Show(k))
		}
		parts = append(parts, "keys=["+strings.Join(ks, " ")+"]")
	}
	if c.Entity != nil {
		parts = append(parts, "entity="+model.Show(c.Entity))
	}
	for i, e := range c.Entities {
		parts = append(parts, fmt.Sprintf("entities[%d]=%s", i, model.Show(e)))
	}
	var bk []string
	for k := range c.ByKey {
		bk = append(bk, k)
	}
	sort.Strings(bk)
	for _, k := range bk {
		parts = append(parts, "entity["+k+"]="+model.Show(c.ByKey[k]))
	}
	if c.Patch != nil {
		parts = append(parts, "patch="+ShowPatch(c.Patch))
	}
	bk = nil
	for k := range c.PatchByKey {
		bk = append(bk, k)
	}
	sort.Strings(bk)
	for _, k := range bk {
		parts = append(parts, "patch["+k+"]="+ShowPatch(c.PatchByKey[k]))
	}
	if c.Params != nil {
		parts = append(parts, "params="+model.Show(c.Params))
	}
	b.WriteString(strings.Join(parts, ", ") + ")")
	s := b.String()
	if len(s) > 600 {
		s = s[:600] + "..."
	}
	return s
}

func ShowPatch(p *bridge.Patch) string {
	var parts []string
	for k, v := range p.Set {
		parts = append(parts, "$set."+k+"="+model.Show(v))
	}
	for k := range p.Delete {
		parts = append(parts, "$delete."+k)
	}
	for k, n := range p.Nested {
		parts = append(parts, k+":"+ShowPatch(n))
	}
	sort.Strings(parts)
	return "{" + strings.Join(parts, " ") + "}"
}

// Outcome is what resource code returns / what the caller receives.
type Outcome struct {
	Err          *ErrInfo                `json:"err,omitempty"`
	PlainError   string                  `json:"plain_error,omitempty"` // resource returns errors.New(PlainError)
	RawErr       error                   `json:"-"`                     // resource returns exactly this error object (shared-object probes)
	Panic        string                  `json:"panic,omitempty"`
	Status       int                     `json:"status,omitempty"` // overridden / observed status
	Entity       *model.Value            `json:"-"`
	NilEntity    bool                    `json:"nil_entity,omitempty"`
	Elements     []*model.Value          `json:"-"`
	Paging       *Paging                 `json:"paging,omitempty"`
	Metadata     *model.Value            `json:"-"`
	ActionResult *model.Value            `json:"-"`
	CreatedID    *model.Value            `json:"-"`
	Location     string                  `json:"location,omitempty"`
	Created      []Created               `json:"-"`
	Results      map[string]*model.Value `json:"-"` // batch: canonical key text -> entity (nil for update-status results)
	Statuses     map[string]int          `json:"statuses,omitempty"`
	Errors       map[string]*ErrInfo     `json:"errors,omitempty"`
	ResultStatus map[string]int          `json:"result_status,omitempty"` // batch update responses: per-key status
	KeyIdentity  map[string]bool         `json:"-"`                       // caller side: response key is the caller's own key value (pointer identity for complex keys)
	Shown        string                  `json:"shown,omitempty"`
}

type Paging struct {
	Start, Count int32
	Total        *int32
}

type Created struct {
	ID     *model.Value
	Status int
	Entity *model.Value
}

type ErrInfo struct {
	Status           *int32  `json:"status,omitempty"`
	Message          *string `json:"message,omitempty"`
	Code             *string `json:"code,omitempty"`
	ServiceErrorCode *int32  `json:"service_error_code,omitempty"`
	ExceptionClass   *string `json:"exception_class,omitempty"`
	DocUrl           *string `json:"doc_url,omitempty"`
	Kind             string  `json:"kind,omitempty"` // caller side: restli.Error / UnexpectedStatusCodeError / url.Error / other
	Text             string  `json:"text,omitempty"`
}

func (o *Outcome) Show() string {
	if o == nil {
		return "<nil>"
	}
	var parts []string
	if o.Err != nil {
		parts = append(parts, fmt.Sprintf("err(kind=%s status=%v message=%v text=%q)", o.Err.Kind, deref32(o.Err.Status), derefS(o.Err.Message), o.Err.Text))
	}
	if o.PlainError != "" {
		parts = append(parts, "plain-error:"+o.PlainError)
	}
	if o.Panic != "" {
		parts = append(parts, "panic:"+o.Panic)
	}
	if o.Status != 0 {
		parts = append(parts, fmt.Sprint("status=", o.Status))
	}
	if o.Entity != nil {
		parts = append(parts, "entity="+model.Show(o.Entity))
	}
	if o.NilEntity {
		parts = append(parts, "nil-entity")
	}
	for i, e := range o.Elements {
		parts = append(parts, fmt.Sprintf("elements[%d]=%s", i, model.Show(e)))
	}
	if o.Paging != nil {
		parts = append(parts, fmt.Sprintf("paging=%d/%d/%v", o.Paging.Start, o.Paging.Count, deref32(o.Paging.Total)))
	}
	if o.Metadata != nil {
		parts = append(parts, "metadata="+model.Show(o.Metadata))
	}
	if o.ActionResult != nil {
		parts = append(parts, "result="+model.Show(o.ActionResult))
	}
	if o.CreatedID != nil {
		parts = append(parts, "id="+model.Show(o.CreatedID))
	}
	for i, c := range o.Created {
		parts = append(parts, fmt.Sprintf("created[%d]=%s/%d", i, model.Show(c.ID), c.Status))
	}
	var ks []string
	for k := range o.Results {
		ks = append(ks, k)
	}
	sort.Strings(ks)
	for _, k := range ks {
		parts = append(parts, "result["+k+"]="+model.Show(o.Results[k]))
	}
	for k, s := range o.Statuses {
		parts = append(parts, fmt.Sprintf("status[%s]=%d", k, s))
	}
	for k, e := range o.Errors {
		parts = append(parts, fmt.Sprintf("error[%s]=%v", k, derefS(e.Message)))
	}
	s := strings.Join(parts, " ")
	if len(s) > 600 {
		s = s[:600] + "..."
	}
	return s
}

func deref32(p *int32) any {
	if p == nil {
		return nil
	}
	return *p
}
func derefS(p *string) any {
	if p == nil {
		return nil
	}
	return *p
}

// ---------------------------------------------------------------------------------------------
// plans: which argument is what

type argRole int

const (
	roleParent argRole = iota
	roleKey
	roleKeys
	roleEntity
	roleEntities
	roleEntityMap
	rolePatch
	rolePatchMap
	roleParams
)

type argPlan struct {
	role argRole
	t    corpus.TypeExpr // key / entity type
	idx  int             // parent index
}

type Endpoint struct {
	Set *bridge.Set
	Res *corpus.Resource
}

func (e *Endpoint) keyType() *corpus.TypeExpr { return e.Res.Segments[len(e.Res.Segments)-1].Key }

func (e *Endpoint) parentTypes() []corpus.TypeExpr {
	var out []corpus.TypeExpr
	for _, s := range e.Res.Segments[:len(e.Res.Segments)-1] {
		if s.Key != nil {
			out = append(out, *s.Key)
		}
	}
	return out
}

// ParamsDef returns the synthetic record definition of a method's parameter struct (nil if it takes none).
func (e *Endpoint) ParamsDef(m *corpus.MethodSpec) *corpus.TypeDef {
	if len(m.Params) == 0 && !m.Paging {
		return nil
	}
	td := &corpus.TypeDef{Kind: "record", Name: FuncName(m) + "Params", Namespace: e.Res.Namespace}
	if m.Paging {
		td.Fields = append(td.Fields, corpus.Opt("start", corpus.P("int32")), corpus.Opt("count", corpus.P("int32")))
	}
	td.Fields = append(td.Fields, m.Params...)
	return td
}

func (e *Endpoint) plan(m *corpus.MethodSpec) []argPlan {
	var out []argPlan
	for i, t := range e.parentTypes() {
		out = append(out, argPlan{role: roleParent, t: t, idx: i})
	}
	kt := e.keyType()
	schema := corpus.TypeExpr{}
	if e.Res.Schema != nil {
		schema = *e.Res.Schema
	}
	switch m.Kind {
	case "REST_METHOD":
		switch m.Name {
		case "get", "delete":
			if kt != nil {
				out = append(out, argPlan{role: roleKey, t: *kt})
			}
		case "create":
			out = append(out, argPlan{role: roleEntity, t: schema})
		case "update":
			if kt != nil {
				out = append(out, argPlan{role: roleKey, t: *kt})
			}
			out = append(out, argPlan{role: roleEntity, t: schema})
		case "partial_update":
			if kt != nil {
				out = append(out, argPlan{role: roleKey, t: *kt})
			}
			out = append(out, argPlan{role: rolePatch, t: schema})
		case "batch_get", "batch_delete":
			out = append(out, argPlan{role: roleKeys, t: *kt})
		case "batch_create":
			out = append(out, argPlan{role: roleEntities, t: schema})
		case "batch_update":
			out = append(out, argPlan{role: roleEntityMap, t: schema})
		case "batch_partial_update":
			out = append(out, argPlan{role: rolePatchMap, t: schema})
		}
	case "ACTION":
		if m.OnEntity && kt != nil {
			out = append(out, argPlan{role: roleKey, t: *kt})
		}
	}
	if e.ParamsDef(m) != nil {
		out = append(out, argPlan{role: roleParams})
	}
	return out
}

// paramsSchema is a view of the set's schema extended with the synthetic params record.
func (e *Endpoint) buildParams(dst reflect.Value, m *corpus.MethodSpec, v *model.Value) error {
	td := e.ParamsDef(m)
	p := reflect.New(dst.Type().Elem())
	rec := p.Elem()
	for _, f := range td.Fields {
		fv := v.Fields[f.Name]
		if fv == nil {
			continue
		}
		var gf reflect.Value
		switch {
		case m.Paging && f.Name == "start":
			gf = rec.FieldByName("PagingContext").FieldByName("Start")
		case m.Paging && f.Name == "count":
			gf = rec.FieldByName("PagingContext").FieldByName("Count")
		default:
			gf = rec.FieldByName(corpus.GoFieldName(f.Name))
		}
		if !gf.IsValid() {
			return fmt.Errorf("params struct %s has no field for %s", rec.Type(), f.Name)
		}
		if err := e.Set.Build(gf, f.Type, fv); err != nil {
			return err
		}
	}
	dst.Set(p)
	return nil
}

func (e *Endpoint) readParams(src reflect.Value, m *corpus.MethodSpec) (*model.Value, error) {
	td := e.ParamsDef(m)
	v := &model.Value{Kind: model.KRecord, Fields: map[string]*model.Value{}}
	if src.Kind() == reflect.Ptr {
		if src.IsNil() {
			return nil, nil
		}
		src = src.Elem()
	}
	for _, f := range td.Fields {
		var gf reflect.Value
		switch {
		case m.Paging && f.Name == "start":
			gf = src.FieldByName("PagingContext").FieldByName("Start")
		case m.Paging && f.Name == "count":
			gf = src.FieldByName("PagingContext").FieldByName("Count")
		default:
			gf = src.FieldByName(corpus.GoFieldName(f.Name))
		}
		if !gf.IsValid() {
			return nil, fmt.Errorf("params struct %s has no field for %s", src.Type(), f.Name)
		}
		fv, err := e.Set.Read(gf, f.Type)
		if err != nil {
			return nil, err
		}
		if fv != nil {
			v.Fields[f.Name] = fv
		}
	}
	return v, nil
}

func (e *Endpoint) schemaTD() *corpus.TypeDef {
	if e.Res.Schema == nil {
		return nil
	}
	_, td := model.Resolve(e.Set.Schema, *e.Res.Schema)
	return td
}

// buildArgs converts a Call into the reflect arguments of the generated method (without the leading context).
// It returns, for batch calls, the Go key values by canonical text (to check key identity afterwards).
func (e *Endpoint) buildArgs(m *corpus.MethodSpec, c *Call, types []reflect.Type) ([]reflect.Value, map[string]reflect.Value, error) {
	plan := e.plan(m)
	if len(plan) != len(types) {
		return nil, nil, fmt.Errorf("%s.%s: plan has %d arguments, generated method takes %d", e.Res.Namespace, m.Name, len(plan), len(types))
	}
	goKeys := map[string]reflect.Value{}
	args := make([]reflect.Value, len(plan))
	for i, p := range plan {
		dst := reflect.New(types[i]).Elem()
		var err error
		switch p.role {
		case roleParent:
			err = e.Set.Build(dst, p.t, c.ParentKeys[p.idx])
		case roleKey:
			err = e.Set.Build(dst, p.t, c.Key)
		case roleEntity:
			err = e.Set.Build(dst, p.t, c.Entity)
		case roleKeys:
			sl := reflect.MakeSlice(types[i], len(c.Keys), len(c.Keys))
			for j, k := range c.Keys {
				if err = e.Set.Build(sl.Index(j), p.t, k); err != nil {
					break
				}
				goKeys[KeyText(k)] = sl.Index(j)
			}
			dst.Set(sl)
		case roleEntities:
			sl := reflect.MakeSlice(types[i], len(c.Entities), len(c.Entities))
			for j, v := range c.Entities {
				if err = e.Set.Build(sl.Index(j), p.t, v); err != nil {
					break
				}
			}
			dst.Set(sl)
		case roleEntityMap:
			mp := reflect.MakeMap(types[i])
			for kt, v := range c.ByKey {
				k := reflect.New(types[i].Key()).Elem()
				if err = e.Set.Build(k, *e.keyType(), c.KeyOf[kt]); err != nil {
					break
				}
				ev := reflect.New(types[i].Elem()).Elem()
				if err = e.Set.Build(ev, p.t, v); err != nil {
					break
				}
				mp.SetMapIndex(k, ev)
				goKeys[kt] = k
			}
			dst.Set(mp)
		case rolePatch:
			var ptr reflect.Value
			ptr, err = e.Set.BuildPatch(e.schemaTD().FullName(), c.Patch)
			if err == nil {
				dst.Set(ptr)
			}
		case rolePatchMap:
			mp := reflect.MakeMap(types[i])
			for kt, pv := range c.PatchByKey {
				k := reflect.New(types[i].Key()).Elem()
				if err = e.Set.Build(k, *e.keyType(), c.KeyOf[kt]); err != nil {
					break
				}
				var ptr reflect.Value
				ptr, err = e.Set.BuildPatch(e.schemaTD().FullName(), pv)
				if err != nil {
					break
				}
				mp.SetMapIndex(k, ptr)
				goKeys[kt] = k
			}
			dst.Set(mp)
		case roleParams:
			err = e.buildParams(dst, m, c.Params)
		}
		if err != nil {
			return nil, nil, err
		}
		args[i] = dst
	}
	return args, goKeys, nil
}

// readArgs converts the arguments received by a generated resource function back into a Call.
func (e *Endpoint) readArgs(m *corpus.MethodSpec, args []reflect.Value) (*Call, error) {
	plan := e.plan(m)
	if len(plan) != len(args) {
		return nil, fmt.Errorf("%s.%s: plan has %d arguments, resource function received %d", e.Res.Namespace, m.Name, len(plan), len(args))
	}
	c := &Call{Resource: e.Res.Namespace, Method: m.Name}
	if m.Kind != "REST_METHOD" {
		c.Method = strings.ToLower(m.Kind) + ":" + m.Name
	}
	for i, p := range plan {
		var err error
		switch p.role {
		case roleParent:
			var v *model.Value
			v, err = e.Set.Read(args[i], p.t)
			c.ParentKeys = append(c.ParentKeys, v)
		case roleKey:
			c.Key, err = e.Set.Read(args[i], p.t)
		case roleEntity:
			c.Entity, err = e.Set.Read(args[i], p.t)
		case roleKeys:
			c.Keys = []*model.Value{}
			for j := 0; j < args[i].Len() && err == nil; j++ {
				var v *model.Value
				v, err = e.Set.Read(args[i].Index(j), p.t)
				c.Keys = append(c.Keys, v)
			}
		case roleEntities:
			c.Entities = []*model.Value{}
			for j := 0; j < args[i].Len() && err == nil; j++ {
				var v *model.Value
				v, err = e.Set.Read(args[i].Index(j), p.t)
				c.Entities = append(c.Entities, v)
			}
		case roleEntityMap:
			c.ByKey, c.KeyOf = map[string]*model.Value{}, map[string]*model.Value{}
			it := args[i].MapRange()
			for it.Next() && err == nil {
				var k, v *model.Value
				if k, err = e.Set.Read(it.Key(), *e.keyType()); err != nil {
					break
				}
				v, err = e.Set.Read(it.Value(), p.t)
				c.ByKey[KeyText(k)], c.KeyOf[KeyText(k)] = v, k
			}
		case rolePatch:
			if !args[i].IsNil() {
				c.Patch, err = e.Set.ReadPatch(args[i].Elem(), e.schemaTD())
			}
		case rolePatchMap:
			c.PatchByKey, c.KeyOf = map[string]*bridge.Patch{}, map[string]*model.Value{}
			it := args[i].MapRange()
			for it.Next() && err == nil {
				var k *model.Value
				if k, err = e.Set.Read(it.Key(), *e.keyType()); err != nil {
					break
				}
				var pv *bridge.Patch
				if !it.Value().IsNil() {
					pv, err = e.Set.ReadPatch(it.Value().Elem(), e.schemaTD())
				}
				c.PatchByKey[KeyText(k)], c.KeyOf[KeyText(k)] = pv, k
			}
		case roleParams:
			c.Params, err = e.readParams(args[i], m)
		}
		if err != nil {
			return nil, err
		}
	}
	c.Shown = c.Show()
	return c, nil
}

// ---------------------------------------------------------------------------------------------
// results

func (e *Endpoint) resultTypes(m *corpus.MethodSpec) (entity corpus.TypeExpr) {
	if e.Res.Schema != nil {
		return *e.Res.Schema
	}
	return corpus.TypeExpr{}
}

// buildResult fills the non-error results of a generated resource function from o.
func (e *Endpoint) buildResult(m *corpus.MethodSpec, o *Outcome, outTypes []reflect.Type) ([]reflect.Value, error) {
	outs := make([]reflect.Value, len(outTypes))
	for i, t := range outTypes {
		outs[i] = reflect.Zero(t)
	}
	if len(outTypes) == 1 || o == nil { // only err
		return outs, nil
	}
	rt := outTypes[0]
	res := reflect.New(rt).Elem()
	schema := e.resultTypes(m)
	var err error
	switch {
	case m.Kind == "ACTION":
		if m.Return != nil && o.ActionResult != nil {
			err = e.Set.Build(res, *m.Return, o.ActionResult)
		}
	case m.Kind == "FINDER" || m.Name == "get_all":
		if o.NilEntity {
			break
		}
		p := reflect.New(rt.Elem())
		el := p.Elem().FieldByName("Elements")
		sl := reflect.MakeSlice(el.Type(), len(o.Elements), len(o.Elements))
		for j, v := range o.Elements {
			if err = e.Set.Build(sl.Index(j), schema, v); err != nil {
				break
			}
		}
		el.Set(sl)
		if o.Paging != nil {
			p.Elem().FieldByName("Paging").Set(reflect.ValueOf(&collectionMetadata{Start: o.Paging.Start, Count: o.Paging.Count, Total: o.Paging.Total}))
		}
		if md := p.Elem().FieldByName("Metadata"); md.IsValid() && m.Metadata != nil && o.Metadata != nil {
			err = e.Set.Build(md, *m.Metadata, o.Metadata)
		}
		res.Set(p)
	case m.Name == "get" || (m.Name == "partial_update" && m.ReturnEntity):
		if !o.NilEntity && o.Entity != nil {
			err = e.Set.Build(res, schema, o.Entity)
		}
	case m.Name == "create":
		if o.NilEntity {
			break
		}
		p := reflect.New(rt.Elem())
		ce := p.Elem()
		if m.ReturnEntity {
			if o.Entity != nil {
				err = e.Set.Build(ce.FieldByName("Entity"), schema, o.Entity)
			}
			ce = ce.FieldByName("CreatedEntity")
		}
		if err == nil && o.CreatedID != nil {
			err = e.Set.Build(ce.FieldByName("Id"), *e.keyType(), o.CreatedID)
		}
		ce.FieldByName("Status").SetInt(int64(o.Status))
		res.Set(p)
	case m.Name == "batch_create":
		sl := reflect.MakeSlice(rt, len(o.Created), len(o.Created))
		for j, c := range o.Created {
			p := reflect.New(rt.Elem().Elem())
			ce := p.Elem()
			if m.ReturnEntity {
				if c.Entity != nil {
					err = e.Set.Build(ce.FieldByName("Entity"), schema, c.Entity)
				}
				ce = ce.FieldByName("CreatedEntity")
			}
			if err == nil {
				err = e.Set.Build(ce.FieldByName("Id"), *e.keyType(), c.ID)
			}
			ce.FieldByName("Status").SetInt(int64(c.Status))
			sl.Index(j).Set(p)
		}
		res.Set(sl)
	case strings.HasPrefix(m.Name, "batch_"):
		if o.NilEntity {
			break
		}
		p := reflect.New(rt.Elem())
		br := p.Elem()
		resF, stF, erF := br.FieldByName("Results"), br.FieldByName("Statuses"), br.FieldByName("Errors")
		mkKey := func(kt string) (reflect.Value, error) {
			k := reflect.New(resF.Type().Key()).Elem()
			kv := o.keyValue(kt)
			if kv == nil {
				return k, fmt.Errorf("no key value for %q", kt)
			}
			return k, e.Set.Build(k, *e.keyType(), kv)
		}
		resF.Set(reflect.MakeMap(resF.Type()))
		for kt, v := range o.Results {
			var k reflect.Value
			if k, err = mkKey(kt); err != nil {
				break
			}
			ev := reflect.New(resF.Type().Elem()).Elem()
			if m.Name == "batch_get" {
				err = e.Set.Build(ev, schema, v)
			} else {
				ev.Set(reflect.ValueOf(&common.BatchEntityUpdateResponse{Status: o.ResultStatus[kt]}))
			}
			if err != nil {
				break
			}
			resF.SetMapIndex(k, ev)
		}
		if len(o.Statuses) > 0 {
			stF.Set(reflect.MakeMap(stF.Type()))
			for kt, st := range o.Statuses {
				var k reflect.Value
				if k, err = mkKey(kt); err != nil {
					break
				}
				stF.SetMapIndex(k, reflect.ValueOf(st))
			}
		}
		if len(o.Errors) > 0 {
			erF.Set(reflect.MakeMap(erF.Type()))
			for kt, ei := range o.Errors {
				var k reflect.Value
				if k, err = mkKey(kt); err != nil {
					break
				}
				erF.SetMapIndex(k, reflect.ValueOf(ei.response()))
			}
		}
		res.Set(p)
	}
	if err != nil {
		return nil, err
	}
	outs[0] = res
	return outs, nil
}

// batchKeys carries the key values behind the canonical texts used in Results / Statuses / Errors.
var batchKeysMu sync.Mutex
var batchKeys = map[*Outcome]map[string]*model.Value{}

func (o *Outcome) SetKeyValue(kt string, v *model.Value) {
	batchKeysMu.Lock()
	defer batchKeysMu.Unlock()
	if batchKeys[o] == nil {
		batchKeys[o] = map[string]*model.Value{}
	}
	batchKeys[o][kt] = v
}

func (o *Outcome) keyValue(kt string) *model.Value {
	batchKeysMu.Lock()
	defer batchKeysMu.Unlock()
	return batchKeys[o][kt]
}

func (o *Outcome) Release() {
	batchKeysMu.Lock()
	delete(batchKeys, o)
	batchKeysMu.Unlock()
}

// readResult converts what the generated client returned into an Outcome.
func (e *Endpoint) readResult(m *corpus.MethodSpec, outs []reflect.Value, goKeys map[string]reflect.Value) (*Outcome, error) {
	o := &Outcome{}
	errV := outs[len(outs)-1]
	if !errV.IsNil() {
		o.Err = DescribeError(errV.Interface().(error))
	}
	if len(outs) == 1 {
		return o, nil
	}
	res := outs[0]
	schema := e.resultTypes(m)
	var err error
	isNilPtr := (res.Kind() == reflect.Ptr || res.Kind() == reflect.Map || res.Kind() == reflect.Slice) && res.IsNil()
	switch {
	case m.Kind == "ACTION":
		if m.Return != nil && o.Err == nil {
			o.ActionResult, err = e.Set.Read(res, *m.Return)
		}
	case m.Kind == "FINDER" || m.Name == "get_all":
		if isNilPtr {
			o.NilEntity = true
			break
		}
		el := res.Elem().FieldByName("Elements")
		o.Elements = []*model.Value{}
		for j := 0; j < el.Len() && err == nil; j++ {
			var v *model.Value
			v, err = e.Set.Read(el.Index(j), schema)
			o.Elements = append(o.Elements, v)
		}
		if pg := res.Elem().FieldByName("Paging"); pg.IsValid() && !pg.IsNil() {
			cm := pg.Interface().(*collectionMetadata)
			o.Paging = &Paging{cm.Start, cm.Count, cm.Total}
		}
		if md := res.Elem().FieldByName("Metadata"); md.IsValid() && m.Metadata != nil && err == nil {
			o.Metadata, err = e.Set.Read(md, *m.Metadata)
		}
	case m.Name == "get" || (m.Name == "partial_update" && m.ReturnEntity):
		if isNilPtr {
			o.NilEntity = true
			break
		}
		o.Entity, err = e.Set.Read(res, schema)
	case m.Name == "create":
		if isNilPtr {
			o.NilEntity = true
			break
		}
		ce := res.Elem()
		if m.ReturnEntity {
			o.Entity, err = e.Set.Read(ce.FieldByName("Entity"), schema)
			ce = ce.FieldByName("CreatedEntity")
		}
		if err == nil {
			o.CreatedID, err = e.Set.Read(ce.FieldByName("Id"), *e.keyType())
		}
		o.Status = int(ce.FieldByName("Status").Int())
		if loc := ce.FieldByName("Location"); !loc.IsNil() {
			o.Location = loc.Elem().String()
		}
	case m.Name == "batch_create":
		for j := 0; j < res.Len() && err == nil; j++ {
			ce := res.Index(j).Elem()
			var c Created
			if m.ReturnEntity {
				c.Entity, err = e.Set.Read(ce.FieldByName("Entity"), schema)
				ce = ce.FieldByName("CreatedEntity")
			}
			if err == nil {
				c.ID, err = e.Set.Read(ce.FieldByName("Id"), *e.keyType())
			}
			c.Status = int(ce.FieldByName("Status").Int())
			o.Created = append(o.Created, c)
		}
	case strings.HasPrefix(m.Name, "batch_"):
		if isNilPtr {
			o.NilEntity = true
			break
		}
		br := res.Elem()
		o.Results, o.Statuses, o.Errors, o.ResultStatus, o.KeyIdentity = map[string]*model.Value{}, map[string]int{}, map[string]*ErrInfo{}, map[string]int{}, map[string]bool{}
		readKey := func(k reflect.Value) (string, error) {
			kv, err := e.Set.Read(k, *e.keyType())
			if err != nil {
				return "", err
			}
			kt := KeyText(kv)
			own, ok := goKeys[kt]
			if !ok {
				// the response key does not correspond to a requested key text (e.g. complex key that lost its params):
				// find a requested key equal up to params
				for t, g := range goKeys {
					if k.Kind() == reflect.Ptr && g.Kind() == reflect.Ptr && g.Pointer() == k.Pointer() {
						kt, own, ok = t, g, true
					}
				}
			}
			identical := ok
			if ok && k.Kind() == reflect.Ptr {
				identical = own.Pointer() == k.Pointer()
			}
			if prev, seen := o.KeyIdentity[kt]; !seen || prev {
				o.KeyIdentity[kt] = identical
			}
			o.SetKeyValue(kt, kv)
			return kt, nil
		}
		it := br.FieldByName("Results").MapRange()
		for it.Next() && err == nil {
			var kt string
			if kt, err = readKey(it.Key()); err != nil {
				break
			}
			if m.Name == "batch_get" {
				o.Results[kt], err = e.Set.Read(it.Value(), schema)
			} else {
				o.Results[kt] = nil
				if !it.Value().IsNil() {
					o.ResultStatus[kt] = it.Value().Interface().(*common.BatchEntityUpdateResponse).Status
				}
			}
		}
		it = br.FieldByName("Statuses").MapRange()
		for it.Next() && err == nil {
			var kt string
			if kt, err = readKey(it.Key()); err == nil {
				o.Statuses[kt] = int(it.Value().Int())
			}
		}
		it = br.FieldByName("Errors").MapRange()
		for it.Next() && err == nil {
			var kt string
			if kt, err = readKey(it.Key()); err == nil {
				o.Errors[kt] = errInfoFrom(it.Value().Interface().(*common.ErrorResponse))
			}
		}
	}
	if err != nil {
		return nil, err
	}
	o.Shown = o.Show()
	return o, nil
}

// DescribeError classifies an error returned by a generated client method.
func DescribeError(err error) *ErrInfo {
	switch e := err.(type) {
	case *restli.Error:
		ei := errInfoFrom(&e.ErrorResponse)
		ei.Kind = "restli.Error"
		ei.Text = e.Error()
		if e.DeserializationError != nil {
			ei.Text += " (deserialization: " + e.DeserializationError.Error() + ")"
		}
		return ei
	case *restli.UnexpectedStatusCodeError:
		st := int32(e.Response.StatusCode)
		return &ErrInfo{Kind: "UnexpectedStatusCodeError", Status: &st, Text: string(e.ResponseBody)}
	default:
		kind := fmt.Sprintf("%T", err)
		return &ErrInfo{Kind: kind, Text: err.Error()}
	}
}

var _ = http.StatusOK
