package rig

import (
	common "github.com/PapaCharlie/go-restli/v2/restlidata/generated/com/linkedin/restli/common"
)

// The few places where the two module generations differ (rig1 gets shim_root.go instead of this file).

type collectionMetadata = common.CollectionMetadata

func errInfoFrom(er *common.ErrorResponse) *ErrInfo {
	if er == nil {
		return nil
	}
	return &ErrInfo{Status: er.Status, Message: er.Message, Code: er.Code, ServiceErrorCode: er.ServiceErrorCode, ExceptionClass: er.ExceptionClass, DocUrl: er.DocUrl}
}

// Response builds a fresh library ErrorResponse from the description.
func (ei *ErrInfo) Response() *common.ErrorResponse { return ei.response() }

func (ei *ErrInfo) response() *common.ErrorResponse {
	return &common.ErrorResponse{Status: ei.Status, Message: ei.Message, Code: ei.Code, ServiceErrorCode: ei.ServiceErrorCode, ExceptionClass: ei.ExceptionClass, DocUrl: ei.DocUrl}
}

