package rig

import (
	"bytes"
	"context"
	"errors"
	"fmt"
	"io"
	"log"
	"net"
	"net/http"
	"net/url"
	"reflect"
	"strings"
	"sync"

	"github.com/PapaCharlie/go-restli/v2/restli"

	"verifh/bridge"
	"verifh/corpus"
)

// Wire is what the client-side tap saw of one exchange.
type Wire struct {
	Method       string      `json:"method"`
	Target       string      `json:"target"`
	Header       http.Header `json:"header"`
	Body         string      `json:"body"`
	Status       int         `json:"status"`
	RespHeader   http.Header `json:"resp_header,omitempty"`
	RespBody     string      `json:"resp_body,omitempty"`
	TransportErr string      `json:"transport_err,omitempty"`
}

type tap struct {
	rt http.RoundTripper
	mu sync.Mutex
	by map[string][]*Wire // request id -> exchanges
}

func (t *tap) RoundTrip(req *http.Request) (*http.Response, error) {
	w := &Wire{Method: req.Method, Target: req.URL.RequestURI(), Header: req.Header.Clone()}
	if req.Body != nil {
		b, _ := io.ReadAll(req.Body)
		req.Body.Close()
		w.Body = string(b)
		req.Body = io.NopCloser(bytes.NewReader(b))
	}
	id := req.Header.Get("X-Verif-Req")
	t.mu.Lock()
	t.by[id] = append(t.by[id], w)
	t.mu.Unlock()
	resp, err := t.rt.RoundTrip(req)
	if err != nil {
		w.TransportErr = err.Error()
		return resp, err
	}
	b, rerr := io.ReadAll(resp.Body)
	resp.Body.Close()
	if rerr != nil {
		w.TransportErr = "read body: " + rerr.Error()
	}
	resp.Body = io.NopCloser(bytes.NewReader(b))
	w.Status, w.RespHeader, w.RespBody = resp.StatusCode, resp.Header.Clone(), string(b)
	return resp, nil
}

func (t *tap) take(id string) []*Wire {
	t.mu.Lock()
	defer t.mu.Unlock()
	w := t.by[id]
	delete(t.by, id)
	return w
}

// Observation is what resource code saw for one request id.
type Observation struct {
	Call       *Call
	HTTPMethod string
	Path       string
	RawQuery   string
	Header     http.Header
	CtxMethod  string
}

// Server hosts the generated resources of one schema set behind a real http.Server.
type Server struct {
	Set       *bridge.Set
	Endpoints map[string]*Endpoint // by resource namespace
	Mounting  string
	Prefix    string

	mu       sync.Mutex
	seen     map[string][]*Observation // by request id
	script   func(obs *Observation) *Outcome
	errLog   bytes.Buffer
	errLogMu sync.Mutex
	http     *http.Server
	Addr     string
}

type logWriter struct{ s *Server }

func (l logWriter) Write(p []byte) (int, error) {
	l.s.errLogMu.Lock()
	defer l.s.errLogMu.Unlock()
	return l.s.errLog.Write(p)
}

func (s *Server) TakeErrLog() string {
	s.errLogMu.Lock()
	defer s.errLogMu.Unlock()
	out := s.errLog.String()
	s.errLog.Reset()
	return out
}

// SetScript installs the outcome script (called inside resource code, after the observation is logged).
func (s *Server) SetScript(f func(obs *Observation) *Outcome) {
	s.mu.Lock()
	s.script = f
	s.mu.Unlock()
}

func (s *Server) Take(id string) []*Observation {
	s.mu.Lock()
	defer s.mu.Unlock()
	o := s.seen[id]
	delete(s.seen, id)
	return o
}

// NewServer registers every resource of the set (or only those in names, if given) with mocks and starts serving.
// mounting: "bare" | "mux" | "prefixed" | "prefixed-mux".
func NewServer(set *bridge.Set, mounting string, filters []restli.Filter, names ...string) (*Server, error) {
	s := &Server{Set: set, Endpoints: map[string]*Endpoint{}, Mounting: mounting, seen: map[string][]*Observation{}}
	var srv restli.Server
	switch mounting {
	case "prefixed", "prefixed-mux":
		s.Prefix = "/api/v1"
		srv = restli.NewPrefixedServer(s.Prefix, filters...)
	default:
		srv = restli.NewServer(filters...)
	}
	want := map[string]bool{}
	for _, n := range names {
		want[n] = true
	}
	for _, r := range set.Schema.Resources {
		if len(r.Methods) == 0 || (len(want) > 0 && !want[r.Namespace]) {
			continue
		}
		entry, ok := set.Resources[r.Namespace]
		if !ok {
			return nil, fmt.Errorf("resource %s is not in the registry", r.Namespace)
		}
		ep := &Endpoint{Set: set, Res: r}
		s.Endpoints[r.Namespace] = ep
		mock := entry.NewMock()
		if err := s.installMock(ep, reflect.ValueOf(mock).Elem()); err != nil {
			return nil, err
		}
		entry.Register(srv, mock)
	}
	var h http.Handler
	if strings.HasSuffix(mounting, "mux") {
		mux := http.NewServeMux()
		srv.AddToMux(mux)
		h = mux
	} else {
		h = srv.Handler()
	}
	ln, err := net.Listen("tcp", "127.0.0.1:0")
	if err != nil {
		return nil, err
	}
	s.Addr = ln.Addr().String()
	s.http = &http.Server{Handler: h, ErrorLog: log.New(logWriter{s}, "", 0)}
	go s.http.Serve(ln)
	return s, nil
}

func (s *Server) Close() { s.http.Close() }

// installMock fills every Mock<Func> field of the generated MockResource.
func (s *Server) installMock(ep *Endpoint, mock reflect.Value) error {
	for i := range ep.Res.Methods {
		m := &ep.Res.Methods[i]
		f := mock.FieldByName("Mock" + FuncName(m))
		if !f.IsValid() {
			return fmt.Errorf("%s: MockResource has no field Mock%s", ep.Res.Namespace, FuncName(m))
		}
		ft := f.Type()
		outTypes := make([]reflect.Type, ft.NumOut())
		for j := range outTypes {
			outTypes[j] = ft.Out(j)
		}
		f.Set(reflect.MakeFunc(ft, func(args []reflect.Value) []reflect.Value {
			ctx := args[0].Interface().(*restli.RequestContext)
			obs := &Observation{HTTPMethod: ctx.Request.Method, Path: ctx.RequestPath(), RawQuery: ctx.Request.URL.RawQuery, Header: ctx.Request.Header.Clone()}
			func() {
				defer func() { _ = recover() }()
				obs.CtxMethod = restli.GetMethodFromContext(ctx.Request.Context()).String()
			}()
			call, err := ep.readArgs(m, args[1:])
			if err != nil {
				call = &Call{Resource: ep.Res.Namespace, Method: m.Name, Shown: "UNREADABLE ARGUMENTS: " + err.Error()}
			}
			id := ctx.Request.Header.Get("X-Verif-Req")
			call.ReqID = id
			obs.Call = call
			s.mu.Lock()
			s.seen[id] = append(s.seen[id], obs)
			script := s.script
			s.mu.Unlock()
			var o *Outcome
			if script != nil {
				o = script(obs)
			}
			if o == nil {
				o = &Outcome{}
			}
			if o.Status != 0 && m.Name != "create" {
				ctx.ResponseStatus = o.Status
			}
			if o.Panic != "" {
				panic(o.Panic)
			}
			outs, berr := ep.buildResult(m, o, outTypes)
			if berr != nil {
				outs = make([]reflect.Value, len(outTypes))
				for j, t := range outTypes {
					outs[j] = reflect.Zero(t)
				}
				outs[len(outs)-1] = reflect.ValueOf(fmt.Errorf("rig: cannot build scripted result: %w", berr)).Convert(outTypes[len(outTypes)-1])
				return outs
			}
			switch {
			case o.RawErr != nil:
				outs[len(outs)-1] = reflect.ValueOf(o.RawErr).Convert(outTypes[len(outTypes)-1])
			case o.Err != nil:
				outs[len(outs)-1] = reflect.ValueOf(o.Err.response()).Convert(outTypes[len(outTypes)-1])
			case o.PlainError != "":
				outs[len(outs)-1] = reflect.ValueOf(errors.New(o.PlainError)).Convert(outTypes[len(outTypes)-1])
			}
			return outs
		}))
	}
	return nil
}

// Client drives the generated clients of one schema set against a base URL.
type Client struct {
	Set       *bridge.Set
	Base      *url.URL
	Threshold int
	Strict    bool
	tap       *tap
	rc        *restli.Client
	clients   map[string]reflect.Value
	mu        sync.Mutex
}

func NewClient(set *bridge.Set, base string, threshold int, strict bool) *Client {
	u, _ := url.Parse(base)
	t := &tap{rt: &http.Transport{MaxIdleConnsPerHost: 16}, by: map[string][]*Wire{}}
	c := &Client{Set: set, Base: u, Threshold: threshold, Strict: strict, tap: t, clients: map[string]reflect.Value{}}
	c.rc = &restli.Client{Client: &http.Client{Transport: t, CheckRedirect: func(*http.Request, []*http.Request) error { return http.ErrUseLastResponse }},
		HostnameResolver: &restli.SimpleHostnameResolver{Hostname: u}, StrictResponseDeserialization: strict, QueryTunnellingThreshold: threshold}
	return c
}

// Invoke performs one call through the generated client; id travels in the X-Verif-Req header.
func (c *Client) Invoke(res *corpus.Resource, m *corpus.MethodSpec, call *Call, id string) (out *Outcome, wire []*Wire, err error) {
	defer func() {
		if r := recover(); r != nil {
			out = &Outcome{Err: &ErrInfo{Kind: "PANIC-IN-CALLER", Text: fmt.Sprint(r)}}
			wire = c.tap.take(id)
		}
	}()
	c.mu.Lock()
	cl, ok := c.clients[res.Namespace]
	if !ok {
		entry, found := c.Set.Resources[res.Namespace]
		if !found {
			c.mu.Unlock()
			return nil, nil, fmt.Errorf("resource %s is not in the registry", res.Namespace)
		}
		cl = reflect.ValueOf(entry.NewClient(c.rc))
		c.clients[res.Namespace] = cl
	}
	c.mu.Unlock()
	ep := &Endpoint{Set: c.Set, Res: res}
	meth := cl.MethodByName(FuncName(m) + "WithContext")
	if !meth.IsValid() {
		return nil, nil, fmt.Errorf("generated client of %s has no method %sWithContext", res.Namespace, FuncName(m))
	}
	mt := meth.Type()
	types := make([]reflect.Type, mt.NumIn()-1)
	for i := range types {
		types[i] = mt.In(i + 1)
	}
	args, goKeys, err := ep.buildArgs(m, call, types)
	if err != nil {
		return nil, nil, err
	}
	ctx := restli.ExtraRequestHeaders(context.Background(), func() (http.Header, error) { return http.Header{"X-Verif-Req": {id}}, nil })
	outs := meth.Call(append([]reflect.Value{reflect.ValueOf(ctx)}, args...))
	wire = c.tap.take(id)
	out, err = ep.readResult(m, outs, goKeys)
	return out, wire, err
}

// SetTransport replaces the transport below the wire tap (scripted responses).
func (c *Client) SetTransport(rt http.RoundTripper) { c.tap.rt = rt }

// KeyReadingFilter is a well-behaved filter: before the resource method runs it looks at the request's path keys (an
// audit log, an authorisation check), afterwards it does nothing. Calls must come out the same with or without it.
type KeyReadingFilter struct{}

func (KeyReadingFilter) PreRequest(req *http.Request) (context.Context, error) {
	for _, r := range restli.GetEntitySegmentsFromContext(req.Context()) {
		_, _ = r.ReadRawBytes()
	}
	_ = restli.GetMethodFromContext(req.Context())
	return nil, nil
}

func (KeyReadingFilter) PostRequest(context.Context, http.Header) error { return nil }

// WithKeyReadingFilter returns the filter list for a server: nil, or the key-reading filter.
func WithKeyReadingFilter(on bool) []restli.Filter {
	if !on {
		return nil
	}
	return []restli.Filter{KeyReadingFilter{}}
}
