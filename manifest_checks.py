HOOK_COMMITS = ["89dc048", "3afc1a3"]
NOT_YET = {}
chk("C18", "runtime monitoring: hook-controlled schedules + stress, recorded histories checked by porcupine (linearizability) and direct monitors",
    "Every history produced by driving the real lazy map (both generations) through controlled release schedules at its yield hooks (random, PCT-style, depth-first over release decisions) and through uncontrolled stress under the race detector is checked against the sequential compute-if-absent map; held on the schedules observed, not on all interleavings.",
    "Trusts: the hook placement marks the atomic steps; porcupine v1.3.0; the cooperative controller only chooses among real executions. Liveness is restated as bounded progress (a stall must repeat on re-run).",
    "DESIGN.md 3 C18")
chk("C19", "runtime monitoring: reference-model monitor (event-history fold) after every prefix, snapshot immutability re-reads, eligibility + Hoeffding frequency monitor on host selection",
    "The library's own URI-update handler and update loop (both generations) are fed synthetic tree-event histories (exhaustive to a bounded length, PRNG beyond) and the live announcement set is compared with an independent fold after every prefix; earlier snapshots are re-read at the end; host selection is drawn thousands of times per announcement set and every draw must be eligible. Held on the histories and draws observed.",
    "Trusts: synthetic TreeCacheEvents stand in for ZooKeeper; tag-guarded exports add no behaviour; the frequency bound is distribution-free (delta 1e-12) and only catches gross mis-weighting.",
    "DESIGN.md 3 C19")
chk("C20", "runtime monitoring: file-system fingerprint monitor (inode/mode/size/mtime/ctime/sha256) around the real clean / generate, ownership reference model, strace syscall audit",
    "Directory trees (enumerated to a bound, PRNG beyond, incl. look-alike names, symlinks, '.', missing target) are built on disk, the real CleanTargetDir (both generations) and the real generator (child processes) run on them, and every non-owned entry must keep its fingerprint, every owned file must vanish, emptied directories must go, a second clean must change nothing, and regeneration must reproduce the same generated files; a sample runs under strace and every successful mutating syscall must target an owned path.",
    "Trusts: the set-based ownership model (suffix .gr.go or manifest name, any depth); fingerprints detect touching except a restore of all of content+mtime+ctime (strace sample covers that).",
    "DESIGN.md 3 C20")
chk("C15", "runtime monitoring: reference-model monitor (independent URL builder) over library-built requests, plus a wire tap on the request target actually sent",
    "Requests built by NewGetRequest / NewJsonRequest (both generations) for every base URL of the context-path grammar x percent-encoded hostile resource paths x queries are compared byte for byte (scheme, host, EscapedPath, RawQuery) with an independent reference builder; a sample is sent over loopback and the request target received is compared too. Held on the bases/paths/queries enumerated.",
    "Trusts: the reference rule 'drop trailing slash, drop a final context segment equal to the root'; contexts with the root name as a complete non-final segment are observed only (unspecified by the property).",
    "DESIGN.md 3 C15")
chk("C14", "runtime monitoring: wire tap + in-resource request snapshots compared between tunnelled and untunnelled executions of the same call; codec-pair monitor; malformed-request monitor",
    "Every call kind is executed through the real client and a real loopback server with tunnelling off and with thresholds {1, len-1, len, len+1, large}; the tap decides 'tunnelled iff len(query) > T' and the snapshot taken inside resource code (verb, path, raw query, body bytes, content type, Rest.li headers) must be identical; Encode/DecodeTunnelledQuery pairs over hostile queries/bodies; hand-built malformed tunnelled requests must get 400 with no invocation event. Both generations.",
    "Trusts: hand-written resource kit registered through the exported Register* API records what resource code sees; only the malformed shapes the property names are in the verdict.",
    "DESIGN.md 3 C14")
