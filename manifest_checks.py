HOOK_COMMITS = ["89dc048"]
NOT_YET = {}
chk("C18", "runtime monitoring: hook-controlled schedules + stress, recorded histories checked by porcupine (linearizability) and direct monitors",
    "Every history produced by driving the real lazy map (both generations) through controlled release schedules at its yield hooks (random, PCT-style, depth-first over release decisions) and through uncontrolled stress under the race detector is checked against the sequential compute-if-absent map; held on the schedules observed, not on all interleavings.",
    "Trusts: the hook placement marks the atomic steps; porcupine v1.3.0; the cooperative controller only chooses among real executions. Liveness is restated as bounded progress (a stall must repeat on re-run).",
    "DESIGN.md 3 C18")
