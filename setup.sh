#!/bin/bash
# MANIFEST.setup_cmd: offline; warms the Go build cache for the harness against /repo.
set -u
cd "$(dirname "$0")"
export GOFLAGS=-mod=mod GOPROXY=off GOSUMDB=off GOTOOLCHAIN=local
mkdir -p evidence replays .work
./harness/derive.sh
(cd harness && go build -tags verif ./... ) || { echo "setup: harness does not build"; exit 1; }
(cd harness && for d in props/*/; do if [ -f "$d/RACE" ]; then go build -race -tags verif -trimpath -o /dev/null "./$d" || exit 1; fi; done) || exit 1
echo "setup ok"
