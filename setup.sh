#!/bin/bash
# MANIFEST.setup_cmd: offline; warms the Go build cache for the harness against /repo.
set -u
cd "$(dirname "$0")"
export GOFLAGS=-mod=mod GOPROXY=off GOSUMDB=off GOTOOLCHAIN=local
mkdir -p evidence replays .work
./harness/derive.sh
# packages that import generated bindings (props/*/NEEDS_BINDINGS) are generated and built by ./check in its work copy
pkgs=$(cd harness && for p in $(go list -tags verif -e ./ev/... ./corpus/... ./model/... ./refcodec/... ./bridge/... ./codec/... ./rig/... ./cmd/... ./props/... 2>/dev/null | grep -v '^verifh/gen\(/\|$\)'); do
  d=${p#verifh/}
  case "$d" in props/*) top=$(echo "$d" | cut -d/ -f1-2);; *) top="$d";; esac
  # a property whose driver needs generated bindings (NEEDS_BINDINGS) is built by ./check in its work copy, sub-packages included
  [ -f "$top/NEEDS_BINDINGS" ] || [ -f "$d/NEEDS_BINDINGS" ] || echo "$p"
done)
(cd harness && go build -tags verif $pkgs ) || { echo "setup: harness does not build"; exit 1; }
(cd harness && for d in props/*/; do if [ -f "$d/RACE" ] && [ ! -f "$d/NEEDS_BINDINGS" ]; then go build -race -tags verif -trimpath -o /dev/null "./$d" || exit 1; fi; done) || exit 1
echo "setup ok"
