#!/bin/bash
# usage: sweep.sh <tier> <seeds...>   runs every claimed check once per seed, prints one line per run
cd "$(dirname "$0")"
tier=$1; shift
ids=$(python3 -c "import json;print(' '.join(c['property_id'] for c in json.load(open('MANIFEST.json'))['checks']))")
for seed in "$@"; do
  for id in $ids; do
    out=$(VERIF_SEED=$seed ./check $id $tier 2>&1); rc=$?
    echo "rc=$rc $(echo "$out" | grep -E "^$id (quick|thorough)" | tail -1) $(echo "$out" | grep -cE '^(VIOLATION|INCONCLUSIVE)') alarms"
  done
done
